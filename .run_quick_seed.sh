#!/bin/bash
# usage: .run_quick_seed.sh SEED LOG
cd /verif
for i in $(seq -w 1 20); do
  s=$(date +%s); ./check C$i --tier quick --seed $1 > /tmp/q_$1_C$i.out 2>&1; rc=$?
  echo "C$i rc=$rc $(( $(date +%s)-s ))s $(grep -c '^VIOLATION' /tmp/q_$1_C$i.out) viol" >> $2
done
echo DONE >> $2
