//! Miniature C16 workloads for Miri (data-race / deadlock / UB detector over several schedule seeds).
//! usage: vmiri <workload>     prints `OK <workload> <detail>` or panics / is reported by Miri
use simplesl::variable::{Mut, Type, Variable};
use simplesl::{Code, Interpreter};
use std::sync::{Arc, RwLock};

fn function(src: &str) -> Arc<simplesl::function::Function> {
    let interp = Interpreter::with_stdlib();
    match Code::parse(&interp, src).expect("accepted").exec().expect("runs") {
        Variable::Function(f) => f,
        other => panic!("not a function: {other:?}"),
    }
}

fn int(v: &Variable) -> i64 {
    match v {
        Variable::Int(i) => *i,
        other => panic!("not an int: {other:?}"),
    }
}

fn shared_cell(op: &str, start: i64, x: i64, threads: usize, steps: usize, want: i64) {
    let body = (0..steps).map(|_| format!("c {op} x;")).collect::<String>();
    let f = function(&format!("(c: mut int, x: int) -> int {{ {body} return *c }}"));
    let cell = Arc::new(Mut { var_type: Type::Int, variable: RwLock::new(Variable::Int(start)) });
    let hs: Vec<_> = (0..threads)
        .map(|_| {
            let (f, cell) = (f.clone(), cell.clone());
            std::thread::spawn(move || f.create_call(vec![Variable::Mut(cell), Variable::Int(x)]).expect("call").exec().expect("runs"))
        })
        .collect();
    for h in hs {
        h.join().expect("thread");
    }
    let fin = int(&cell.variable.read().expect("not poisoned"));
    assert_eq!(fin, want, "`c {op} {x}` x {steps} on {threads} threads lost or tore an update");
    println!("OK cell{op} final {fin}");
}

fn main() {
    let w = std::env::args().nth(1).unwrap_or_default();
    match w.as_str() {
        "noop" => println!("OK noop"),
        "cell-add" => shared_cell("+=", 0, 1, 2, 2, 4),
        "cell-mul" => shared_cell("*=", 1, 3, 2, 2, 81),
        "cell-or" => shared_cell("|=", 0, 5, 3, 1, 5),
        "cell-pow" => shared_cell("**=", 3, 3, 2, 1, 19683),
        "cell-assign" => shared_cell("=", 0, 7, 2, 2, 7),
        "helpers" => {
            // the lazily initialised helper functions are first touched concurrently
            let f = function("(n: int) -> [int] { return [n, 2]~ @ (x: int) -> int { return x + 1 } ? (x: int) -> bool { return x > 1 } $] }");
            let g = function("(n: int) -> int { return [n, \"a\"]~ ? int $+ + [n]~ $* + [n]~ $& + [n]~ $| }");
            let hs: Vec<_> = (0..2)
                .map(|t| {
                    let (f, g) = (f.clone(), g.clone());
                    std::thread::spawn(move || {
                        let a = f.create_call(vec![Variable::Int(t)]).expect("call").exec().expect("runs");
                        let b = g.create_call(vec![Variable::Int(t)]).expect("call").exec().expect("runs");
                        format!("{a:?} {b:?}")
                    })
                })
                .collect();
            let out: Vec<String> = hs.into_iter().map(|h| h.join().expect("thread")).collect();
            assert_eq!(out[0], "[3] 0");
            assert_eq!(out[1], "[2, 3] 4");
            println!("OK helpers {out:?}");
        }
        "code" => {
            let interp = Interpreter::with_stdlib();
            let code = Arc::new(Code::parse(&interp, "c := mut 0; f := (k: int) -> int { c += k; return *c }; [1, 2]~ @ f $]").expect("accepted"));
            let hs: Vec<_> = (0..2)
                .map(|_| {
                    let code = code.clone();
                    std::thread::spawn(move || format!("{:?}", code.exec().expect("runs")))
                })
                .collect();
            for h in hs {
                assert_eq!(h.join().expect("thread"), "[1, 3]");
            }
            println!("OK code");
        }
        "readers" => {
            // one thread prints a cell that contains itself while another assigns to it
            let interp = Interpreter::with_stdlib();
            let c = Code::parse(&interp, "c := mut any 0; c = [c, 1]; c").expect("accepted").exec().expect("runs");
            let reader = function("(c: mut any) -> int { return std.len(std.convert.to_string(c)) + std.len(std.convert.to_string(c)) }");
            let writer = function("(c: mut any) -> int { c = [c, 2]; c = [c, 3]; return 0 }");
            let hs: Vec<_> = [reader, writer]
                .into_iter()
                .map(|f| {
                    let c = c.clone();
                    std::thread::spawn(move || f.create_call(vec![c]).expect("call").exec().expect("runs"))
                })
                .collect();
            for h in hs {
                h.join().expect("thread");
            }
            println!("OK readers");
        }
        "readers-struct" => {
            // the cell contains itself through a struct and through another cell
            let interp = Interpreter::with_stdlib();
            let c = Code::parse(&interp, "c := mut any 0; c = struct{me := c, n := mut any c}; c").expect("accepted").exec().expect("runs");
            let reader = function("(c: mut any) -> int { return std.len(std.convert.to_string(c)) + std.len(std.convert.to_string(c)) }");
            let writer = function("(c: mut any) -> int { c = struct{me := c, n := 2}; c = (c, 3); return 0 }");
            let hs: Vec<_> = [reader, writer]
                .into_iter()
                .map(|f| {
                    let c = c.clone();
                    std::thread::spawn(move || f.create_call(vec![c]).expect("call").exec().expect("runs"))
                })
                .collect();
            for h in hs {
                h.join().expect("thread");
            }
            println!("OK readers-struct");
        }
        "failing" => {
            // one thread increments, one applies failing compound assignments: the cell ends at start + increments
            let cell = Arc::new(simplesl::variable::Mut { var_type: simplesl::variable::Type::Int, variable: std::sync::RwLock::new(Variable::Int(10)) });
            let inc = function("(c: mut int) -> int { c += 1; c += 1; return *c }");
            let bad = function("(c: mut int, x: int) -> int { return c /= x }");
            let bad2 = function("(c: mut int, x: int) -> int { return c <<= x }");
            let (c1, c2) = (cell.clone(), cell.clone());
            let a = std::thread::spawn(move || inc.create_call(vec![Variable::Mut(c1)]).expect("call").exec().expect("runs"));
            let b = std::thread::spawn(move || {
                let r1 = bad.create_call(vec![Variable::Mut(c2.clone()), Variable::Int(0)]).expect("call").exec();
                let r2 = bad2.create_call(vec![Variable::Mut(c2), Variable::Int(64)]).expect("call").exec();
                assert!(r1.is_err() && r2.is_err(), "failing assignments must fail: {r1:?} {r2:?}");
            });
            a.join().expect("thread");
            b.join().expect("thread");
            assert_eq!(int(&cell.variable.read().expect("lock")), 12);
            println!("OK failing");
        }
        "run-state" => {
            // state created by a run (default cell of an exhausted `? mut int`, iterator position) is not shared between runs
            let f = function("(n: int) -> int { it := [mut 1, 2]~ ? mut int; it(); d := it().1; d += n; return *d }");
            let hs: Vec<_> = (1..3)
                .map(|t| {
                    let f = f.clone();
                    std::thread::spawn(move || {
                        let a = int(&f.clone().create_call(vec![Variable::Int(t)]).expect("call").exec().expect("runs"));
                        let b = int(&f.create_call(vec![Variable::Int(t)]).expect("call").exec().expect("runs"));
                        (a, b)
                    })
                })
                .collect();
            for (t, h) in hs.into_iter().enumerate() {
                let n = t as i64 + 1;
                assert_eq!(h.join().expect("thread"), (n, n));
            }
            println!("OK run-state");
        }
        "cross" => {
            // two cells updated from each other in both directions at once: no deadlock, contents stay unions of the start bits
            let f = function("(a: mut int, b: mut int) -> int { a |= *b; a |= *b; return *a }");
            let mk = |v: i64| Arc::new(Mut { var_type: Type::Int, variable: RwLock::new(Variable::Int(v)) });
            let (x, y) = (mk(1), mk(2));
            let hs: Vec<_> = [(x.clone(), y.clone()), (y.clone(), x.clone())]
                .into_iter()
                .map(|(a, b)| {
                    let f = f.clone();
                    std::thread::spawn(move || f.create_call(vec![Variable::Mut(a), Variable::Mut(b)]).expect("call").exec().expect("runs"))
                })
                .collect();
            for h in hs {
                h.join().expect("thread");
            }
            let (vx, vy) = (int(&x.variable.read().expect("lock")), int(&y.variable.read().expect("lock")));
            assert!(vx & 1 == 1 && vy & 2 == 2 && vx | vy == 3, "cells ended as {vx}, {vy}");
            println!("OK cross {vx} {vy}");
        }
        "mixed" => {
            // a plain store racing compound assignments: the storing thread finds its value (plus increments) when it reads back
            let cell = Arc::new(Mut { var_type: Type::Int, variable: RwLock::new(Variable::Int(0)) });
            let storer = function("(c: mut int) -> int { c = 1000; r := *c; return r }");
            let bumper = function("(c: mut int) -> int { c += 1; c |= 0; return *c }");
            let (c1, c2) = (cell.clone(), cell.clone());
            let a = std::thread::spawn(move || int(&storer.create_call(vec![Variable::Mut(c1)]).expect("call").exec().expect("runs")));
            let b = std::thread::spawn(move || int(&bumper.create_call(vec![Variable::Mut(c2)]).expect("call").exec().expect("runs")));
            let seen = a.join().expect("thread");
            b.join().expect("thread");
            assert!((1000..=1001).contains(&seen), "the storing thread read {seen} back after storing 1000");
            let fin = int(&cell.variable.read().expect("lock"));
            assert!((1000..=1001).contains(&fin), "the cell ended as {fin}");
            println!("OK mixed {seen} {fin}");
        }
        "sites" => {
            // one function value whose type-test sites see a different kind of argument from each thread
            let f = function("(v: int|string|[int]) -> int { a := mut 0; if x: int = v { a += 1; } m := match v { p: int => 10, q: string => 20, r: [int] => 30, }; a += m; if s: string|[int] = v { a += 100; } return *a }");
            let args = [Variable::Int(1), Variable::String(Arc::from("s")), Variable::from(vec![Variable::Int(1)])];
            let want = [11, 120, 130];
            let hs: Vec<_> = args
                .into_iter()
                .map(|v| {
                    let f = f.clone();
                    std::thread::spawn(move || (int(&f.clone().create_call(vec![v.clone()]).expect("call").exec().expect("runs")), int(&f.create_call(vec![v]).expect("call").exec().expect("runs"))))
                })
                .collect();
            for (h, w) in hs.into_iter().zip(want) {
                assert_eq!(h.join().expect("thread"), (w, w));
            }
            println!("OK sites");
        }
        other => panic!("unknown workload {other}"),
    }
}
