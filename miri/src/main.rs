//! Miniature C16 workloads for Miri (data-race / deadlock / UB detector over several schedule seeds).
//! usage: vmiri <workload>     prints `OK <workload> <detail>` or panics / is reported by Miri
use simplesl::variable::{Mut, Type, Variable};
use simplesl::{Code, Interpreter};
use std::sync::{Arc, RwLock};

fn function(src: &str) -> Arc<simplesl::function::Function> {
    let interp = Interpreter::with_stdlib();
    match Code::parse(&interp, src).expect("accepted").exec().expect("runs") {
        Variable::Function(f) => f,
        other => panic!("not a function: {other:?}"),
    }
}

fn int(v: &Variable) -> i64 {
    match v {
        Variable::Int(i) => *i,
        other => panic!("not an int: {other:?}"),
    }
}

fn shared_cell(op: &str, start: i64, x: i64, threads: usize, steps: usize, want: i64) {
    let body = (0..steps).map(|_| format!("c {op} x;")).collect::<String>();
    let f = function(&format!("(c: mut int, x: int) -> int {{ {body} return *c }}"));
    let cell = Arc::new(Mut { var_type: Type::Int, variable: RwLock::new(Variable::Int(start)) });
    let hs: Vec<_> = (0..threads)
        .map(|_| {
            let (f, cell) = (f.clone(), cell.clone());
            std::thread::spawn(move || f.create_call(vec![Variable::Mut(cell), Variable::Int(x)]).expect("call").exec().expect("runs"))
        })
        .collect();
    for h in hs {
        h.join().expect("thread");
    }
    let fin = int(&cell.variable.read().expect("not poisoned"));
    assert_eq!(fin, want, "`c {op} {x}` x {steps} on {threads} threads lost or tore an update");
    println!("OK cell{op} final {fin}");
}

fn main() {
    let w = std::env::args().nth(1).unwrap_or_default();
    match w.as_str() {
        "noop" => println!("OK noop"),
        "cell-add" => shared_cell("+=", 0, 1, 2, 2, 4),
        "cell-mul" => shared_cell("*=", 1, 3, 2, 2, 81),
        "cell-or" => shared_cell("|=", 0, 5, 3, 1, 5),
        "cell-pow" => shared_cell("**=", 3, 3, 2, 1, 19683),
        "cell-assign" => shared_cell("=", 0, 7, 2, 2, 7),
        "helpers" => {
            // the lazily initialised helper functions are first touched concurrently
            let f = function("(n: int) -> [int] { return [n, 2]~ @ (x: int) -> int { return x + 1 } ? (x: int) -> bool { return x > 1 } $] }");
            let g = function("(n: int) -> int { return [n, \"a\"]~ ? int $+ + [n]~ $* + [n]~ $& + [n]~ $| }");
            let hs: Vec<_> = (0..2)
                .map(|t| {
                    let (f, g) = (f.clone(), g.clone());
                    std::thread::spawn(move || {
                        let a = f.create_call(vec![Variable::Int(t)]).expect("call").exec().expect("runs");
                        let b = g.create_call(vec![Variable::Int(t)]).expect("call").exec().expect("runs");
                        format!("{a:?} {b:?}")
                    })
                })
                .collect();
            let out: Vec<String> = hs.into_iter().map(|h| h.join().expect("thread")).collect();
            assert_eq!(out[0], "[3] 0");
            assert_eq!(out[1], "[2, 3] 4");
            println!("OK helpers {out:?}");
        }
        "code" => {
            let interp = Interpreter::with_stdlib();
            let code = Arc::new(Code::parse(&interp, "c := mut 0; f := (k: int) -> int { c += k; return *c }; [1, 2]~ @ f $]").expect("accepted"));
            let hs: Vec<_> = (0..2)
                .map(|_| {
                    let code = code.clone();
                    std::thread::spawn(move || format!("{:?}", code.exec().expect("runs")))
                })
                .collect();
            for h in hs {
                assert_eq!(h.join().expect("thread"), "[1, 3]");
            }
            println!("OK code");
        }
        "readers" => {
            // one thread prints a cell that contains itself while another assigns to it
            let interp = Interpreter::with_stdlib();
            let c = Code::parse(&interp, "c := mut any 0; c = [c, 1]; c").expect("accepted").exec().expect("runs");
            let reader = function("(c: mut any) -> int { return std.len(std.convert.to_string(c)) + std.len(std.convert.to_string(c)) }");
            let writer = function("(c: mut any) -> int { c = [c, 2]; c = [c, 3]; return 0 }");
            let hs: Vec<_> = [reader, writer]
                .into_iter()
                .map(|f| {
                    let c = c.clone();
                    std::thread::spawn(move || f.create_call(vec![c]).expect("call").exec().expect("runs"))
                })
                .collect();
            for h in hs {
                h.join().expect("thread");
            }
            println!("OK readers");
        }
        other => panic!("unknown workload {other}"),
    }
}
