"""Per-property configuration of the driver: budgets, floors, rule text, assumptions."""

COMMON_ASSUME = [
    "the harness crate links /repo's current working tree with cargo feature `verif` (observation-only hooks)",
    "build profile: release + overflow-checks + debug-assertions (what cargo run/test users get, at release speed)",
    "verdict covers only the executions listed under coverage; nothing is claimed about inputs not generated",
]

PROPS = {
    "C08": {
        "budget": {"quick": 40, "thorough": 420},
        "rule": "operators x operands: exhaustive 30x30 int boundary grid x 17 binary int operators + 2 unary, 26x26 float grid x 11 operators, "
                "all bool operand pairs, plus seeded random 64-bit / IEEE operands; each case evaluated in literal (folded at parse), "
                "run-time (create_call on a pre-parsed function) and compound-assignment form and compared with an i128 / native-f64 oracle. "
                "distinct_nontrivial = distinct (type, operator, operand values) triples; every triple is non-trivial (a full evaluation against the oracle). Added after seeded changes: half-constant forms (one operand a literal in the function text) for ints and floats; two-level compound expressions (a unary or binary operator over the result of another, with run-time operands and literal constants, incl. nested shifts over every pair of boundary amounts) on a 14x14 int / 12x12 float grid; a helper that applies an operator to operands of its documented types and is refused by the checker is a violation; the same name on both sides of every operator (`a op a`, through a local, through `*c`, in a nested function, as a named constant, `c op= *c`) on the grid diagonals and a twelfth of the random cases.",
        "assumptions": COMMON_ASSUME + ["float oracle = the same operation on the host's f64 (IEEE-754 binary64; powf from the platform libm)"],
        "floors": {"quick": {"evaluations": 25000, "shape:errors_by_op": 5}, "thorough": {"evaluations": 50000, "shape:errors_by_op": 5}},
        "exhaustive": False,
        "technique": "runtime value monitor: differential against an independent i128 / IEEE oracle over grid + random operands, three evaluation forms",
        "level_text": "Every operator is executed through the real parser/folder/interpreter in three forms on an exhaustive boundary grid and millions of seeded random operands; "
                      "each result (value and runtime tag, or error kind) is compared with an independent big-integer / IEEE oracle. Exploration, not proof: operands outside the grid are sampled.",
        "level_note": "trusts the harness oracle (i128 arithmetic reduced mod 2^64, host f64) and the public API (Code::parse/exec, Function::create_call)",
    },
}

PROPS["C09"] = {
    "budget": {"quick": 45, "thorough": 420},
    "rule": "sequences (arrays of mixed element kinds, ASCII / 2-,3-,4-byte UTF-8 / combining-mark strings; length 0..5) x every index and every "
            "(start, stop, step) triple drawn from {absent} U [-n-2, n+2] U {MIN, MIN+1, -2^32, -2^31, 2^31, 2^32, MAX-1, MAX}, all 8 slice shapes plus the `[a:b:]` spelling, exhaustive per listed sequence, "
            "plus seeded random sequences/bounds; each case evaluated folded (literal sequence) and at run time (sequence and bounds as arguments of a pre-parsed function) "
            "and compared with a PySlice_AdjustIndices oracle written over i128; std.len compared with the scalar count; static type of the literal form must admit the value. "
            "distinct_nontrivial = distinct (sequence, operation, bounds) cases. Added after seeded changes: half-constant forms (first element / whole sequence / index / one bound hidden from the folding pass); the sequence seen through a `[any]|string` parameter; repeat literals `[v; n]` written in place (v and n constant or not) indexed, sliced and measured; 35 static-typing templates (what the documented result kind obliges the checker to accept or refuse, incl. bare slices of non-sequences); two postfix steps in a row (slice then index / slice / len, in place, through a name, with the sequence or the index hidden or passed as argument); bounds and indices computed by slicing / measuring another sequence.",
    "assumptions": COMMON_ASSUME + ["oracle = Python slice semantics re-implemented in the harness over i128, independent of the slyce crate"],
    "floors": {"quick": {"evaluations": 50000, "shape:slice_shapes": 20}, "thorough": {"evaluations": 100000, "shape:slice_shapes": 20}},
    "technique": "runtime value monitor: differential against an independent Python-slice oracle, exhaustive bounded grid, folded and run-time forms",
    "level_text": "All listed sequences are indexed and sliced through the real parser/folder/interpreter with every index / (start, stop, step) combination in a range exceeding the length on both sides plus extreme i64 values, "
                  "in folded and run-time form; values, error kinds, result kind and the static type are compared with an independent oracle. Exhaustive within the listed bounds, sampled beyond.",
    "level_note": "trusts the harness's Python-slice oracle and its own literal reader; sequences longer than 5 are only sampled",
    "exhaustive": False,
}

PROPS["C20"] = {
    "budget": {"quick": 45, "thorough": 420},
    "rule": "values generated over bool/int/finite float/string/()/array/tuple to depth 3 with boundary scalars (MIN/MAX int, -0.0, subnormals, 1e308, 1e21/1e-7 exponent switch points, "
            "strings over quotes, backslashes, every C0/C1 control, U+2028, combining marks, non-BMP, NUL before a digit); each value is printed with its Debug rendering and read back by "
            "Variable::from_str and by Code::parse(..).exec() (program route skipped for values containing MIN_INT); the result must be canonically equal, have the same type and be == to the original. "
            "Integer literal texts (0b/0o/0x/decimal, underscores, leading zeros, 63/64/65-bit magnitudes) are checked against u128 parsing: in range -> that value, otherwise IntegerOverflow. "
            "distinct_nontrivial = distinct printed texts / literal texts. Added after seeded changes: the negative spelling of every integer literal through both readers; every literal also as an element of arrays / tuples (an over-long literal is refused wherever it stands); backslash followed by every printable ASCII character; arrays of up to 70 000 elements and strings of up to 1 000 000 characters; values wrapped in 1..40 further levels of arrays / tuples; print histories (the text of a value before and after values sharing it were printed); runs of 2..257 elements that are == but not identical or identical except at one position.",
    "assumptions": COMMON_ASSUME + ["expected value of a printed text = the value it was printed from (harness keeps the original); the replay reader understands Rust Debug escapes"],
    "floors": {"quick": {"evaluations": 75000, "shape:int_literal_forms": 12, "shape:value_features": 12}, "thorough": {"evaluations": 150000, "shape:int_literal_forms": 12, "shape:value_features": 12}},
    "technique": "runtime round-trip monitor: print -> parse (two routes) -> compare with the original value and type; integer literal forms vs u128 oracle",
    "level_text": "Hundreds of thousands of generated first-order values and integer literal spellings are pushed through the real printer and both real readers; any change of value, type or acceptance is reported. Exploration over a generated value space with all boundary scalars listed explicitly.",
    "level_note": "trusts the harness's canonical value comparison; generated leaves have depth <= 3, wrapped in up to 40 further levels",
    "exhaustive": False,
}

PROPS["C10"] = {
    "budget": {"quick": 50, "thorough": 480},
    "rule": "type universe closed under array, tuple(2-3), function(0-2 params), mut, struct(fields of {a,b,c}), union(2-3) over {bool,int,float,string,(),any,!}: depth <= 1 enumerated completely (plus unions of same-arity function types next to the single function types over the union of their parameters / results; 503 types) "
            "(all ordered pairs; all triples whose two premises hold; every law instance), depth 2-3 sampled as chains A <= B <= C built by widening. Each law of the statement is a predicate over answers of the real "
            "Type::matches / | / conjoin / ==; semantic soundness: every generated value of A (and every value whose runtime type matches B) must belong to B by the harness's own membership test. "
            "Only the stated direction of each law is demanded. distinct_nontrivial = distinct types, ordered pairs, chains and (value, type) soundness instances evaluated. Added after seeded changes: unions of 2..64 members built with | in shuffled order (exact members, upper bound of each, below exactly the common bounds, equivalent to the union read from its text).",
    "assumptions": COMMON_ASSUME + ["membership of a value in a type is judged by the harness (contents recursively; functions by declared signature under the harness's own subtype relation; cells by exact declared type and current content)"],
    "floors": {"quick": {"law:transitive:premise": 75000, "law:soundness:premise": 1250, "law:union-below-iff": 25000, "law:mut-invariant:premise": 25, "law:conjoin-lower-bound:non-never": 250},
               "thorough": {"law:transitive:premise": 150000, "law:soundness:premise": 2500, "law:union-below-iff": 50000, "law:mut-invariant:premise": 50, "law:conjoin-lower-bound:non-never": 500}},
    "technique": "runtime law monitor over the public Type API (exhaustive depth-1 universe + sampled deeper chains) with a value-membership soundness oracle",
    "level_text": "All laws are evaluated through the real Type API on a completely enumerated depth-1 universe (every pair, every premise-satisfying triple) and on sampled deeper chains; soundness is checked with generated values. Exhaustive for depth <= 1, exploration beyond.",
    "level_note": "exhaustive only to type depth 1; deeper types are sampled; trusts the harness's membership oracle",
    "exhaustive": False,
}

PROPS["C15"] = {
    "budget": {"quick": 50, "thorough": 420},
    "rule": "types from the depth-1 universe (complete) and sampled types of depth 2-4 focused on unions inside function results, mut contents, array elements, parameters and struct fields; each type is rebuilt and printed "
            "8 (quick) / 32 (thorough) times so several member/field orders occur, and every printed text is parsed back: the result must be canonically identical (harness comparison) and == to the original. "
            "Additionally `[elements]~ ? T $]` runs in-language for the types and the selected elements are compared with harness membership. distinct_nontrivial = distinct types. Added after seeded changes: print / widen (`|`, `|=`) / print histories on one type value; structs, tuples, unions and parameter lists of up to 100 members; the type filter over structs each lacking one field.",
    "assumptions": COMMON_ASSUME + ["canonical type comparison (sorted members / fields) is the harness's, so the check does not inherit a broken =="],
    "floors": {"quick": {"evaluations": 25000, "shape:union_positions": 6, "types_seen_in_several_print_orders": 125, "type_filter_nonempty_selection": 50},
               "thorough": {"evaluations": 50000, "shape:union_positions": 6, "types_seen_in_several_print_orders": 250, "type_filter_nonempty_selection": 100}},
    "technique": "runtime round-trip monitor: build -> print (several hash orders) -> parse -> canonical comparison; type filter executed in-language",
    "level_text": "Every type of the depth-1 universe and tens of thousands of deeper types are printed several times (different hash orders) and re-parsed through the real API; the in-language type filter is run for them. Exploration; exhaustive for depth <= 1.",
    "level_note": "print orders are whatever the runtime's random hash keys produce in 8/32 rebuilds, not all permutations",
    "exhaustive": False,
}

PROPS["C03"] = {
    "budget": {"quick": 60, "thorough": 600},
    "rule": "inputs to Code::parse / Variable::from_str / Type::from_str from six families: (a) every token sequence of length <= 3 over a 99-token alphabet (all operators, keywords, brackets, one literal of each kind, bound and unbound names) "
            "in four statement contexts (names bound as constants = folding paths; as typed parameters = run-time paths; inside a loop; in infix position), longer sequences sampled; all type-token sequences of length <= 4 (5 thorough) and value-literal token sequences of length <= 4; "
            "(b) grammar-directed programs that ignore types; (c) token-level mutations and splices of the documentation's snippets, example_scripts and a construct checklist; (d) the checklist itself incl. imports of missing / directory / non-UTF-8 / ill-formed / ill-typed files; "
            "(e) failing constant subexpressions (1/0, 1%0, 1<<64, 2**-1, [][0], ...) in every constant position; (f) arbitrary Unicode text. Oracle: no panic (resource panics are inconclusive). "
            "distinct_nontrivial = distinct inputs that got past the pest grammar and reached instruction construction (accepted or rejected by the checker). Added after seeded changes: (g) typed-generator programs; (h) every parameter x every postfix form (incl. every spelling of an int literal) x usage contexts; (i) the operator x operand-type family and constant operands of union static type; (j) names narrowed to a diverging branch x values x uses; (k) names used inside their own binder; files imported twice from scopes that differ in what the file reads; (l) statements after a never-completing statement in 14 kinds of body x 7 diverging statements x 13 continuations, inline and in imported files; (m) first use of each lazily initialised construct as the first thing a fresh process parses with a bare interpreter (top level / function / module / imported file / nested import; child processes); typed type-filter texts.",
    "assumptions": COMMON_ASSUME + ["nesting depth <= 24 and literal sizes bounded (outside the claim beyond that); capacity-overflow / allocation panics are counted inconclusive"],
    "floors": {"quick": {"evaluations": 500000, "distinct": 25000, "checklist_accepted": 20, "shape:checker_errors": 25, "shape:import_cases": 10},
               "thorough": {"evaluations": 1000000, "distinct": 50000, "checklist_accepted": 20, "shape:checker_errors": 25, "shape:import_cases": 10}},
    "death_is_violation": True,
    "technique": "runtime panic monitor (catch_unwind + panic hook + worker exit status) over exhaustive short token sequences, grammar-directed and mutation workloads",
    "level_text": "Millions of hostile inputs are pushed through the three real parse entry points; every token sequence up to length 3 is enumerated in four contexts, longer and deeper inputs are sampled. Any panic or abort is a violation with the input as witness.",
    "level_note": "exhaustive only for token sequences of length <= 3 over the listed alphabet; everything else is sampled",
    "exhaustive": False,
}

PROPS["C01"] = {
    "budget": {"quick": 50, "thorough": 540},
    "rule": "programs from a typed generator (profiles mixed / hostile names + error-prone operands / unions + cells / iterators; <= 10 top-level statements, expression depth <= 3) rendered with literal and with hidden constants, "
            "their accepted token-level mutants, and host-API calls (create_call, 3 generated argument vectors each) of every function value a program yields. A monitor hooked into Instruction::exec and Function::exec judges every instruction result, "
            "every bound argument and every returned value against the static type the checker computed for it, by runtime tag (as_type().matches) and by contents recursively (harness membership test; cells by exact declared type and current content), "
            "plus the program's reported type vs its result and all cells reachable from the result. Frames of the interpreter's generic helper closures are skipped (placeholder types); their element-carrying steps are judged against the retyped result. "
            "The first violation of an execution is reported (later ones may be the same value flowing on). distinct_nontrivial = distinct program texts executed under the monitor. Added after seeded changes: the operator x operand-type family (optyping.rs: every binary operator, compound assignment, prefix / postfix and statement form, `$init` shape, iterator-operator parameter typing and `? T` filter type over a universe with unions; whatever is accepted is called with every combination of member values), constant operands of union static type, names narrowed to a diverging branch; `it ? T` over sources of a declared element type E for 21 x 38 pairings of E and T in six usage shapes; statements after a never-completing statement in every kind of body.",
    "assumptions": COMMON_ASSUME + ["membership of a value in a type is judged by the harness oracle (oracle.rs), not by Type::matches alone"],
    "floors": {"quick": {"exec_events_nontrivial": 75000, "shape:instruction_kinds_executed": 55, "shape:kind_type_value_triples": 800, "call_args_judged": 5000, "returns_judged": 5000, "helper_steps_judged": 500},
               "thorough": {"exec_events_nontrivial": 150000, "shape:instruction_kinds_executed": 55, "shape:kind_type_value_triples": 800, "call_args_judged": 10000, "returns_judged": 10000, "helper_steps_judged": 1000}},
    "technique": "runtime type-soundness monitor on hooked instruction results, call arguments and returns, over generated programs / mutants / host calls",
    "level_text": "Every value produced while hundreds of thousands of generated, accepted programs run is checked against the static type of the instruction that produced it (tag and contents). Exploration of the generator's program space; not a proof of soundness.",
    "level_note": "reach = what the generator (genp.rs) emits: no imports, no stdlib beyond std.len, nesting depth <= 3; trusts oracle.rs membership",
    "exhaustive": False,
}

PROPS["C02"] = {
    "budget": {"quick": 50, "thorough": 540},
    "rule": "same workload as C01 with the error-prone profile weighted in (zero divisors, shifts by 64, negative exponents / lengths, out-of-range indices at run time; break/continue/return at every nesting depth; matches over every union member; "
            "closures escaping their scope; iterators pulled after exhaustion; bounded recursion), accepted token-level mutants of accepted programs, and host-API calls of every yielded function with admissible arguments. "
            "Oracle: each execution ends with a value or one of the six documented errors; a panic (hook records message, location and the SimpleSL source being executed) or an undocumented error is a violation; fuel / depth / allocation exhaustion is inconclusive. "
            "distinct_nontrivial = distinct program texts executed. Added after seeded changes: the same operator x operand-type, constant-union and diverging-branch families as C01 (accepted => no admitted argument list panics).",
    "assumptions": COMMON_ASSUME + ["fuel (6000 loop iterations + calls) and call depth 120 bound every execution; exceeding them is inconclusive, never a violation"],
    "floors": {"quick": {"evaluations": 25000, "shape:instruction_kinds_executed": 55, "shape:runtime_errors_observed": 4, "host-call:value": 750},
               "thorough": {"evaluations": 50000, "shape:instruction_kinds_executed": 55, "shape:runtime_errors_observed": 4, "host-call:value": 1500}},
    "death_is_violation": True,
    "technique": "runtime panic monitor (panic hook + catch_unwind + worker exit status) with attribution to preceding soundness events, over generated programs / accepted mutants / host calls",
    "level_text": "Tens of thousands (quick) to millions (thorough) of accepted programs and host calls are executed with a panic monitor; any panic, abort or undocumented error is a violation with the program text as witness. Exploration.",
    "level_note": "same generator reach as C01; resource exhaustion is outside the claim and counted inconclusive",
    "exhaustive": False,
}

_DIFF_COMMON = ("programs from the typed generator (genp.rs; <= 10 top-level statements, expression depth <= 3-4, unique effect ids appended to a log cell by tick helpers), each rendered with literal constants and with every constant hidden behind an identity call, "
                "both executed through Code::parse + exec_unscoped; ")
_DIFF_REF = ("each accepted run is compared with an independent reference evaluator (refeval.rs: lexical scoping with snapshot capture, left-to-right exactly-once evaluation, short-circuit logic, documented arithmetic / slices / iterator list semantics, cells with identity); "
             "the payload of an exhausted iterator step and anything the reference cannot decide is not judged; a violation is shrunk on the AST while the same class persists. distinct_nontrivial = distinct program texts. Added after seeded changes: the generator's typing is exact, so a hidden-constant twin that the checker refuses although the reference evaluator ran the program to completion is a violation (valid-program-rejected); effectful function operands, widened unions, inferred cells over exactly-typed initialisers, structured run-time type tests (arrays / tuples of unions, cells, a struct behind a union), default arms anywhere, value arms on union scrutinees, never-matching while-set / if-set, struct literals in any field order with repeated names, float / string reductions; exits in else branches / match arms / nested blocks, loops whose body ends in `break`, cells in `[c; n]` / nested / tuple-repeat containers, writes and reads through container paths. C11 additionally: every iterator operator over explicit element lists (wrapping ints, floats whose sums round or overflow, strings, bools) in three source forms against the left fold computed in the harness, and `it ? T` over typed sources judged by harness membership. C07 / C12 additionally: the order family (an operand reading a cell next to one writing it in every operand position; all layouts of <= 2 arms x <= 2 constant / effectful match candidates over seven scrutinee forms).")

def _diff(prop, focus, judged, technique, floors_extra=None):
    floors = {"programs": 5000, "shape:constructs": 70}
    floors.update(floors_extra or {})
    tfloors = dict(floors); tfloors["programs"] = 10000
    return {
        "budget": {"quick": 50, "thorough": 540},
        "rule": _DIFF_COMMON + focus + " " + judged + " " + _DIFF_REF,
        "assumptions": COMMON_ASSUME + ["the reference evaluator implements the documented semantics; where the documentation leaves a value open the comparison skips it",
                                        "programs the checker rejects are counted, never judged; fuel / depth exhaustion is inconclusive"],
        "floors": {"quick": floors, "thorough": tfloors},
        "technique": technique,
        "level_text": "Tens of thousands (quick) to millions (thorough) of generated programs are executed by the real interpreter and by an independent reference evaluator / as constant-hidden twins; any observable difference in the judged aspect is a violation with a shrunk witness. Exploration of the generator's program space.",
        "level_note": "reach = what genp.rs emits with this property's profiles; trusts refeval.rs as the documented semantics",
        "exhaustive": False,
    }

PROPS["C04"] = _diff("C04", "profiles twins / twins-errors / twins-control put constants in every position (operands of every operator, conditions, both sides of && and ||, index and slice bounds, array / tuple / struct elements, repeat value and length, match scrutinees and value arms, through := and destructuring, call arguments, cell initialisers, captured by closures, dropped statements).",
    "Judged: literal twin vs hidden twin only - equal result and equal effect log when both complete, neither fails at run time where the other completes; a parse-time error of the literal twin that is one of the six runtime errors is the permitted difference; acceptance differences and both failing are recorded, not flagged.",
    "runtime twin-differential monitor (literal vs constant-hidden rendering of one AST)", {"twins-both-complete": 6000, "twins-permitted-parse-time-error": 300, "twins-both-fail-at-run-time": 200})
PROPS["C06"] = _diff("C06", "profiles scopes / scopes-few-names use the helper closures' own local names (res, con, value, func, mapper, predicate, iterator, default, array, i, len, acc, curr, iter) for user variables, heavy shadowing and re-declaration after capture, closures returned / passed / stored, recursion, modules, user-written iterators consumed by every iterator operator and by for.",
    "Judged: result and effect log vs the reference (name resolution, scope ends, snapshot capture with shared cells, self reference, module = exactly its own names).",
    "runtime differential monitor vs reference evaluator (scoping / capture profile)", {"agree-with-reference:A": 5000})
PROPS["C07"] = _diff("C07", "profiles order / order-calls wrap 85-90 % of all scalar operands (operands of every operator incl. the 12 assignments, call arguments after the callee, array / tuple / struct elements, repeat, index, slice bounds, `$ init f` operands, conditions, match candidates) in tick helpers.",
    "Judged: the effect log only (order, exactly-once, short-circuit, only the chosen branch, candidates top to bottom); result differences belong to other properties and are not flagged here.",
    "runtime effect-log monitor vs reference evaluator (unique ids per effectful operand)", {"agree-with-reference:A": 5000, "ref_log_entries": 100000})
PROPS["C11"] = _diff("C11", "profiles iterators / iterators-shared: array-derived and user-written stateful sources, pipelines of @ ? `? T` stages, every consumer ($] \\ `$ init f` $+ $* $&& $|| $& $| for), manual pulls interleaved with consumers on shared sources, pulls after exhaustion.",
    "Judged: results and the pull / callback effect log vs list semantics (each element pulled once in order, lazy stages, one application per element examined, documented identities, $&& / $|| stopping at the deciding element).",
    "runtime history monitor vs list-semantics reference (pull / callback log with unique ids)", {"agree-with-reference:A": 5000, "ref_iterator_pulls": 100000})
PROPS["C12"] = _diff("C12", "profile control: nestings (depth <= 4) of if / match (value, type, default arms) / if-set / while-set / loop / while / for inside functions with break / continue / return at every depth inside blocks, branches and arms; scrutinees over every member of int|string.",
    "Judged: which branch markers reach the log and the final values vs the reference (first arm top to bottom, runtime-type tests, innermost loop / function exits, loops yield (), blocks their last statement).",
    "runtime branch-marker monitor vs reference evaluator", {"agree-with-reference:A": 5000})
PROPS["C13"] = _diff("C13", "profiles cells / cells-closures: aliasing graphs (cells bound twice, in arrays / tuples / structs, captured by closures, passed as arguments), declared types incl. unions and arrays, sequences of all 12 assignment operators incl. failing ones, right-hand sides that themselves assign.",
    "Judged: every read and every assignment's yielded value (through results) and the effect log vs a reference heap; cell contents reachable from the result compared up to identity isomorphism.",
    "runtime heap-model monitor vs reference evaluator (cells with identity)", {"agree-with-reference:A": 5000})

PROPS["C19"] = {
    "budget": {"quick": 50, "thorough": 420},
    "rule": "30 array contents over boundary scalars (empty, ints incl. MIN/MAX, 0.0 vs -0.0, NaN, strings, mixed, nested arrays with empty parts, tuples) x 16 provenance paths producing that content "
            "(literal, concatenation at each split incl. with [], slice of a longer array, [:] , ~ $], @ id $], ? p $], ? any $], both sides of \\, [v; n], a cell read, functions typed [any] / any) x all path pairs, "
            "for equal contents and for contents of equal length or empty (the interesting unequal ones), with constant and with hidden (run-time) operands, plain and wrapped in tuples / structs / arrays: "
            "a == b, b == a, a != b, b != a, value-arm match and a == a are compared with the reference equality (element-wise, floats IEEE, different kinds unequal). Plus a checklist of scalar / cross-kind / function / cell identity cases "
            "and host-built arrays with every stored element type compared through Variable == and in-language. distinct_nontrivial = distinct comparison programs. Added after seeded changes: static views (the same value through differently typed parameters, also with one operand a literal); identity of functions and cells seen from inside a function body; containers holding NaN compared with their aliases; nesting 127-400 levels deep; negated spellings of == / !=; floats one or two ulps apart; all ordered pairs of a 20-element scalar pool (signed zeros, NaN, infinities, look-alikes of other kinds) through == / != / value arms in four constness forms, and `match` with 20 all-constant leading arms in 20 orders; struct contents (field orders permuted, nested, in tuples) in the provenance grid.",
    "assumptions": COMMON_ASSUME + ["reference equality = the documented one, implemented in the harness over its own content representation"],
    "floors": {"quick": {"evaluations": 25000, "shape:path_pairs": 256, "expected-equal": 2500, "expected-unequal": 5000, "host-built-pairs": 2500, "scalar-cases-held": 900},
               "thorough": {"evaluations": 50000, "shape:path_pairs": 256, "expected-equal": 5000, "expected-unequal": 10000, "host-built-pairs": 5000, "scalar-cases-held": 150}},
    "technique": "runtime provenance monitor: equal / unequal contents built along every pair of array-producing paths, compared with a reference equality",
    "level_text": "Every pair of provenance paths is exercised for every listed content pair through the real parser / folder / interpreter (constant and run-time operands) and through the host API; exhaustive over the listed contents x paths, nothing beyond.",
    "level_note": "contents and paths are the listed finite sets; deeper nestings only in the thorough tier",
    "exhaustive": True,
}

PROPS["C14"] = {
    "budget": {"quick": 50, "thorough": 480},
    "rule": "all ordered pairs of the 19 binary operators of levels 4-13 (** * / % + - << >> & ^ | == != < <= > >= && ||) as chains `a op1 b op2 c` under all 8 int/bool operand typings x 3 operand value sets, "
            "all 6859 chains of three operators (6 operand typings, 1 random operand draw in quick, 8 in thorough), each written with and without spaces, with constant and with hidden (run-time) operands: the unparenthesised text must evaluate (value, "
            "error kind or rejection) like the full parenthesisation the documented 14-level table prescribes, evaluated by the harness's own precedence-climbing evaluator and through the real parser on the parenthesised text; "
            "a case counts as discriminating only if another grouping (all-left or all-right) gives a different outcome or is ill-typed. Plus 80 fixed templates for postfix vs prefix, prefix vs iterator level vs **, "
            "iterator-level associativity, `? type`, right-associative assignments (all 12), and maximal-munch spellings. distinct_nontrivial = distinct expression texts. Added after seeded changes: relational templates (the unparenthesised text must behave exactly like its documented grouping, rejection included): every assignment operator x every binary operator topping its right-hand side (plain and chained); prefix and iterator-level operators against both postfix levels; a level-1 postfix form directly after a level-3 postfix operator; float chains over + - * / ** on triples where rounding / overflow makes the grouping visible, every operand independently literal or hidden; partly constant int / string / array chains; the alternative grouping and the bare chain compared inside one flat expression.",
    "assumptions": COMMON_ASSUME + ["the table is the one in docs/operators.md, encoded in c14.rs"],
    "floors": {"quick": {"discriminating-cases": 6250, "shape:operator_chains_discriminated": 3000, "templates": 75},
               "thorough": {"discriminating-cases": 12500, "shape:operator_chains_discriminated": 3000, "templates": 75}},
    "technique": "runtime metamorphic value monitor: unparenthesised vs table-prescribed parenthesisation, with an independent precedence-climbing evaluator",
    "level_text": "Every ordered operator pair (and in thorough every triple) is driven through the real parser with operand values that make different groupings observable; exhaustive over operator pairs/triples for the listed operand sets.",
    "level_note": "operand values are a fixed small set; assignment, prefix, postfix and iterator levels are covered by fixed templates, not by the generic chains",
    "exhaustive": True,
}

PROPS["C05"] = {
    "budget": {"quick": 50, "thorough": 540},
    "rule": "(programs) 20 hand-written union / struct / module programs plus generated programs (profiles unions, modules, mixed; literal and hidden constants) are each parsed and run 8 (quick) / 32 (thorough) times in one process - every "
            "HashSet / HashMap instance inside gets fresh hash keys - and again in 3 / 8 freshly started processes; accepted-or-not, the canonicalised static type (sorted union members / struct fields), the canonicalised value or the error variant must be identical. "
            "(types) pairs of types (depth-1 universe and unions of >= 3 generated members of depth <= 3) are built 8 times each through constructors and through parsing in permuted member order, and 23 public Type API answers "
            "(==, matches both ways, |, conjoin, index_result, params, return_type, element_type, mut_element_type, tuple_len, min_tuple_len, iter_element, tuple_element_at, field_type, has_field, flatten_tuple, is_*) must be identical across builds; "
            "separately built copies must be == and mutually matching. distinct_nontrivial = distinct program texts and type pairs. Added after seeded changes: unions of API-shaped members (iterator / callable / indexable / cell / tuple / struct shapes with `any` and concrete types; all-tuple unions of different lengths) in the type-API repetition family; an imported file rewritten 40 times (same path, same length) between parses in one process; 18 probe programs judged before and after each of 34 unrelated programs that fail in every phase (failing imports, syntax / type errors, failing constants, every run-time error, errors inside iterator helpers), all on one thread.",
    "assumptions": COMMON_ASSUME + ["hash orders explored are whatever the runtime's random keys produce in the repetitions, not all permutations; evidence counts how many programs / types were actually seen in more than one print order"],
    "floors": {"quick": {"programs": 1250, "cross-process-comparisons": 2500, "copies-compared": 12500, "programs-with-several-print-orders-of-their-type": 50},
               "thorough": {"programs": 2500, "cross-process-comparisons": 5000, "copies-compared": 25000, "programs-with-several-print-orders-of-their-type": 100}},
    "technique": "runtime repetition monitor: K in-process repetitions (fresh hash keys) and P separate processes per program; K rebuilds per type pair over the whole public Type API",
    "level_text": "Each program / type pair is observed under several independently seeded hash orders in one process and across processes; any difference in acceptance, canonical type, value, error variant or API answer is a violation. Exploration over hash seeds and generated programs.",
    "level_note": "cannot enumerate hash orders; power is shown by the number of cases seen in several print orders",
    "exhaustive": False,
}

PROPS["C17"] = {
    "budget": {"quick": 50, "thorough": 540},
    "rule": "(REPL vs batch) generated top-level statement sequences of 2-6 statements (declarations, re-declarations, cells, closures, functions calling earlier functions, destructuring; literal or hidden constants): every prefix is run as one program, "
            "and the sequence is fed to one interpreter (parse against it, exec_unscoped) under every split into REPL inputs (all 2^(n-1)); wherever both routes complete, the last result and the values of all top-level variables "
            "(one canonical tuple, so aliasing between variables counts) must agree for every prefix; acceptance differences are recorded, not flagged. (exec) programs parsed against an interpreter that was set up by earlier statements: "
            "exec() must leave every known name bound to the same cell / function / value; programs parsed against a bare interpreter are executed twice: equal results and no cell shared between the two results. "
            "(host calls) 19 hand-written functions x 120 argument vectors each (well-typed, extra / missing argument, one ill-typed argument; the same contents generated twice so each route gets its own cells) and every function a generated history yields: "
            "create_call must accept exactly when the in-language call of the same values is accepted, and (fixed functions) return the same value or error. distinct_nontrivial = distinct histories / programs. Added after seeded changes: 18 hand-written histories (one site evaluated several times, helper-closure names, re-bound names, state created by a run) under every split, each also executed three times as one parsed program; host functions with structured-union and no parameters; the host call run unscoped in a session preloaded with every identifier of the function text.",
    "assumptions": COMMON_ASSUME + ["the set of top-level names of a history comes from the generator (the interpreter has no enumeration API)", "results of generated (possibly stateful) functions are not compared between the two call routes, only acceptance"],
    "floors": {"quick": {"histories": 750, "prefixes-compared": 25000, "splits": 7500, "exec:repeatability-judged": 375, "host-call:both-accept": 750, "host-call:both-reject": 500},
               "thorough": {"histories": 1500, "prefixes-compared": 50000, "splits": 15000, "exec:repeatability-judged": 750, "host-call:both-accept": 1500, "host-call:both-reject": 1000}},
    "technique": "runtime history monitor: incremental vs batch execution under every split, interpreter state before/after exec, host vs in-language calls",
    "level_text": "Thousands of generated statement histories are executed along both routes under every split; exec isolation and repeatability are observed on the interpreter's state and on cell identity; host calls are compared with in-language calls on well- and ill-typed argument vectors. Exploration; exhaustive over splits for n <= 6.",
    "level_note": "histories are those the generator's repl profile emits (<= 6 statements)",
    "exhaustive": False,
}

PROPS["C18"] = {
    "budget": {"quick": 50, "thorough": 420},
    "rule": "every function and constant reachable by walking the `std` struct at run time (so a newly exported function is covered without touching the harness; 86 functions, 4 constants on the pinned tree). Per function: arguments from the boundary "
            "product of its declared parameter types (extreme ints, NaN / +-inf / +-0 / subnormals, 36 strings incl. empty, multi-byte, NUL, numeric look-alikes, 14 byte arrays incl. non-byte values and ill-formed UTF-8, iterators that end immediately or never) plus random values, "
            "called through create_call and - when the arguments are printable - as SimpleSL text (results must agree). Oracle: no panic, no runtime error, the result belongs to the declared result type (contents and tag), constants belong to their declared types; "
            "independent expectations for len, bit counts, byte/bit reversal, integer logs, float classification, to_bits/from_bits, to_float/to_int, parse_int, split / replace / contains / starts_with / ends_with / chars / bytes / str_from_utf8 / str_from_utf8_lossy / trim* / to_lowercase / to_uppercase (the host language's Unicode-aware equivalents), parse_float, to_string. Float rounding and transcendental functions are compared with the host's f64 methods as a note in the evidence only (counter advisory-float-math-doc-mismatch), because the property requires only their signature. "
            "57 file-system scenarios in a scratch directory (missing path, directory-instead-of-file, file-instead-of-directory component, non-empty directory, existing target, name too long, embedded NUL, /proc) with required success / struct{error_code, msg}, the observable effect of a success, and the whole scratch tree unchanged by a call that reports failure; "
            "7 stdin states for cgetline in child processes (empty, one line, no newline, CRLF, Unicode, invalid UTF-8, NUL). distinct_nontrivial = distinct calls (function + argument values). Added after seeded changes: procfs / sysfs files read and copied (their reported size is not what a read delivers).",
    "assumptions": COMMON_ASSUME + ["runs as root: permission bits cannot make a path unwritable, so 'unwritable' is exercised through /proc and file-instead-of-directory components only",
                                    "float rounding / transcendental functions are judged only for signature and absence of panics; value differences from the host's f64 methods are notes, not verdicts"],
    "floors": {"quick": {"calls": 3750, "calls-with-independent-expectation": 1500, "shape:functions_called": 85, "fs-fault-states": 57, "cgetline-stdin-states": 7, "constants-judged": 4, "text-route-calls": 750},
               "thorough": {"calls": 7500, "calls-with-independent-expectation": 3000, "shape:functions_called": 85, "fs-fault-states": 57, "cgetline-stdin-states": 7, "constants-judged": 4, "text-route-calls": 1500}},
    "level": "fault_enumeration",
    "technique": "runtime signature monitor over run-time discovered std functions with boundary/random arguments, independent reference results, enumerated file-system and stdin fault states",
    "level_text": "Every exported function is called with the boundary product of its declared parameter types and random values; results are checked against the declared type and, for the documented pure helpers, an independent implementation; file-system and stdin fault states are enumerated explicitly.",
    "level_note": "fault states are the enumerated ones (no injected I/O errors below the syscall level); permission faults are not reachable as root",
    "exhaustive": False,
}

def _c16_miri(prop, tier, seed, rundir, merged, env, root, log):
    """Miri over miniature C16 workloads: several schedule seeds per workload, workloads in parallel."""
    import os, subprocess, time
    mdir = os.path.join(root, "miri")
    menv = dict(env, CARGO_TARGET_DIR=os.path.join(root, "target", "miri"))
    workloads = (["cell-add", "readers", "helpers", "failing", "cross", "mixed"] if tier == "quick"
                 else ["cell-add", "cell-mul", "cell-or", "cell-pow", "cell-assign", "helpers", "code", "readers", "readers-struct", "failing", "run-state", "cross", "mixed", "sites"])
    nseeds = 2 if tier == "quick" else 16
    lo = (seed * 97) % 100000
    base = ["cargo", "+nightly", "miri", "run", "-q", "--"]
    t0 = time.time()
    # build once (and learn whether Miri works at all here)
    b = subprocess.run(base + ["noop"], cwd=mdir, env=dict(menv, MIRIFLAGS="-Zmiri-disable-isolation"), stdout=subprocess.PIPE, stderr=subprocess.STDOUT, text=True)
    info = {"workloads": {}, "build_s": round(time.time() - t0, 1)}
    viol = []
    if b.returncode != 0 or "OK noop" not in b.stdout:
        info["unavailable"] = b.stdout[-600:]
        merged["inconclusive"]["miri-unavailable"] = 1
        merged["counters"]["miri_runs_ok"] = 0
        return {"miri": info}
    procs = []
    for w in workloads:
        flags = f"-Zmiri-disable-isolation -Zmiri-ignore-leaks -Zmiri-many-seeds={lo}..{lo + nseeds}"
        procs.append((w, subprocess.Popen(base + [w], cwd=mdir, env=dict(menv, MIRIFLAGS=flags), stdout=subprocess.PIPE, stderr=subprocess.PIPE, text=True)))
    ok_total = 0
    limit = 900 if tier == "quick" else 7200
    for w, p in procs:
        try:
            out, err = p.communicate(timeout=max(30, limit - (time.time() - t0)))
        except subprocess.TimeoutExpired:
            p.kill(); out, err = p.communicate()
            merged["inconclusive"][f"miri-timeout:{w}"] = 1
            info["workloads"][w] = {"status": "timeout"}
            continue
        oks = out.count("OK ")
        ok_total += oks
        info["workloads"][w] = {"seeds": f"{lo}..{lo + nseeds}", "ok": oks, "rc": p.returncode}
        if p.returncode != 0:
            low = err.lower()
            cls = ("data-race" if "data race" in low else "deadlock" if "deadlock" in low else "undefined-behavior" if "undefined behavior" in low
                   else "assertion" if "panicked" in low else None)
            if cls:
                idx = max(low.find("error:"), 0)
                viol.append({"key": f"c16:miri:{w}:{cls}", "what": f"Miri workload {w} (seeds {lo}..{lo + nseeds}): {cls}: {err[idx:idx + 1200]}", "kind": "c16-miri", "payload": w})
            else:
                merged["inconclusive"][f"miri-failed-without-verdict:{w}"] = 1
                info["workloads"][w]["stderr_tail"] = err[-400:]
    merged["counters"]["miri_runs_ok"] = ok_total
    info["wall_s"] = round(time.time() - t0, 1)
    merged["evaluations"] += ok_total
    return {"miri": info, "violations": viol, "distinct_extra": ok_total}


def _c16_tsan(prop, tier, seed, rundir, merged, env, root, log):
    """ThreadSanitizer build (nightly, -Zbuild-std so that std's locks and atomics are instrumented too) of the same harness:
    the native C16 scenarios are run again as child processes of the instrumented binary; any TSan report is a violation."""
    import os, subprocess, time, re, random
    hdir = os.path.join(root, "harness")
    tdir = os.path.join(root, "target", "tsan")
    t0 = time.time()
    benv = dict(env, CARGO_TARGET_DIR=tdir, RUSTFLAGS="-Zsanitizer=thread")
    b = subprocess.run(["cargo", "+nightly", "build", "-Zbuild-std", "--target", "x86_64-unknown-linux-gnu", "--release", "--offline"],
                       cwd=hdir, env=benv, stdout=subprocess.PIPE, stderr=subprocess.STDOUT, text=True)
    exe = os.path.join(tdir, "x86_64-unknown-linux-gnu", "release", "vmon")
    info = {"build_s": round(time.time() - t0, 1), "runs": 0, "ok": 0, "scenarios": {}}
    if b.returncode != 0 or not os.path.exists(exe):
        info["unavailable"] = b.stdout[-600:]
        merged["inconclusive"]["tsan-unavailable"] = 1
        merged["counters"]["tsan_runs_ok"] = 0
        return {"tsan": info}
    rnd = random.Random(seed * 7919 + (1 if tier == "quick" else 2))
    scen = ([f"cell{k}" for k in range(12)] + ["isolated", "code", "failing", "iterator", "appends", "reads", "printing", "sites", "sites", "mixed", "mixed", "polling", "polling", "files", "stdout"] + [f"readers{k}" for k in range(4)] + [f"cross{k}" for k in range(12)])
    specs = []
    reps = 2 if tier == "quick" else 24
    for r in range(reps):
        for s in scen:
            size = rnd.choice([1, 2, 3]) if s == "isolated" else rnd.choice([5, 20, 60]) if s in ("code",) or s.startswith("readers") else rnd.choice([10, 50, 200])
            specs.append(f"{s}:{rnd.choice([2, 3, 4, 8])}:{size}:{rnd.choice([0, 0, 1, 3])}")
    tenv = dict(env, TSAN_OPTIONS="halt_on_error=1 exitcode=66 history_size=4")
    viol, running, todo = [], [], list(specs)
    limit = time.time() + (600 if tier == "quick" else 3600)

    def finish(spec, p):
        try:
            out, err = p.communicate(timeout=max(5, limit - time.time()))
        except subprocess.TimeoutExpired:
            p.kill(); p.communicate()
            merged["inconclusive"]["tsan-run-timeout"] = merged["inconclusive"].get("tsan-run-timeout", 0) + 1
            return
        name = spec.split(":")[0].rstrip("0123456789")
        info["runs"] += 1
        sc = info["scenarios"].setdefault(name, {"runs": 0, "ok": 0})
        sc["runs"] += 1
        m = re.search(r"WARNING: ThreadSanitizer: ([^(\n]+)", err)
        if m or p.returncode == 66:
            kind = (m.group(1).strip() if m else "report").replace(" ", "-")
            frame = re.search(r"#\d+ (simplesl::[^ ]+)", err)
            idx = err.find("WARNING: ThreadSanitizer")
            viol.append({"key": f"c16:tsan:{kind}:{name}", "what": f"ThreadSanitizer report in scenario {spec} (first repository frame: {frame.group(1) if frame else '?'}): {err[max(idx, 0):max(idx, 0) + 1500]}", "kind": "c16", "payload": spec})
        elif "VIOLATION " in out:
            why = out[out.find("VIOLATION ") + 10:].strip()[:600]
            cls = "panic" if ("panicked" in why or "poisoned" in why) else "atomicity" if ("atomic" in why or "lost" in why) else "result"
            viol.append({"key": f"c16:{cls}:{name}", "what": f"scenario {spec} (ThreadSanitizer build): {why}", "kind": "c16", "payload": spec})
        elif "OK " in out:
            info["ok"] += 1; sc["ok"] += 1
        else:
            k = "tsan-run-no-verdict"
            merged["inconclusive"][k] = merged["inconclusive"].get(k, 0) + 1
            info.setdefault("no_verdict_tail", (err or out)[-300:])

    while todo or running:
        while todo and len(running) < 6:
            spec = todo.pop(0)
            running.append((spec, subprocess.Popen([exe, "C16", "--out", "/dev/null", "--opt", f"child={spec}"], cwd=rundir, env=tenv,
                                                   stdin=subprocess.DEVNULL, stdout=subprocess.PIPE, stderr=subprocess.PIPE, text=True)))
        spec, p = running.pop(0)
        finish(spec, p)
    merged["counters"]["tsan_runs_ok"] = info["ok"]
    merged["evaluations"] += info["ok"]
    info["wall_s"] = round(time.time() - t0, 1)
    return {"tsan": info, "violations": viol, "distinct_extra": info["ok"]}


def _c16_post(**kw):
    a = _c16_miri(**kw) or {}
    b = _c16_tsan(**kw) or {}
    out = dict(a); out.update({k: v for k, v in b.items() if k not in ("violations", "distinct_extra")})
    out["violations"] = a.get("violations", []) + b.get("violations", [])
    out["distinct_extra"] = a.get("distinct_extra", 0) + b.get("distinct_extra", 0)
    return out


PROPS["C16"] = {
    "post": _c16_post,
    "budget": {"quick": 60, "thorough": 600},
    "shards": {"quick": 4, "thorough": 4},
    "rule": "short concurrent runs in child processes (so a stall can be inspected and killed): T in {2,3,4,8,16} threads released together by a barrier, with optional yields injected between interpreter steps (never inside a cell's critical section). "
            "Scenarios: (cell) one host-built `mut int` shared by all threads, each applying one of the 12 assignment operators N times through the same parsed function and returning the values its assignments yielded - operands are chosen so that updates commute and "
            "each update is a bijection (+= 1, -= 1, *= 3, ^= unique bit, |= own bit, &= clear own bit, <<= 1, >>= 1, /= 3 on 3^39, **= 3 on odd values, %= m, = unique value), so atomicity <=> final content is the closed form and the multiset of yielded values is the sequential chain; "
            "(isolated) 15 functions using every lazily initialised helper (map, filter, iterate, type filter, reducers, modules, stdlib) first touched concurrently, results compared with the sequential run; (code) one parsed Code executed from all threads; "
            "(readers) half the threads print a cell that contains itself (through an array, a tuple, a struct or another cell) and a cell nested in a cell while the others assign; (failing) threads increment / apply failing compound assignments (/= 0, %= 0, <<= 64, >>= -1, **= -1) / read one cell: every failure reports its documented error and leaves the cell as it was; (iterator) one `a~` value pulled from all threads: afterwards its cursor stands at the number of pulls; (printing) threads print values that contain a cell while others update it: every text shows a content the cell held; the isolated set also holds functions whose run creates state (default cell of an exhausted `? mut int`, closure counters, iterator positions). A run that makes no progress is inspected with `gdb thread apply all bt`: threads parked in RwLock acquisition = deadlock (violation), otherwise inconclusive. "
            "Plus Miri (cargo +nightly miri run, several schedule seeds) on miniature versions of the same scenarios: data races, deadlocks, UB in the dependency code actually executed. Plus a ThreadSanitizer build of the same harness (nightly, -Zsanitizer=thread -Zbuild-std so std's locks and atomics are instrumented): every scenario is run again as a child of the instrumented binary (86 runs quick, 1032 thorough); any ThreadSanitizer report (data race, lock-order inversion) is a violation, and the scenario's own history oracle runs too. distinct_nontrivial = distinct (scenario, threads, size, yield, run) executions.",
    "assumptions": COMMON_ASSUME + ["schedules explored are those the OS scheduler, the injected yields and Miri's seeds produce - a sample, not all interleavings",
                                    "a stall is decided by the thread dump (all blocked in lock acquisition), never by elapsed time alone"],
    "floors": {"quick": {"runs": 50, "operations": 12500, "shape:assignment_operators": 12, "shape:scenarios": 20, "miri_runs_ok": 4, "tsan_runs_ok": 45},
               "thorough": {"runs": 100, "operations": 25000, "shape:assignment_operators": 12, "shape:scenarios": 20, "miri_runs_ok": 4, "tsan_runs_ok": 450}},
    "technique": "runtime schedule-stress monitor with per-operation unique-value histories on shared cells, gdb thread dumps for stalls, plus Miri (data-race / deadlock detector) on miniature workloads and ThreadSanitizer (build-std) on the full scenarios",
    "level_text": "Hundreds (quick) to tens of thousands (thorough) of short multi-threaded executions over shared Code, Function and cell values with history checks that are exact for atomicity, plus Miri runs over several schedule seeds. A sample of schedules, not an exhaustive exploration.",
    "level_note": "cannot enumerate interleavings; Miri covers only miniature workloads (2-3 threads, a few operations); ThreadSanitizer sees only races between accesses that actually happen in a run",
    "exhaustive": False,
}

# properties deliberately not claimed (reason each); anything else missing from PROPS is simply not built yet
NOT_APPLICABLE = {}


# floors for the families added in rounds 7-9: their sizes do not depend on the time budget, so a family that silently stops
# running (a refused helper, a renamed counter) makes the check inconclusive instead of leaving a quiet gap
_EXTRA_FLOORS = {
    "C01": {"optyping:typed-filter:accepted": 3500, "optyping:match-coverage:accepted": 75, "optyping:loop-value:accepted": 50, "optyping:union-call:accepted": 300, "unreachable-code:accepted": 700},
    "C02": {"optyping:typed-filter:accepted": 3500, "optyping:match-coverage:accepted": 75, "optyping:union-call:accepted": 300, "unreachable-code:accepted": 700, "stdlib-sweep-calls": 10000},
    "C03": {"first-use-in-fresh-process:ok": 100, "unreachable-code:accepted": 900, "union-call:accepted": 300, "special-constants:accepted": 12000},
    "C04": {"identity-twin-templates": 24},
    "C05": {"probes-after-unrelated-work": 450, "programs-executed-again": 5000},
    "C06": {"closure-creation-templates": 14, "name-shape-templates": 400},
    "C07": {"order-family-cases": 5000, "scale-cases": 450},
    "C08": {"form_same_operand": 1000, "form_comparison_compound": 100000},
    "C09": {"chain_first_steps": 550, "nested_bound_cases": 650, "long-sequence-cases": 120},
    "C10": {"law:wide-union": 180},
    "C11": {"seqdef-cases": 4400, "typed-filter-judged": 1400, "seqdef-nested-cases": 25},
    "C12": {"order-family-cases": 5000, "match-coverage:accepted": 25, "loop-value-cases": 100},
    "C14": {"twin-grouping-cases": 3000, "float-chain-discriminating-cases": 1100},
    "C15": {"deep-types": 90, "field-name-types": 1000},
    "C16": {"stdout-rows-read": 1000},
    "C17": {"fixed-histories": 20},
    "C18": {"fs-fault-states": 75, "extended-int-pool-calls": 2000},
    "C19": {"scalar-matrix-cases": 1200, "scalar-matrix-table-cases": 1200, "wide-value-cases": 700},
    "C20": {"deep-values": 1000, "print-histories": 1000},
}
for _p, _f in _EXTRA_FLOORS.items():
    for _t in ("quick", "thorough"):
        PROPS[_p]["floors"][_t] = dict(PROPS[_p]["floors"][_t], **_f)
