//! Running generated programs through the real crate and through the reference evaluator,
//! comparing outcomes, shrinking witnesses.
use crate::ast::{Arm, E, Mode, S, print_program};
use crate::real::{self, ErrKind, Outcome, PanicKind};
use crate::refeval::{self, Flow, Machine, V};
use simplesl::variable::{ReturnType, Type, Variable};
use simplesl::{Code, Interpreter, verif};

/// where the first runtime error of a run came from: (instruction kind, operator, source text)
#[derive(Clone, Debug, Default)]
pub struct Origin {
    pub first_error: Option<(String, String, String)>,
    pub kinds: std::collections::BTreeSet<String>,
    pub exec_events: u64,
    pub calls: u64,
}

struct OriginMonitor(std::rc::Rc<std::cell::RefCell<Origin>>);

impl verif::Monitor for OriginMonitor {
    fn on_exec(&mut self, event: &verif::ExecEvent) {
        let mut o = self.0.borrow_mut();
        o.exec_events += 1;
        if o.kinds.len() < 64 {
            o.kinds.insert(if event.detail.is_empty() { event.kind.to_string() } else { format!("{}:{}", event.kind, event.detail) });
        }
        if o.first_error.is_none() {
            if let verif::Outcome::Error(_) = event.outcome {
                o.first_error = Some((event.kind.to_string(), event.detail.clone(), event.src.to_string()));
            }
        }
    }
    fn on_call(&mut self, _event: &verif::CallEvent) {
        self.0.borrow_mut().calls += 1;
    }
}

pub struct RealRun {
    /// the interpreter the program ran in (unscoped), still holding its top-level variables
    pub interp: Option<Interpreter<'static>>,
    pub origin: Origin,
    pub outcome: Outcome,
    /// content of the `log` cell after the run (None if the prelude did not get to define it)
    pub log: Option<Vec<i64>>,
    pub static_type: Option<Type>,
    pub steps: u64,
}

pub fn read_log(interp: &Interpreter) -> Option<Vec<i64>> {
    let Variable::Mut(cell) = interp.get_variable("log")? else { return None };
    let content = cell.variable.try_read().ok()?.clone();
    let Variable::Array(a) = content else { return None };
    Some(a.iter().filter_map(|v| v.as_int().copied()).collect())
}

/// parse with stdlib and run unscoped in that interpreter (so the log cell stays reachable after an error)
pub fn run_real(text: &str, fuel: u64) -> RealRun {
    let mut interp: Interpreter<'static> = Interpreter::with_stdlib();
    let parsed = real::guarded(|| Code::parse(&interp, text));
    let code = match parsed {
        Err(p) => return RealRun { interp: None, origin: Origin::default(), outcome: Outcome::Panic(p), log: None, static_type: None, steps: 0 },
        Ok(Err(e)) => {
            return RealRun { interp: None, origin: Origin::default(), outcome: Outcome::Rejected(real::error_variant(&e), real::parse_err_kind(&e)), log: None, static_type: None, steps: 0 };
        }
        Ok(Ok(c)) => c,
    };
    let static_type = real::guarded(|| code.return_type()).ok();
    let before = verif::ticks();
    let origin = std::rc::Rc::new(std::cell::RefCell::new(Origin::default()));
    let monitor = OriginMonitor(origin.clone());
    let r = real::guarded(|| {
        verif::set_want_types(false);
        verif::install(Box::new(monitor));
        real::arm(fuel, real::DEFAULT_DEPTH);
        code.exec_unscoped(&mut interp)
    });
    verif::uninstall();
    verif::set_want_types(true);
    verif::set_fuel(u64::MAX);
    let origin = origin.borrow().clone();
    let steps = verif::ticks().wrapping_sub(before);
    let outcome = match r {
        Err(p) => Outcome::Panic(p),
        Ok(Ok(v)) => Outcome::Value(v),
        Ok(Err(e)) => Outcome::ExecErr(real::exec_err_kind(&e), format!("{e:?}")),
    };
    let log = read_log(&interp);
    RealRun { interp: Some(interp), origin, outcome, log, static_type, steps }
}

pub enum RefOutcome {
    Value(V),
    Err(ErrKind),
    GiveUp(String),
}

pub struct RefRun {
    pub outcome: RefOutcome,
    pub log: Vec<i64>,
    pub lookups: u64,
    pub calls: u64,
    pub pulls: u64,
    /// the program held the payload of an exhausted iterator step in its hands (manual pull past the end)
    pub unspec_manual: bool,
    /// top-level bindings when the run ended (latest binding of each name)
    pub final_env: Vec<(String, V)>,
}

pub fn run_ref(body: &[S], fuel: u64) -> RefRun {
    let mut m = Machine::new(fuel);
    let (r, env) = m.program(body);
    let final_env = refeval::env_bindings(&env);
    let outcome = match r {
        Ok(v) => RefOutcome::Value(v),
        Err(Flow::Err(k)) => RefOutcome::Err(k),
        Err(Flow::GiveUp(w)) => RefOutcome::GiveUp(w),
        Err(Flow::Break) | Err(Flow::Continue) => RefOutcome::GiveUp("break/continue at top level".into()),
        Err(Flow::Return(_)) => RefOutcome::GiveUp("return at top level".into()),
    };
    RefRun { outcome, log: m.log.iter().map(|k| *k as i64).collect(), lookups: m.lookups, calls: m.calls, pulls: m.pulls, unspec_manual: m.unspec_manual > 0, final_env }
}

/// verdict of comparing one real run with the reference
#[derive(Debug, Clone, PartialEq)]
pub enum Diff {
    Same,
    /// not judged: reference gave up, fuel, rejected, resource
    Skip(String),
    /// (class, detail)
    Differ(String, String),
    /// the real run panicked (site, message)
    Panic(String, String),
}

pub struct Judge {
    pub value: bool,
    pub log: bool,
}

pub fn compare_runs(real: &RealRun, reference: &RefRun, judge: &Judge) -> Diff {
    let r = match &real.outcome {
        Outcome::Rejected(v, _) => return Diff::Skip(format!("rejected:{v}")),
        Outcome::Panic(p) => {
            return match p.kind {
                PanicKind::Panic => Diff::Panic(p.site(), p.short_msg()),
                k => Diff::Skip(format!("inconclusive:{k:?}")),
            };
        }
        other => other,
    };
    let expected = match &reference.outcome {
        RefOutcome::GiveUp(w) => return Diff::Skip(format!("reference:{w}")),
        other => other,
    };
    if judge.log {
        match &real.log {
            Some(l) if *l == reference.log => {}
            Some(l) => return Diff::Differ("log".into(), format!("effect log {l:?}, expected {:?}", reference.log)),
            None => return Diff::Skip("log-unreadable".into()),
        }
    }
    match (expected, r) {
        (RefOutcome::Value(v), Outcome::Value(rv)) => {
            if !judge.value {
                return Diff::Same;
            }
            match refeval::compare(v, rv) {
                Ok(()) => Diff::Same,
                // the program took the payload of an exhausted iterator step into its own hands: no value of the
                // payload's static type exists (known finding of C01), whatever is computed from it is not judged
                Err(_) if reference.unspec_manual => Diff::Skip("reference:uses an unspecified exhausted-iterator payload".into()),
                Err(why) => Diff::Differ("value".into(), why),
            }
        }
        (RefOutcome::Err(k), Outcome::ExecErr(Some(g), _)) => {
            if k == g && judge.value {
                // the failing operation must leave the state as it was: every top-level cell still holds what the
                // reference heap holds at the moment of the failure
                if let Some(interp) = &real.interp {
                    for (name, v) in &reference.final_env {
                        if !matches!(v, V::Cell(_)) {
                            continue;
                        }
                        if let Some(rv) = interp.get_variable(name) {
                            if let Err(why) = refeval::compare(v, rv) {
                                if reference.unspec_manual {
                                    return Diff::Skip("reference:uses an unspecified exhausted-iterator payload".into());
                                }
                                return Diff::Differ("state-after-error".into(), format!("after the run failed with {}, cell `{name}`: {why}", k.name()));
                            }
                        }
                    }
                }
                Diff::Same
            } else if k == g || !judge.value {
                Diff::Same
            } else {
                Diff::Differ("error-kind".into(), format!("failed with {} where {} is documented", g.name(), k.name()))
            }
        }
        (RefOutcome::Value(v), Outcome::ExecErr(k, n)) => {
            if !judge.value {
                return Diff::Same;
            }
            Diff::Differ("error-instead-of-value".into(), format!("failed with {} where the value {} is documented", k.map_or(n.as_str(), |k| k.name()), refeval::canon_v(v)))
        }
        (RefOutcome::Err(k), Outcome::Value(rv)) => {
            if !judge.value {
                return Diff::Same;
            }
            Diff::Differ("value-instead-of-error".into(), format!("yielded {} where error {} is documented", crate::oracle::canon(rv), k.name()))
        }
        (_, Outcome::ExecErr(None, n)) => Diff::Differ("undocumented-error".into(), n.clone()),
        _ => Diff::Skip("unreachable".into()),
    }
}

pub fn program_text(body: &[S], mode: Mode) -> String {
    print_program(body, mode)
}

// ---------------------------------------------------------------------------------------------
// shrinking

fn sub_stms(s: &S) -> Vec<S> {
    // candidate replacements of a statement by something smaller
    let mut out = Vec::new();
    match s {
        S::Block(b) => {
            for i in 0..b.len() {
                let mut c = b.clone();
                c.remove(i);
                out.push(S::Block(c));
            }
            if b.len() == 1 {
                out.push(b[0].clone());
            }
        }
        S::If(c, t, e) => {
            out.push((**t).clone());
            if let Some(e) = e {
                out.push((**e).clone());
                out.push(S::If(c.clone(), t.clone(), None));
            }
        }
        S::IfSet(_, _, _, _, Some(e)) => out.push((**e).clone()),
        S::Loop(b) | S::While(_, b) | S::For(_, _, b) | S::WhileSet(_, _, _, b) => out.push((**b).clone()),
        S::Let(n, rhs) => {
            if let S::Expr(_) = **rhs {
            } else {
                for r in sub_stms(rhs) {
                    if !matches!(r, S::Let(..) | S::FnDecl(..) | S::Destruct(..)) {
                        out.push(S::Let(n.clone(), Box::new(r)));
                    }
                }
            }
        }
        S::Match(e, arms) => {
            for i in 0..arms.len() {
                if arms.len() > 1 && !matches!(arms[i], Arm::Other(_)) {
                    let mut a = arms.clone();
                    a.remove(i);
                    out.push(S::Match(e.clone(), a));
                }
            }
        }
        S::FnDecl(n, p, r, body) => {
            for i in 0..body.len().saturating_sub(1) {
                let mut b = body.clone();
                b.remove(i);
                out.push(S::FnDecl(n.clone(), p.clone(), r.clone(), b));
            }
        }
        _ => {}
    }
    out
}

fn sub_exprs(e: &E) -> Vec<E> {
    let mut out = Vec::new();
    let b = |x: &E| Box::new(x.clone());
    match e {
        E::Tick(_, _, a) => out.push((**a).clone()),
        E::Bin(op, a, c) => {
            out.push((**a).clone());
            out.push((**c).clone());
            for r in sub_exprs(a) {
                out.push(E::Bin(op, Box::new(r), b(c)));
            }
            for r in sub_exprs(c) {
                out.push(E::Bin(op, b(a), Box::new(r)));
            }
        }
        E::Un(op, a) => {
            out.push((**a).clone());
            for r in sub_exprs(a) {
                out.push(E::Un(op, Box::new(r)));
            }
        }
        E::Post(op, a) => {
            for r in sub_exprs(a) {
                out.push(E::Post(op, Box::new(r)));
            }
        }
        E::Arr(items) | E::Tup(items) => {
            let is_arr = matches!(e, E::Arr(_));
            for i in 0..items.len() {
                if is_arr || items.len() > 2 {
                    let mut c = items.clone();
                    c.remove(i);
                    out.push(if is_arr { E::Arr(c) } else { E::Tup(c) });
                }
                for r in sub_exprs(&items[i]) {
                    let mut c = items.clone();
                    c[i] = r;
                    out.push(if is_arr { E::Arr(c) } else { E::Tup(c) });
                }
            }
        }
        E::Call(f, args) => {
            for i in 0..args.len() {
                for r in sub_exprs(&args[i]) {
                    let mut c = args.clone();
                    c[i] = r;
                    out.push(E::Call(f.clone(), c));
                }
            }
            for r in sub_exprs(f) {
                out.push(E::Call(Box::new(r), args.clone()));
            }
        }
        E::Index(a, i) => {
            for r in sub_exprs(a) {
                out.push(E::Index(Box::new(r), i.clone()));
            }
            for r in sub_exprs(i) {
                out.push(E::Index(a.clone(), Box::new(r)));
            }
        }
        E::Slice(a, s, e2, st, two) => {
            out.push((**a).clone());
            for r in sub_exprs(a) {
                out.push(E::Slice(Box::new(r), s.clone(), e2.clone(), st.clone(), *two));
            }
            if s.is_some() {
                out.push(E::Slice(a.clone(), None, e2.clone(), st.clone(), *two));
            }
            if e2.is_some() {
                out.push(E::Slice(a.clone(), s.clone(), None, st.clone(), *two));
            }
            if st.is_some() {
                out.push(E::Slice(a.clone(), s.clone(), e2.clone(), None, *two));
            }
        }
        E::TupAcc(a, k) => {
            for r in sub_exprs(a) {
                out.push(E::TupAcc(Box::new(r), *k));
            }
        }
        E::Lambda(p, r, body) => {
            for i in 0..body.len().saturating_sub(1) {
                let mut c = body.clone();
                c.remove(i);
                out.push(E::Lambda(p.clone(), r.clone(), c));
            }
            for i in 0..body.len() {
                for rep in shrink_stm(&body[i]) {
                    let mut c = body.clone();
                    c[i] = rep;
                    out.push(E::Lambda(p.clone(), r.clone(), c));
                }
            }
        }
        E::Reduce(it, init, f) => {
            for r in sub_exprs(it) {
                out.push(E::Reduce(Box::new(r), init.clone(), f.clone()));
            }
            for r in sub_exprs(init) {
                out.push(E::Reduce(it.clone(), Box::new(r), f.clone()));
            }
        }
        E::Mut(t, a) => {
            for r in sub_exprs(a) {
                out.push(E::Mut(t.clone(), Box::new(r)));
            }
        }
        E::Rep(v, n) => {
            for r in sub_exprs(v) {
                out.push(E::Rep(Box::new(r), n.clone()));
            }
            for r in sub_exprs(n) {
                out.push(E::Rep(v.clone(), Box::new(r)));
            }
        }
        E::Len(a) => {
            for r in sub_exprs(a) {
                out.push(E::Len(Box::new(r)));
            }
        }
        _ => {}
    }
    out
}

/// all one-step reductions of a statement
fn shrink_stm(s: &S) -> Vec<S> {
    let mut out = sub_stms(s);
    let mut with_expr = |e: &E, rebuild: &dyn Fn(E) -> S| {
        for r in sub_exprs(e) {
            out.push(rebuild(r));
        }
    };
    match s {
        S::Expr(e) => with_expr(e, &|r| S::Expr(r)),
        S::Let(n, rhs) => {
            if let S::Expr(e) = &**rhs {
                let n = n.clone();
                with_expr(e, &move |r| S::Let(n.clone(), Box::new(S::Expr(r))));
            }
        }
        S::If(c, t, e) => {
            let (t2, e2) = (t.clone(), e.clone());
            with_expr(c, &move |r| S::If(r, t2.clone(), e2.clone()));
            for r in shrink_stm(t) {
                out.push(S::If(c.clone(), Box::new(r), e.clone()));
            }
            if let Some(e) = e {
                for r in shrink_stm(e) {
                    out.push(S::If(c.clone(), t.clone(), Some(Box::new(r))));
                }
            }
        }
        S::Block(b) => {
            for i in 0..b.len() {
                for r in shrink_stm(&b[i]) {
                    let mut c = b.clone();
                    c[i] = r;
                    out.push(S::Block(c));
                }
            }
        }
        S::Return(Some(inner)) => {
            for r in shrink_stm(inner) {
                if !matches!(r, S::Let(..) | S::FnDecl(..) | S::Destruct(..)) {
                    out.push(S::Return(Some(Box::new(r))));
                }
            }
        }
        S::While(c, b) => {
            for r in shrink_stm(b) {
                out.push(S::While(c.clone(), Box::new(r)));
            }
        }
        S::Loop(b) => {
            for r in shrink_stm(b) {
                out.push(S::Loop(Box::new(r)));
            }
        }
        S::For(n, it, b) => {
            let (n2, b2) = (n.clone(), b.clone());
            with_expr(it, &move |r| S::For(n2.clone(), r, b2.clone()));
            for r in shrink_stm(b) {
                out.push(S::For(n.clone(), it.clone(), Box::new(r)));
            }
        }
        S::FnDecl(n, p, rt, body) => {
            for i in 0..body.len() {
                for r in shrink_stm(&body[i]) {
                    let mut c = body.clone();
                    c[i] = r;
                    out.push(S::FnDecl(n.clone(), p.clone(), rt.clone(), c));
                }
            }
        }
        S::Match(e, arms) => {
            let a2 = arms.clone();
            with_expr(e, &move |r| S::Match(r, a2.clone()));
        }
        _ => {}
    }
    out
}

/// greedy shrinking of a program while `still_fails` holds
pub fn shrink(body: &[S], mut still_fails: impl FnMut(&[S]) -> bool, max_attempts: usize) -> Vec<S> {
    let mut cur: Vec<S> = body.to_vec();
    let mut attempts = 0;
    loop {
        let mut improved = false;
        // remove whole statements (never the last one: it is the observed result)
        let mut i = 0;
        while i + 1 < cur.len() {
            if attempts >= max_attempts {
                return cur;
            }
            attempts += 1;
            let mut c = cur.clone();
            c.remove(i);
            if still_fails(&c) {
                cur = c;
                improved = true;
            } else {
                i += 1;
            }
        }
        // shrink inside statements
        'outer: for i in 0..cur.len() {
            for r in shrink_stm(&cur[i]) {
                if attempts >= max_attempts {
                    return cur;
                }
                attempts += 1;
                let mut c = cur.clone();
                c[i] = r;
                if still_fails(&c) {
                    cur = c;
                    improved = true;
                    break 'outer;
                }
            }
        }
        if !improved {
            return cur;
        }
    }
}

/// construct kinds occurring in a program (for signatures of shrunk witnesses)
pub fn constructs(body: &[S]) -> Vec<String> {
    let mut set = std::collections::BTreeSet::new();
    fn walk_e(e: &E, set: &mut std::collections::BTreeSet<String>) {
        match e {
            E::Int(_) | E::Float(_) | E::Str(_) | E::Bool(_) | E::Void | E::Var(_) => {}
            E::Un(op, a) => {
                set.insert(format!("un{op}"));
                walk_e(a, set);
            }
            E::Bin(op, a, b) => {
                set.insert(format!("bin{op}"));
                walk_e(a, set);
                walk_e(b, set);
            }
            E::Reduce(a, b, c) => {
                set.insert("reduce".into());
                walk_e(a, set);
                walk_e(b, set);
                walk_e(c, set);
            }
            E::Post(op, a) => {
                set.insert(format!("post{}", if op.starts_with("$+") { "$+" } else if op.starts_with("$*") { "$*" } else { op }));
                walk_e(a, set);
            }
            E::TypeFilter(a, _) => {
                set.insert("typefilter".into());
                walk_e(a, set);
            }
            E::Call(f, args) => {
                set.insert("call".into());
                walk_e(f, set);
                args.iter().for_each(|a| walk_e(a, set));
            }
            E::Index(a, i) => {
                set.insert("index".into());
                walk_e(a, set);
                walk_e(i, set);
            }
            E::Slice(a, s, e2, st, _) => {
                set.insert("slice".into());
                walk_e(a, set);
                for x in [s, e2, st].into_iter().flatten() {
                    walk_e(x, set);
                }
            }
            E::TupAcc(a, _) => {
                set.insert("tupacc".into());
                walk_e(a, set);
            }
            E::Field(a, _) => {
                set.insert("field".into());
                walk_e(a, set);
            }
            E::Arr(items) => {
                set.insert("array".into());
                items.iter().for_each(|a| walk_e(a, set));
            }
            E::Tup(items) => {
                set.insert("tuple".into());
                items.iter().for_each(|a| walk_e(a, set));
            }
            E::Rep(a, b) => {
                set.insert("repeat".into());
                walk_e(a, set);
                walk_e(b, set);
            }
            E::Struct(fs) => {
                set.insert("struct".into());
                fs.iter().for_each(|(_, a)| walk_e(a, set));
            }
            E::Mut(_, a) => {
                set.insert("mut".into());
                walk_e(a, set);
            }
            E::MutInf(_, a) => {
                set.insert("mut-inferred".into());
                walk_e(a, set);
            }
            E::Lambda(_, _, body) => {
                set.insert("lambda".into());
                body.iter().for_each(|s| walk_s(s, set));
            }
            E::Mod(body) => {
                set.insert("mod".into());
                body.iter().for_each(|s| walk_s(s, set));
            }
            E::Tick(_, _, a) => walk_e(a, set),
            E::Len(a) => {
                set.insert("len".into());
                walk_e(a, set);
            }
        }
    }
    fn walk_s(s: &S, set: &mut std::collections::BTreeSet<String>) {
        match s {
            S::Expr(e) => walk_e(e, set),
            S::Let(_, r) => walk_s(r, set),
            S::Destruct(_, r) => {
                set.insert("destruct".into());
                walk_s(r, set);
            }
            S::FnDecl(_, _, _, body) => {
                set.insert("fndecl".into());
                body.iter().for_each(|s| walk_s(s, set));
            }
            S::Block(b) => {
                set.insert("block".into());
                b.iter().for_each(|s| walk_s(s, set));
            }
            S::If(c, t, e) => {
                set.insert("if".into());
                walk_e(c, set);
                walk_s(t, set);
                if let Some(e) = e {
                    walk_s(e, set);
                }
            }
            S::IfSet(_, _, e, t, el) => {
                set.insert("ifset".into());
                walk_e(e, set);
                walk_s(t, set);
                if let Some(el) = el {
                    walk_s(el, set);
                }
            }
            S::Match(e, arms) => {
                set.insert("match".into());
                walk_e(e, set);
                for a in arms {
                    match a {
                        Arm::Type(_, _, b) | Arm::Other(b) => walk_s(b, set),
                        Arm::Value(v, b) => {
                            v.iter().for_each(|x| walk_e(x, set));
                            walk_s(b, set);
                        }
                    }
                }
            }
            S::Loop(b) => {
                set.insert("loop".into());
                walk_s(b, set);
            }
            S::While(c, b) => {
                set.insert("while".into());
                walk_e(c, set);
                walk_s(b, set);
            }
            S::WhileSet(_, _, e, b) => {
                set.insert("whileset".into());
                walk_e(e, set);
                walk_s(b, set);
            }
            S::For(_, e, b) => {
                set.insert("for".into());
                walk_e(e, set);
                walk_s(b, set);
            }
            S::Break => {
                set.insert("break".into());
            }
            S::Continue => {
                set.insert("continue".into());
            }
            S::Return(r) => {
                set.insert("return".into());
                if let Some(r) = r {
                    walk_s(r, set);
                }
            }
        }
    }
    body.iter().for_each(|s| walk_s(s, &mut set));
    set.into_iter().collect()
}

// ---------------------------------------------------------------------------------------------
// stray exits: variants of a program that the checker must reject

fn visit_fn_bodies_e(e: &mut E, f: &mut dyn FnMut(&mut Vec<S>)) {
    match e {
        E::Int(_) | E::Float(_) | E::Str(_) | E::Bool(_) | E::Void | E::Var(_) => {}
        E::Un(_, a) | E::Post(_, a) | E::TypeFilter(a, _) | E::TupAcc(a, _) | E::Field(a, _) | E::Mut(_, a) | E::MutInf(_, a) | E::Tick(_, _, a) | E::Len(a) => {
            visit_fn_bodies_e(a, f)
        }
        E::Bin(_, a, b) | E::Index(a, b) | E::Rep(a, b) => {
            visit_fn_bodies_e(a, f);
            visit_fn_bodies_e(b, f);
        }
        E::Reduce(a, b, c) => {
            visit_fn_bodies_e(a, f);
            visit_fn_bodies_e(b, f);
            visit_fn_bodies_e(c, f);
        }
        E::Call(a, args) => {
            visit_fn_bodies_e(a, f);
            args.iter_mut().for_each(|x| visit_fn_bodies_e(x, f));
        }
        E::Slice(a, s, t, u, _) => {
            visit_fn_bodies_e(a, f);
            for x in [s, t, u].into_iter().flatten() {
                visit_fn_bodies_e(x, f);
            }
        }
        E::Arr(xs) | E::Tup(xs) => xs.iter_mut().for_each(|x| visit_fn_bodies_e(x, f)),
        E::Struct(fs) => fs.iter_mut().for_each(|(_, x)| visit_fn_bodies_e(x, f)),
        E::Lambda(_, _, body) => {
            f(body);
            body.iter_mut().for_each(|s| visit_fn_bodies_s(s, f));
        }
        E::Mod(body) => body.iter_mut().for_each(|s| visit_fn_bodies_s(s, f)),
    }
}

fn visit_fn_bodies_s(s: &mut S, f: &mut dyn FnMut(&mut Vec<S>)) {
    match s {
        S::Expr(e) => visit_fn_bodies_e(e, f),
        S::Let(_, a) | S::Destruct(_, a) | S::Loop(a) => visit_fn_bodies_s(a, f),
        S::FnDecl(_, _, _, body) => {
            f(body);
            body.iter_mut().for_each(|s| visit_fn_bodies_s(s, f));
        }
        S::Block(b) => b.iter_mut().for_each(|s| visit_fn_bodies_s(s, f)),
        S::If(c, a, b) | S::IfSet(_, _, c, a, b) => {
            visit_fn_bodies_e(c, f);
            visit_fn_bodies_s(a, f);
            if let Some(b) = b {
                visit_fn_bodies_s(b, f);
            }
        }
        S::Match(c, arms) => {
            visit_fn_bodies_e(c, f);
            for arm in arms {
                match arm {
                    Arm::Type(_, _, b) | Arm::Other(b) => visit_fn_bodies_s(b, f),
                    Arm::Value(vs, b) => {
                        vs.iter_mut().for_each(|v| visit_fn_bodies_e(v, f));
                        visit_fn_bodies_s(b, f);
                    }
                }
            }
        }
        S::While(c, a) | S::WhileSet(_, _, c, a) | S::For(_, c, a) => {
            visit_fn_bodies_e(c, f);
            visit_fn_bodies_s(a, f);
        }
        S::Break | S::Continue => {}
        S::Return(a) => {
            if let Some(a) = a {
                visit_fn_bodies_s(a, f);
            }
        }
    }
}

/// the program with a `break` / `continue` placed at the top of the `pick`-th function body (outside every loop of
/// that function, wherever the function itself is written), or - when there is no function - at the top level
/// together with a top-level `return`; the checker must reject each of them. Returns (program, what was inserted).
pub fn stray_exit_variants(body: &[S], pick: u64) -> Vec<(Vec<S>, &'static str)> {
    let mut count = 0u64;
    let mut probe = body.to_vec();
    probe.iter_mut().for_each(|s| visit_fn_bodies_s(s, &mut |_| count += 1));
    let mut out = Vec::new();
    let nested = |exit: S, how: u64| -> S {
        match how % 3 {
            0 => exit,
            1 => S::If(E::Bool(true), Box::new(S::Block(vec![exit])), None),
            _ => S::Block(vec![S::Block(vec![exit])]),
        }
    };
    if count > 0 {
        for (exit, what) in [(S::Break, "break-in-function-outside-its-loops"), (S::Continue, "continue-in-function-outside-its-loops")] {
            let mut v = body.to_vec();
            let mut k = 0u64;
            let target = pick % count;
            v.iter_mut().for_each(|s| {
                visit_fn_bodies_s(s, &mut |b| {
                    if k == target {
                        b.insert(0, nested(exit.clone(), pick / count));
                    }
                    k += 1;
                })
            });
            out.push((v, what));
        }
    }
    for (exit, what) in [(S::Break, "break-at-top-level"), (S::Continue, "continue-at-top-level"), (S::Return(Some(Box::new(S::Expr(E::Int(1))))), "return-at-top-level")] {
        let mut v = body.to_vec();
        v.insert(0, nested(exit, pick));
        out.push((v, what));
    }
    out
}
