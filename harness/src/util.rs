//! PRNG, JSON writer, report structure shared by all property workers.
use std::collections::{BTreeMap, HashSet};
use std::fmt::Write as _;
use std::hash::{Hash, Hasher};

/// xoshiro256** seeded through splitmix64
#[derive(Clone)]
pub struct Rng {
    s: [u64; 4],
}

fn splitmix(x: &mut u64) -> u64 {
    *x = x.wrapping_add(0x9E3779B97F4A7C15);
    let mut z = *x;
    z = (z ^ (z >> 30)).wrapping_mul(0xBF58476D1CE4E5B9);
    z = (z ^ (z >> 27)).wrapping_mul(0x94D049BB133111EB);
    z ^ (z >> 31)
}

impl Rng {
    pub fn new(seed: u64) -> Self {
        let mut x = seed ^ 0xD1B54A32D192ED03;
        let s = [
            splitmix(&mut x),
            splitmix(&mut x),
            splitmix(&mut x),
            splitmix(&mut x),
        ];
        Rng { s }
    }
    pub fn derive(seed: u64, stream: u64) -> Self {
        Rng::new(seed.wrapping_mul(0x9E3779B97F4A7C15) ^ stream.wrapping_mul(0xC2B2AE3D27D4EB4F))
    }
    pub fn next(&mut self) -> u64 {
        let s = &mut self.s;
        let result = s[1].wrapping_mul(5).rotate_left(7).wrapping_mul(9);
        let t = s[1] << 17;
        s[2] ^= s[0];
        s[3] ^= s[1];
        s[1] ^= s[2];
        s[0] ^= s[3];
        s[2] ^= t;
        s[3] = s[3].rotate_left(45);
        result
    }
    /// uniform in 0..n (n > 0)
    pub fn below(&mut self, n: usize) -> usize {
        (self.next() % n as u64) as usize
    }
    pub fn range(&mut self, lo: i64, hi: i64) -> i64 {
        // inclusive
        let span = (hi as i128 - lo as i128 + 1) as u128;
        (lo as i128 + (self.next() as u128 % span) as i128) as i64
    }
    pub fn chance(&mut self, num: u32, den: u32) -> bool {
        (self.next() % den as u64) < num as u64
    }
    pub fn pick<'a, T>(&mut self, items: &'a [T]) -> &'a T {
        &items[self.below(items.len())]
    }
    pub fn weighted(&mut self, weights: &[u32]) -> usize {
        let total: u64 = weights.iter().map(|w| *w as u64).sum();
        if total == 0 {
            return 0;
        }
        let mut x = self.next() % total;
        for (i, w) in weights.iter().enumerate() {
            if x < *w as u64 {
                return i;
            }
            x -= *w as u64;
        }
        weights.len() - 1
    }
    pub fn shuffle<T>(&mut self, items: &mut [T]) {
        for i in (1..items.len()).rev() {
            let j = self.below(i + 1);
            items.swap(i, j);
        }
    }
    /// "interesting" i64: boundary values mixed with uniform and small values
    pub fn int(&mut self) -> i64 {
        match self.below(10) {
            0..=3 => self.range(-4, 6),
            4 | 5 => *self.pick(&INT_BOUNDARY),
            6 => self.range(-70, 70),
            7 => self.next() as i64,
            8 => (self.next() as i64) >> (self.below(64) as u32),
            _ => self.range(-1000, 1000),
        }
    }
    pub fn float(&mut self) -> f64 {
        match self.below(10) {
            0..=2 => *self.pick(&FLOAT_BOUNDARY),
            3..=5 => (self.range(-40, 40) as f64) / 4.0,
            6 => f64::from_bits(self.next()),
            7 => self.range(-1_000_000, 1_000_000) as f64 / 1000.0,
            _ => (self.range(-8, 8) as f64) + 0.5,
        }
    }
}

pub const INT_BOUNDARY: [i64; 30] = [
    i64::MIN,
    i64::MIN + 1,
    -(1 << 32) - 1,
    -(1 << 32),
    -(1 << 32) + 1,
    -(1 << 31),
    -65,
    -64,
    -63,
    -62,
    -3,
    -2,
    -1,
    0,
    1,
    2,
    3,
    62,
    63,
    64,
    65,
    (1 << 31) - 1,
    1 << 31,
    (1 << 32) - 1,
    1 << 32,
    (1 << 32) + 1,
    1 << 62,
    i64::MAX - 1,
    i64::MAX,
    10,
];

pub const FLOAT_BOUNDARY: [f64; 26] = [
    0.0,
    -0.0,
    5e-324,
    -5e-324,
    f64::MIN_POSITIVE,
    -f64::MIN_POSITIVE,
    1.0,
    -1.0,
    1.5,
    -1.5,
    2.0,
    0.5,
    f64::MAX,
    f64::MIN,
    f64::INFINITY,
    f64::NEG_INFINITY,
    f64::NAN,
    9007199254740992.0,
    9007199254740993.0,
    1e308,
    std::f64::consts::PI,
    1e21,
    1e-7,
    0.1,
    3.0,
    -2.5,
];

pub fn hash64<T: Hash + ?Sized>(value: &T) -> u64 {
    // FNV-1a based deterministic hasher (std's DefaultHasher::new() is also deterministic, but
    // keep this independent of std version)
    struct Fnv(u64);
    impl Hasher for Fnv {
        fn finish(&self) -> u64 {
            self.0
        }
        fn write(&mut self, bytes: &[u8]) {
            for b in bytes {
                self.0 ^= *b as u64;
                self.0 = self.0.wrapping_mul(0x100000001b3);
            }
        }
    }
    let mut h = Fnv(0xcbf29ce484222325);
    value.hash(&mut h);
    let mut x = h.finish();
    // final avalanche
    x ^= x >> 33;
    x = x.wrapping_mul(0xff51afd7ed558ccd);
    x ^= x >> 33;
    x
}

pub fn json_str(s: &str) -> String {
    let mut out = String::with_capacity(s.len() + 2);
    out.push('"');
    for c in s.chars() {
        match c {
            '"' => out.push_str("\\\""),
            '\\' => out.push_str("\\\\"),
            '\n' => out.push_str("\\n"),
            '\r' => out.push_str("\\r"),
            '\t' => out.push_str("\\t"),
            c if (c as u32) < 0x20 || c == '\u{7f}' || c == '\u{2028}' || c == '\u{2029}' => {
                let _ = write!(out, "\\u{:04x}", c as u32);
            }
            c if (c as u32) > 0xFFFF => {
                let v = c as u32 - 0x10000;
                let _ = write!(out, "\\u{:04x}\\u{:04x}", 0xD800 + (v >> 10), 0xDC00 + (v & 0x3FF));
            }
            c => out.push(c),
        }
    }
    out.push('"');
    out
}

/// tiny JSON object builder: values are already-rendered JSON fragments
#[derive(Default, Clone)]
pub struct Obj(Vec<(String, String)>);

impl Obj {
    pub fn new() -> Self {
        Obj(Vec::new())
    }
    pub fn s(mut self, k: &str, v: &str) -> Self {
        self.0.push((k.into(), json_str(v)));
        self
    }
    pub fn n<T: std::fmt::Display>(mut self, k: &str, v: T) -> Self {
        self.0.push((k.into(), v.to_string()));
        self
    }
    pub fn b(mut self, k: &str, v: bool) -> Self {
        self.0.push((k.into(), v.to_string()));
        self
    }
    pub fn raw(mut self, k: &str, v: String) -> Self {
        self.0.push((k.into(), v));
        self
    }
    pub fn render(&self) -> String {
        let mut out = String::from("{");
        for (i, (k, v)) in self.0.iter().enumerate() {
            if i > 0 {
                out.push(',');
            }
            out.push_str(&json_str(k));
            out.push(':');
            out.push_str(v);
        }
        out.push('}');
        out
    }
}

pub fn json_arr(items: &[String]) -> String {
    format!("[{}]", items.join(","))
}

pub fn truncate(s: &str, max: usize) -> String {
    if s.chars().count() <= max {
        return s.to_string();
    }
    let mut out: String = s.chars().take(max).collect();
    out.push_str("…");
    out
}

#[derive(Clone)]
pub struct Violation {
    /// stable signature: monitor + site + shape (used to match known findings)
    pub key: String,
    /// human-readable description
    pub what: String,
    /// replay kind understood by `vmon <prop> --replay`
    pub kind: String,
    /// replay payload (program text / input vector)
    pub payload: String,
}

pub struct Report {
    pub prop: String,
    pub evaluations: u64,
    pub counters: BTreeMap<String, u64>,
    pub distinct: HashSet<u64>,
    pub shapes: BTreeMap<String, HashSet<String>>,
    pub samples: Vec<String>,
    sample_cats: BTreeMap<String, u32>,
    pub violations: Vec<Violation>,
    viol_per_key: BTreeMap<String, u32>,
    pub viol_key_counts: BTreeMap<String, u64>,
    pub inconclusive: BTreeMap<String, u64>,
    pub notes: Vec<String>,
}

impl Report {
    pub fn new(prop: &str) -> Self {
        Report {
            prop: prop.into(),
            evaluations: 0,
            counters: BTreeMap::new(),
            distinct: HashSet::new(),
            shapes: BTreeMap::new(),
            samples: Vec::new(),
            sample_cats: BTreeMap::new(),
            violations: Vec::new(),
            viol_per_key: BTreeMap::new(),
            viol_key_counts: BTreeMap::new(),
            inconclusive: BTreeMap::new(),
            notes: Vec::new(),
        }
    }
    pub fn count(&mut self, k: &str) {
        *self.counters.entry(k.into()).or_insert(0) += 1;
    }
    pub fn add(&mut self, k: &str, n: u64) {
        *self.counters.entry(k.into()).or_insert(0) += n;
    }
    pub fn inconclusive(&mut self, k: &str) {
        *self.inconclusive.entry(k.into()).or_insert(0) += 1;
    }
    /// record a distinct non-trivial case (by its full text / key)
    pub fn distinct_case<T: Hash + ?Sized>(&mut self, case: &T) {
        self.distinct.insert(hash64(case));
    }
    /// record a coverage shape in a named family (small sets, reported by name)
    pub fn shape(&mut self, family: &str, shape: &str) {
        let set = self.shapes.entry(family.into()).or_default();
        if set.len() < 100_000 {
            set.insert(shape.into());
        }
    }
    /// keep at most `cap` samples per category; `json` is a rendered JSON value
    pub fn sample(&mut self, cat: &str, cap: u32, json: impl FnOnce() -> String) {
        let n = self.sample_cats.entry(cat.into()).or_insert(0);
        if *n < cap {
            *n += 1;
            self.samples.push(json());
        }
    }
    pub fn violation(&mut self, key: &str, what: &str, kind: &str, payload: &str) {
        *self.viol_key_counts.entry(key.into()).or_insert(0) += 1;
        let n = self.viol_per_key.entry(key.into()).or_insert(0);
        if *n < 3 && self.violations.len() < 300 {
            *n += 1;
            self.violations.push(Violation {
                key: key.into(),
                what: what.into(),
                kind: kind.into(),
                payload: payload.into(),
            });
        }
    }
    pub fn render(&self) -> String {
        let counters = Obj(self
            .counters
            .iter()
            .map(|(k, v)| (k.clone(), v.to_string()))
            .collect());
        let inconclusive = Obj(self
            .inconclusive
            .iter()
            .map(|(k, v)| (k.clone(), v.to_string()))
            .collect());
        let keycounts = Obj(self
            .viol_key_counts
            .iter()
            .map(|(k, v)| (k.clone(), v.to_string()))
            .collect());
        let shapes = Obj(self
            .shapes
            .iter()
            .map(|(k, v)| {
                let mut items: Vec<&String> = v.iter().collect();
                items.sort();
                (
                    k.clone(),
                    json_arr(&items.iter().map(|s| json_str(s)).collect::<Vec<_>>()),
                )
            })
            .collect());
        let violations: Vec<String> = self
            .violations
            .iter()
            .map(|v| {
                Obj::new()
                    .s("key", &v.key)
                    .s("what", &v.what)
                    .s("kind", &v.kind)
                    .s("payload", &v.payload)
                    .render()
            })
            .collect();
        Obj::new()
            .s("prop", &self.prop)
            .n("evaluations", self.evaluations)
            .raw("counters", counters.render())
            .raw("inconclusive", inconclusive.render())
            .raw("shapes", shapes.render())
            .raw("samples", json_arr(&self.samples))
            .raw("violations", json_arr(&violations))
            .raw("violation_key_counts", keycounts.render())
            .raw(
                "notes",
                json_arr(&self.notes.iter().map(|s| json_str(s)).collect::<Vec<_>>()),
            )
            .n("distinct_local", self.distinct.len())
            .render()
    }
    pub fn write(&self, out: &str) {
        std::fs::write(out, self.render()).expect("write report");
        let mut bytes = Vec::with_capacity(self.distinct.len() * 8);
        for h in &self.distinct {
            bytes.extend_from_slice(&h.to_le_bytes());
        }
        std::fs::write(format!("{out}.distinct"), bytes).expect("write distinct");
    }
}

/// Worker configuration parsed from argv
#[derive(Clone)]
pub struct Cfg {
    pub prop: String,
    pub tier: String,
    pub seed: u64,
    pub shard: u64,
    pub nshards: u64,
    pub out: String,
    pub replay: Option<String>,
    pub budget_s: f64,
    pub extra: BTreeMap<String, String>,
}

impl Cfg {
    pub fn thorough(&self) -> bool {
        self.tier == "thorough"
    }
    pub fn rng(&self, stream: u64) -> Rng {
        Rng::derive(self.seed, self.shard.wrapping_mul(1000003).wrapping_add(stream))
    }
    /// scale a count: quick value / thorough value, divided over shards
    pub fn per_shard(&self, quick: u64, thorough: u64) -> u64 {
        let total = if self.thorough() { thorough } else { quick };
        let scale: f64 = self
            .extra
            .get("scale")
            .and_then(|s| s.parse().ok())
            .unwrap_or(1.0);
        (((total as f64) * scale) as u64).div_ceil(self.nshards.max(1))
    }
    /// write the report as it stands (at most every 4 s): if the worker process is later killed by
    /// resource exhaustion, the driver still has what was observed so far
    pub fn checkpoint(&self, rep: &Report) {
        use std::sync::Mutex;
        static LAST: Mutex<Option<std::time::Instant>> = Mutex::new(None);
        let mut last = LAST.lock().unwrap();
        let due = last.is_none_or(|t| t.elapsed().as_secs_f64() > 4.0);
        if due && self.out != "/dev/stdout" && !self.out.is_empty() {
            *last = Some(std::time::Instant::now());
            let tmp = format!("{}.tmp", self.out);
            if std::fs::write(&tmp, rep.render()).is_ok() {
                let _ = std::fs::rename(&tmp, &self.out);
            }
            let mut bytes = Vec::with_capacity(rep.distinct.len() * 8);
            for h in &rep.distinct {
                bytes.extend_from_slice(&h.to_le_bytes());
            }
            let _ = std::fs::write(format!("{}.distinct", self.out), bytes);
        }
    }
    /// does this shard own item i of an enumerated space?
    pub fn owns(&self, i: u64) -> bool {
        // mixed, so that enumeration order does not correlate with shard load
        let mut x = i.wrapping_mul(0x9E3779B97F4A7C15);
        x ^= x >> 29;
        x % self.nshards.max(1) == self.shard
    }
}

pub struct Deadline(std::time::Instant, f64);

impl Deadline {
    pub fn new(budget_s: f64) -> Self {
        Deadline(std::time::Instant::now(), budget_s)
    }
    /// budget used up? (budgets only bound work; they never decide a verdict)
    pub fn over(&self) -> bool {
        self.1 > 0.0 && self.0.elapsed().as_secs_f64() > self.1
    }
    pub fn elapsed(&self) -> f64 {
        self.0.elapsed().as_secs_f64()
    }
}
