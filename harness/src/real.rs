//! Calling the real crate under observation: panic capture, fuel, outcome classification.
use simplesl::{Code, Error, ExecError, Interpreter, variable::Variable, verif};
use std::cell::RefCell;
use std::panic::{AssertUnwindSafe, catch_unwind};
use std::sync::Once;

#[derive(Clone, Copy, Debug, PartialEq, Eq, Hash, PartialOrd, Ord)]
pub enum ErrKind {
    Index,
    NegLen,
    NegExp,
    ZeroDiv,
    ZeroMod,
    Shift,
}

impl ErrKind {
    pub fn name(self) -> &'static str {
        match self {
            ErrKind::Index => "IndexOutOfBounds",
            ErrKind::NegLen => "NegativeLength",
            ErrKind::NegExp => "NegativeExponent",
            ErrKind::ZeroDiv => "ZeroDivision",
            ErrKind::ZeroMod => "ZeroModulo",
            ErrKind::Shift => "OverflowShift",
        }
    }
    pub const ALL: [ErrKind; 6] = [
        ErrKind::Index,
        ErrKind::NegLen,
        ErrKind::NegExp,
        ErrKind::ZeroDiv,
        ErrKind::ZeroMod,
        ErrKind::Shift,
    ];
}

/// `None` means: an ExecError variant the documentation does not list (a violation of C02 by itself)
pub fn exec_err_kind(e: &ExecError) -> Option<ErrKind> {
    #[allow(unreachable_patterns)]
    match e {
        ExecError::IndexOutOfBounds => Some(ErrKind::Index),
        ExecError::NegativeLength => Some(ErrKind::NegLen),
        ExecError::NegativeExponent => Some(ErrKind::NegExp),
        ExecError::ZeroDivision => Some(ErrKind::ZeroDiv),
        ExecError::ZeroModulo => Some(ErrKind::ZeroMod),
        ExecError::OverflowShift => Some(ErrKind::Shift),
        _ => None,
    }
}

/// parse-time error that is one of the six run-time errors (constant folding reported it early)
pub fn parse_err_kind(e: &Error) -> Option<ErrKind> {
    match e {
        Error::IndexOutOfBounds => Some(ErrKind::Index),
        Error::NegativeLength => Some(ErrKind::NegLen),
        Error::NegativeExponent => Some(ErrKind::NegExp),
        Error::ZeroDivision => Some(ErrKind::ZeroDiv),
        Error::ZeroModulo => Some(ErrKind::ZeroMod),
        Error::OverflowShift => Some(ErrKind::Shift),
        _ => None,
    }
}

pub fn error_variant(e: &Error) -> String {
    // variant name only (messages embed printed types whose order may vary)
    match e {
        Error::Parsing(_) => "Parsing".into(),
        Error::IO(_) => "IO".into(),
        other => {
            let d = format!("{other:?}");
            d.chars()
                .take_while(|c| c.is_alphanumeric() || *c == '_')
                .collect()
        }
    }
}

#[derive(Clone, Copy, Debug, PartialEq, Eq)]
pub enum PanicKind {
    Fuel,
    Depth,
    Resource,
    Panic,
}

#[derive(Clone, Debug)]
pub struct PanicInfo {
    pub kind: PanicKind,
    pub msg: String,
    pub loc: String,
    pub src: Option<String>,
}

impl PanicInfo {
    /// stable signature: file:line of the panic site, repo-relative
    pub fn site(&self) -> String {
        let loc = self.loc.as_str();
        let loc = loc.strip_prefix("/repo/").unwrap_or(loc);
        // dependency sources: keep only `<crate>-<version>/src/...`
        let loc = loc.split_once("/registry/src/").map_or(loc, |(_, rest)| rest.split_once('/').map_or(rest, |(_, r)| r));
        let loc = loc.split_once("/library/").map_or(loc, |(_, rest)| rest);
        // strip column
        let mut parts = loc.rsplitn(2, ':');
        let _col = parts.next();
        parts.next().unwrap_or(loc).to_string()
    }
    pub fn short_msg(&self) -> String {
        crate::util::truncate(&self.msg, 160)
    }
}

thread_local! {
    static IN_GUARD: std::cell::Cell<u32> = const { std::cell::Cell::new(0) };
    static LAST_PANIC: RefCell<Option<(String, String, Option<String>)>> = const { RefCell::new(None) };
}

static HOOK: Once = Once::new();

pub fn install_panic_hook() {
    HOOK.call_once(|| {
        std::panic::set_hook(Box::new(|info| {
            let msg = if let Some(s) = info.payload().downcast_ref::<&str>() {
                (*s).to_string()
            } else if let Some(s) = info.payload().downcast_ref::<String>() {
                s.clone()
            } else if info.payload().downcast_ref::<verif::FuelExhausted>().is_some() {
                "<fuel exhausted>".to_string()
            } else if info.payload().downcast_ref::<verif::DepthExhausted>().is_some() {
                "<depth exhausted>".to_string()
            } else {
                "<non-string panic payload>".to_string()
            };
            let loc = info
                .location()
                .map(|l| format!("{}:{}:{}", l.file(), l.line(), l.column()))
                .unwrap_or_else(|| "<unknown>".into());
            let src = verif::current_src().map(|s| s.to_string());
            LAST_PANIC.with(|l| *l.borrow_mut() = Some((msg, loc, src)));
            if IN_GUARD.with(|g| g.get()) == 0 {
                // a panic of the harness itself (not of observed code): never swallow it
                eprintln!("HARNESS-PANIC: {}", LAST_PANIC.with(|l| format!("{:?}", l.borrow())));
            }
            if std::env::var_os("VMON_PANIC_TRACE").is_some() {
                eprintln!("panic: {}", LAST_PANIC.with(|l| format!("{:?}", l.borrow())));
            }
        }));
    });
}

/// Run `f`, turning a panic into a classified `PanicInfo`. Always resets hook state first.
pub fn guarded<T>(f: impl FnOnce() -> T) -> Result<T, PanicInfo> {
    install_panic_hook();
    verif::reset();
    LAST_PANIC.with(|l| *l.borrow_mut() = None);
    IN_GUARD.with(|g| g.set(g.get() + 1));
    let caught = catch_unwind(AssertUnwindSafe(f));
    IN_GUARD.with(|g| g.set(g.get().saturating_sub(1)));
    match caught {
        Ok(v) => Ok(v),
        Err(payload) => {
            verif::reset();
            let (msg, loc, src) = LAST_PANIC
                .with(|l| l.borrow_mut().take())
                .unwrap_or_else(|| ("<no message>".into(), "<unknown>".into(), None));
            let kind = if payload.downcast_ref::<verif::FuelExhausted>().is_some() {
                PanicKind::Fuel
            } else if payload.downcast_ref::<verif::DepthExhausted>().is_some() {
                PanicKind::Depth
            } else if msg.contains("capacity overflow")
                || msg.contains("LayoutError")
                || msg.contains("memory allocation")
                || msg.contains("alloc")
                    && (msg.contains("too large") || msg.contains("exceeds"))
                || msg.contains("failed to spawn thread")
            {
                PanicKind::Resource
            } else {
                PanicKind::Panic
            };
            Err(PanicInfo {
                kind,
                msg,
                loc,
                src,
            })
        }
    }
}

pub const DEFAULT_FUEL: u64 = 20_000;
pub const DEFAULT_DEPTH: usize = 120;

pub fn arm(fuel: u64, depth: usize) {
    verif::set_fuel(fuel);
    verif::set_depth_cap(depth);
}

#[derive(Debug)]
pub enum Outcome {
    /// rejected by parser / checker; second field: Some(kind) if the error is one of the six runtime errors
    Rejected(String, Option<ErrKind>),
    Value(Variable),
    ExecErr(Option<ErrKind>, String),
    Panic(PanicInfo),
}

impl Outcome {
    pub fn tag(&self) -> String {
        match self {
            Outcome::Rejected(v, Some(_)) => format!("rejected-runtime-error:{v}"),
            Outcome::Rejected(v, None) => format!("rejected:{v}"),
            Outcome::Value(_) => "value".into(),
            Outcome::ExecErr(Some(k), _) => format!("error:{}", k.name()),
            Outcome::ExecErr(None, n) => format!("error:UNDOCUMENTED:{n}"),
            Outcome::Panic(p) => format!("panic:{:?}", p.kind),
        }
    }
}

/// parse (against `interp`) and run in a fresh scope, everything guarded
pub fn parse_exec_in(interp: &Interpreter, src: &str, fuel: u64) -> (Outcome, Option<Code>) {
    let parsed = guarded(|| Code::parse(interp, src));
    let code = match parsed {
        Err(p) => return (Outcome::Panic(p), None),
        Ok(Err(e)) => return (Outcome::Rejected(error_variant(&e), parse_err_kind(&e)), None),
        Ok(Ok(code)) => code,
    };
    let out = exec_code(&code, fuel);
    (out, Some(code))
}

pub fn exec_code(code: &Code, fuel: u64) -> Outcome {
    let r = guarded(|| {
        arm(fuel, DEFAULT_DEPTH);
        code.exec()
    });
    verif::set_fuel(u64::MAX);
    match r {
        Err(p) => Outcome::Panic(p),
        Ok(Ok(v)) => Outcome::Value(v),
        Ok(Err(e)) => Outcome::ExecErr(exec_err_kind(&e), format!("{e:?}")),
    }
}

pub fn parse_exec(src: &str, with_std: bool) -> Outcome {
    let interp = if with_std {
        Interpreter::with_stdlib()
    } else {
        Interpreter::without_stdlib()
    };
    parse_exec_in(&interp, src, DEFAULT_FUEL).0
}

/// Run a closure on a thread with a very large stack (deeply nested inputs must not overflow).
pub fn on_big_stack<T: Send + 'static>(f: impl FnOnce() -> T + Send + 'static) -> T {
    std::thread::Builder::new()
        .stack_size(2 << 30)
        .spawn(f)
        .expect("spawn worker thread")
        .join()
        .expect("worker thread panicked")
}
