#![allow(dead_code)]
//! vmon: runtime-monitoring workers for the SimpleSL properties.
//! usage: vmon <PROP> --tier quick|thorough --seed N --shard I --nshards N --out FILE [--budget S] [--replay FILE] [--opt k=v]
//!        vmon merge-distinct FILE...
mod ast;
mod genp;
mod optyping;
mod oracle;
mod prog;
mod props;
mod real;
mod refeval;
mod util;

use std::collections::{BTreeMap, HashSet};
use util::{Cfg, Report};

fn parse_args() -> Cfg {
    let args: Vec<String> = std::env::args().collect();
    let mut cfg = Cfg {
        prop: args.get(1).cloned().unwrap_or_default(),
        tier: "quick".into(),
        seed: 1,
        shard: 0,
        nshards: 1,
        out: "/dev/stdout".into(),
        replay: None,
        budget_s: 0.0,
        extra: BTreeMap::new(),
    };
    let mut i = 2;
    while i < args.len() {
        let v = args.get(i + 1).cloned().unwrap_or_default();
        match args[i].as_str() {
            "--tier" => cfg.tier = v,
            "--seed" => cfg.seed = v.parse().unwrap_or(1),
            "--shard" => cfg.shard = v.parse().unwrap_or(0),
            "--nshards" => cfg.nshards = v.parse().unwrap_or(1),
            "--out" => cfg.out = v,
            "--replay" => cfg.replay = Some(v),
            "--budget" => cfg.budget_s = v.parse().unwrap_or(0.0),
            "--opt" => {
                if let Some((k, val)) = v.split_once('=') {
                    cfg.extra.insert(k.into(), val.into());
                }
            }
            other => {
                eprintln!("unknown argument {other}");
                std::process::exit(2);
            }
        }
        i += 2;
    }
    cfg
}

/// replay file format: header lines `key: value`, then a line `---`, then the payload
fn read_replay(path: &str) -> (BTreeMap<String, String>, String) {
    let text = std::fs::read_to_string(path).unwrap_or_else(|e| {
        eprintln!("cannot read replay {path}: {e}");
        std::process::exit(2);
    });
    let mut head = BTreeMap::new();
    let mut lines = text.split_inclusive('\n');
    let mut consumed = 0;
    for line in lines.by_ref() {
        consumed += line.len();
        let l = line.trim_end_matches('\n');
        if l == "---" {
            break;
        }
        if let Some((k, v)) = l.split_once(": ") {
            head.insert(k.to_string(), v.to_string());
        }
    }
    (head, text[consumed..].to_string())
}

fn main() {
    let args: Vec<String> = std::env::args().collect();
    if args.get(1).map(String::as_str) == Some("merge-distinct") {
        let mut set: HashSet<u64> = HashSet::new();
        for f in &args[2..] {
            if let Ok(bytes) = std::fs::read(f) {
                for chunk in bytes.chunks_exact(8) {
                    set.insert(u64::from_le_bytes(chunk.try_into().unwrap()));
                }
            }
        }
        println!("{}", set.len());
        return;
    }
    if args.get(1).map(String::as_str) == Some("eval") {
        // vmon eval '<program>' : parse with stdlib, print static type, run, print outcome
        let src = args.get(2).cloned().unwrap_or_default();
        let interp = simplesl::Interpreter::with_stdlib();
        let (out, code) = real::parse_exec_in(&interp, &src, real::DEFAULT_FUEL);
        if let Some(code) = &code {
            use simplesl::variable::ReturnType;
            println!("static type: {:?}", real::guarded(|| code.return_type().to_string()));
        }
        match &out {
            real::Outcome::Value(v) => println!("value: {v:?}   canon: {}", oracle::canon(v)),
            real::Outcome::Panic(p) => println!("PANIC {:?} at {}: {}", p.kind, p.loc, p.msg),
            other => println!("{other:?}"),
        }
        if let Err(e) = simplesl::Code::parse(&interp, &src) {
            println!("error text: {e}");
        }
        return;
    }
    if args.get(1).map(String::as_str) == Some("show") {
        // vmon show <PROP> <seed> <shard> <index> : print one generated program and all its outcomes
        let prop = args.get(2).cloned().unwrap_or_default();
        let n = |i: usize| args.get(i).and_then(|s| s.parse::<u64>().ok()).unwrap_or(0);
        let spec = props::diff::spec_for(&prop).expect("unknown diff property");
        let profile = &spec.profiles[(n(5) % spec.profiles.len() as u64) as usize];
        real::on_big_stack({
            let profile = profile.clone();
            let (seed, shard, index) = (n(3), n(4), n(5));
            move || {
                let (body, _) = props::diff::gen_program(seed, shard, index, &profile);
                for mode in [ast::Mode::Literal, ast::Mode::Hidden] {
                    let text = prog::program_text(&body, mode);
                    println!("--- {mode:?}\n{}", &text[ast::PRELUDE.len()..]);
                    let r = prog::run_real(&text, props::diff::FUEL);
                    match &r.outcome {
                        real::Outcome::Value(v) => println!("=> value {}", oracle::canon(v)),
                        real::Outcome::Panic(p) => println!("=> PANIC {:?} {} {}", p.kind, p.loc, p.msg),
                        o => println!("=> {o:?}"),
                    }
                    println!("   log {:?} steps {}", r.log, r.steps);
                    if let real::Outcome::Rejected(..) = r.outcome {
                        let interp = simplesl::Interpreter::with_stdlib();
                        if let Err(e) = simplesl::Code::parse(&interp, &text) {
                            println!("   error: {e}");
                        }
                    }
                }
                let rr = prog::run_ref(&body, 400_000);
                match &rr.outcome {
                    prog::RefOutcome::Value(v) => println!("ref => value {}", refeval::canon_v(v)),
                    prog::RefOutcome::Err(k) => println!("ref => error {}", k.name()),
                    prog::RefOutcome::GiveUp(w) => println!("ref => gave up: {w}"),
                }
                println!("ref log {:?}", rr.log);
            }
        });
        return;
    }
    let cfg = parse_args();
    real::install_panic_hook();
    let cfg2 = cfg.clone();
    let report = real::on_big_stack(move || {
        let cfg = cfg2;
        let mut rep = Report::new(&cfg.prop);
        if let Some(path) = &cfg.replay {
            let (head, payload) = read_replay(path);
            let kind = head.get("kind").cloned().unwrap_or_default();
            dispatch_replay(&cfg, &kind, &payload, &mut rep);
        } else {
            dispatch(&cfg, &mut rep);
        }
        rep
    });
    report.write(&cfg.out);
}

fn dispatch(cfg: &Cfg, rep: &mut Report) {
    match cfg.prop.as_str() {
        "C01" => props::sound::run(cfg, rep, &props::sound::Mode2 { prop: "C01", soundness: true }),
        "C02" => props::sound::run(cfg, rep, &props::sound::Mode2 { prop: "C02", soundness: false }),
        "C03" => props::c03::run(cfg, rep),
        "C05" => props::c05::run(cfg, rep),
        "C08" => props::c08::run(cfg, rep),
        "C09" => props::c09::run(cfg, rep),
        "C10" => props::c10::run(cfg, rep),
        "C14" => props::c14::run(cfg, rep),
        "C15" => props::c15::run(cfg, rep),
        "C16" => props::c16::run(cfg, rep),
        "C17" => props::c17::run(cfg, rep),
        "C18" => props::c18::run(cfg, rep),
        "C19" => props::c19::run(cfg, rep),
        "C20" => props::c20::run(cfg, rep),
        other => {
            if let Some(spec) = props::diff::spec_for(other) {
                props::diff::run(cfg, rep, &spec);
                return;
            }
            eprintln!("unknown property {other}");
            std::process::exit(2);
        }
    }
}

fn dispatch_replay(cfg: &Cfg, kind: &str, payload: &str, rep: &mut Report) {
    match cfg.prop.as_str() {
        "C01" => props::sound::replay(payload, rep, &props::sound::Mode2 { prop: "C01", soundness: true }),
        "C02" => props::sound::replay(payload, rep, &props::sound::Mode2 { prop: "C02", soundness: false }),
        "C03" => props::c03::replay(kind, payload, rep),
        "C05" => props::c05::replay(kind, payload, rep),
        "C08" => props::c08::replay(payload, rep),
        "C09" => props::c09::replay(payload, rep),
        "C10" => props::c10::replay(kind, payload, rep),
        "C14" => props::c14::replay(payload, rep),
        "C15" => props::c15::replay(kind, payload, rep),
        "C16" => props::c16::replay(payload, rep),
        "C17" => props::c17::replay(kind, payload, rep),
        "C18" => props::c18::replay(payload, rep),
        "C19" => props::c19::replay(payload, rep),
        "C20" => props::c20::replay(kind, payload, rep),
        other => {
            if let Some(spec) = props::diff::spec_for(other) {
                props::diff::replay(cfg, payload, rep, &spec);
                return;
            }
            eprintln!("unknown property {other}");
            std::process::exit(2);
        }
    }
}
