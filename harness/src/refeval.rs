//! Independent reference evaluator of the harness AST with the documented SimpleSL semantics:
//! lexical scoping with snapshot capture, left-to-right exactly-once evaluation, short-circuit
//! logic, wrapping arithmetic, Python slices, list semantics of the iterator operators, cells as
//! heap objects with identity. It shares no code with the crate under observation.
use crate::ast::{Arm, E, S};
use crate::oracle::{Ty, sub};
use crate::props::c08::{Exp, float_oracle, int_oracle, int_unary_oracle};
use crate::props::c09::py_slice;
use crate::real::ErrKind;
use std::cell::{Cell, RefCell};
use std::collections::BTreeMap;
use std::rc::Rc;

#[derive(Clone)]
pub enum V {
    Int(i64),
    Float(f64),
    Str(Rc<str>),
    Bool(bool),
    Void,
    Arr(Rc<ArrV>),
    Tup(Rc<Vec<V>>),
    Struct(Rc<BTreeMap<String, V>>),
    Cell(Rc<CellV>),
    Fun(Rc<FunV>),
    /// a value the documentation leaves open (payload of an exhausted iterator step)
    Unspec,
}

pub struct ArrV {
    pub items: Vec<V>,
    /// stored element type when it is not simply the join of the element tags
    pub elem: Option<Ty>,
}

pub struct CellV {
    pub id: usize,
    pub ty: Option<Ty>,
    pub val: RefCell<V>,
}

pub enum FunV {
    Closure {
        params: Vec<(String, Ty)>,
        ret: Ty,
        body: Rc<Vec<S>>,
        env: Env,
        self_name: Option<String>,
    },
    ArrIter {
        items: Rc<ArrV>,
        pos: Cell<i64>,
    },
    Map {
        src: V,
        f: V,
    },
    Filter {
        src: V,
        p: V,
    },
    TypeFilter {
        src: V,
        ty: Ty,
    },
}

pub struct EnvNode {
    name: String,
    value: V,
    parent: Env,
}
pub type Env = Option<Rc<EnvNode>>;

/// latest binding of every name in an environment
pub fn env_bindings(env: &Env) -> Vec<(String, V)> {
    let mut seen = std::collections::BTreeSet::new();
    let mut out = Vec::new();
    let mut cur = env;
    while let Some(node) = cur {
        if seen.insert(node.name.clone()) {
            out.push((node.name.clone(), node.value.clone()));
        }
        cur = &node.parent;
    }
    out
}

fn bind(env: &Env, name: &str, value: V) -> Env {
    Some(Rc::new(EnvNode {
        name: name.to_string(),
        value,
        parent: env.clone(),
    }))
}

fn lookup(env: &Env, name: &str) -> Option<V> {
    let mut cur = env;
    while let Some(node) = cur {
        if node.name == name {
            return Some(node.value.clone());
        }
        cur = &node.parent;
    }
    None
}

pub enum Flow {
    Break,
    Continue,
    Return(V),
    Err(ErrKind),
    /// the reference cannot decide (unspecified value used, unknown runtime tag, fuel)
    GiveUp(String),
}

type R<T> = Result<T, Flow>;

pub struct Machine {
    pub log: Vec<u32>,
    pub fuel: u64,
    pub cells: usize,
    pub depth: usize,
    pub lookups: u64,
    pub calls: u64,
    pub pulls: u64,
    /// how often program code itself (not an iterator operator) received a value with an unspecified part
    pub unspec_manual: u64,
}

/// does the value contain a part the documentation leaves open?
pub fn contains_unspec(v: &V) -> bool {
    match v {
        V::Unspec => true,
        V::Arr(a) => a.items.iter().any(contains_unspec),
        V::Tup(t) => t.iter().any(contains_unspec),
        V::Struct(s) => s.values().any(contains_unspec),
        V::Cell(c) => c.val.try_borrow().map(|x| contains_unspec(&x)).unwrap_or(false),
        _ => false,
    }
}

fn untracked<T>(v: &V, what: &str) -> R<T> {
    if contains_unspec(v) {
        giveup(&format!("{what} on an unspecified value"))
    } else {
        giveup(&format!("{what} on a value whose runtime type the reference does not track"))
    }
}

fn giveup<T>(why: &str) -> R<T> {
    Err(Flow::GiveUp(why.to_string()))
}

pub fn arr(items: Vec<V>) -> V {
    V::Arr(Rc::new(ArrV { items, elem: None }))
}

pub fn tup(items: Vec<V>) -> V {
    V::Tup(Rc::new(items))
}

/// runtime type tag as the documentation describes `as_type` (None = not determinable here)
pub fn tag(v: &V) -> Option<Ty> {
    Some(match v {
        V::Int(_) => Ty::Int,
        V::Float(_) => Ty::Float,
        V::Str(_) => Ty::Str,
        V::Bool(_) => Ty::Bool,
        V::Void => Ty::Void,
        V::Unspec => return None,
        V::Arr(a) => Ty::arr(elem_tag(a)?),
        V::Tup(t) => Ty::Tup(t.iter().map(tag).collect::<Option<Vec<_>>>()?),
        V::Struct(s) => Ty::Struct(s.iter().map(|(k, v)| Some((k.clone(), tag(v)?))).collect::<Option<_>>()?),
        V::Cell(c) => Ty::mutc(c.ty.clone()?),
        V::Fun(f) => match &**f {
            FunV::Closure { params, ret, .. } => Ty::fun(params.iter().map(|(_, t)| t.clone()).collect(), ret.clone()),
            FunV::ArrIter { items, .. } => Ty::iter_of(elem_tag(items)?),
            FunV::Map { f, .. } => match tag(f)? {
                Ty::Fun(_, r) => Ty::iter_of(*r),
                _ => return None,
            },
            FunV::Filter { src, .. } => tag(src)?,
            FunV::TypeFilter { ty, .. } => Ty::iter_of(ty.clone()),
        },
    })
}

fn elem_tag(a: &ArrV) -> Option<Ty> {
    if let Some(e) = &a.elem {
        return Some(e.clone());
    }
    let tags: Option<Vec<Ty>> = a.items.iter().map(tag).collect();
    Some(Ty::union(tags?))
}

/// equality by content; functions and cells by identity (documented)
pub fn equal(a: &V, b: &V) -> R<bool> {
    Ok(match (a, b) {
        (V::Unspec, _) | (_, V::Unspec) => return giveup("comparison of an unspecified value"),
        (V::Int(x), V::Int(y)) => x == y,
        (V::Float(x), V::Float(y)) => x == y,
        (V::Str(x), V::Str(y)) => x == y,
        (V::Bool(x), V::Bool(y)) => x == y,
        (V::Void, V::Void) => true,
        (V::Arr(x), V::Arr(y)) => {
            if x.items.len() != y.items.len() {
                return Ok(false);
            }
            for (p, q) in x.items.iter().zip(&y.items) {
                if !equal(p, q)? {
                    return Ok(false);
                }
            }
            true
        }
        (V::Tup(x), V::Tup(y)) => {
            if x.len() != y.len() {
                return Ok(false);
            }
            for (p, q) in x.iter().zip(y.iter()) {
                if !equal(p, q)? {
                    return Ok(false);
                }
            }
            true
        }
        (V::Struct(x), V::Struct(y)) => {
            if x.len() != y.len() || !x.keys().eq(y.keys()) {
                return Ok(false);
            }
            for (k, p) in x.iter() {
                if !equal(p, &y[k])? {
                    return Ok(false);
                }
            }
            true
        }
        (V::Cell(x), V::Cell(y)) => Rc::ptr_eq(x, y),
        (V::Fun(x), V::Fun(y)) => Rc::ptr_eq(x, y),
        _ => false,
    })
}

impl Machine {
    pub fn new(fuel: u64) -> Self {
        Machine { log: Vec::new(), fuel, cells: 0, depth: 0, lookups: 0, calls: 0, pulls: 0, unspec_manual: 0 }
    }

    fn tick(&mut self) -> R<()> {
        if self.fuel == 0 {
            return giveup("reference fuel exhausted");
        }
        self.fuel -= 1;
        Ok(())
    }

    pub fn new_cell(&mut self, ty: Option<Ty>, v: V) -> V {
        self.cells += 1;
        V::Cell(Rc::new(CellV { id: self.cells, ty, val: RefCell::new(v) }))
    }

    /// run a statement list in a fresh scope; value of the last statement
    pub fn block(&mut self, body: &[S], env: &Env) -> R<V> {
        let mut env = env.clone();
        let mut last = V::Void;
        for s in body {
            last = self.stm(s, &mut env)?;
        }
        Ok(last)
    }

    /// top level: like a block, but returns the final environment too
    pub fn program(&mut self, body: &[S]) -> (R<V>, Env) {
        let mut env: Env = None;
        let mut last = V::Void;
        for s in body {
            match self.stm(s, &mut env) {
                Ok(v) => last = v,
                Err(f) => return (Err(f), env),
            }
        }
        (Ok(last), env)
    }

    fn scoped(&mut self, s: &S, env: &Env) -> R<V> {
        // a statement executed where its declarations cannot escape
        let mut inner = env.clone();
        self.stm(s, &mut inner)
    }

    pub fn stm(&mut self, s: &S, env: &mut Env) -> R<V> {
        self.tick()?;
        match s {
            S::Expr(e) => self.expr(e, env),
            S::Let(name, rhs) => {
                // (a let-bound function literal is printed in parentheses: a plain binding of an anonymous function; the
                // declaration form `name := (..) -> T {..}`, whose body sees its own name, is S::FnDecl)
                let v = self.scoped(rhs, env)?;
                *env = bind(env, name, v.clone());
                Ok(v)
            }
            S::FnDecl(name, params, ret, body) => self.declare(name, params, ret, body, env),
            S::Destruct(names, rhs) => {
                let v = self.scoped(rhs, env)?;
                let V::Tup(items) = &v else { return untracked(&v, "destructuring") };
                for (n, item) in names.iter().zip(items.iter()) {
                    *env = bind(env, n, item.clone());
                }
                Ok(v)
            }
            S::Block(body) => self.block(body, env),
            S::If(c, t, e) => {
                let c = self.expr(c, env)?;
                match c {
                    V::Bool(true) => self.scoped(t, env),
                    V::Bool(false) => match e {
                        Some(e) => self.scoped(e, env),
                        None => Ok(V::Void),
                    },
                    V::Unspec => giveup("condition depends on an unspecified value"),
                    _ => giveup("non-bool condition"),
                }
            }
            S::IfSet(name, ty, e, t, el) => {
                let v = self.expr(e, env)?;
                let Some(vt) = tag(&v) else { return untracked(&v, "type test") };
                if sub(&vt, ty) {
                    let inner = bind(env, name, v);
                    self.scoped(t, &inner)
                } else {
                    match el {
                        Some(el) => self.scoped(el, env),
                        None => Ok(V::Void),
                    }
                }
            }
            S::Match(e, arms) => {
                let v = self.expr(e, env)?;
                for arm in arms {
                    match arm {
                        Arm::Other(b) => return self.scoped(b, env),
                        Arm::Type(name, ty, b) => {
                            let Some(vt) = tag(&v) else { return untracked(&v, "type arm") };
                            if sub(&vt, ty) {
                                let inner = bind(env, name, v);
                                return self.scoped(b, &inner);
                            }
                        }
                        Arm::Value(cands, b) => {
                            for c in cands {
                                let cv = self.expr(c, env)?;
                                if equal(&cv, &v)? {
                                    return self.scoped(b, env);
                                }
                            }
                        }
                    }
                }
                giveup("no match arm covers the value")
            }
            S::Loop(b) => {
                loop {
                    self.tick()?;
                    match self.scoped(b, env) {
                        Ok(_) | Err(Flow::Continue) => {}
                        Err(Flow::Break) => break,
                        Err(other) => return Err(other),
                    }
                }
                Ok(V::Void)
            }
            S::While(c, b) => {
                loop {
                    self.tick()?;
                    match self.expr(c, env)? {
                        V::Bool(true) => {}
                        V::Bool(false) => break,
                        _ => return giveup("loop condition depends on an unspecified value"),
                    }
                    match self.scoped(b, env) {
                        Ok(_) | Err(Flow::Continue) => {}
                        Err(Flow::Break) => break,
                        Err(other) => return Err(other),
                    }
                }
                Ok(V::Void)
            }
            S::WhileSet(name, ty, e, b) => {
                loop {
                    self.tick()?;
                    let v = self.expr(e, env)?;
                    let Some(vt) = tag(&v) else { return untracked(&v, "type test") };
                    if !sub(&vt, ty) {
                        break;
                    }
                    let inner = bind(env, name, v);
                    match self.scoped(b, &inner) {
                        Ok(_) | Err(Flow::Continue) => {}
                        Err(Flow::Break) => break,
                        Err(other) => return Err(other),
                    }
                }
                Ok(V::Void)
            }
            S::For(name, it, b) => {
                let it = self.expr(it, env)?;
                loop {
                    self.tick()?;
                    let Some((more, x)) = self.pull(&it)? else { break };
                    if !more {
                        break;
                    }
                    let inner = bind(env, name, x);
                    match self.scoped(b, &inner) {
                        Ok(_) | Err(Flow::Continue) => {}
                        Err(Flow::Break) => break,
                        Err(other) => return Err(other),
                    }
                }
                Ok(V::Void)
            }
            S::Break => Err(Flow::Break),
            S::Continue => Err(Flow::Continue),
            S::Return(None) => Err(Flow::Return(V::Void)),
            S::Return(Some(s)) => {
                let v = self.scoped(s, env)?;
                Err(Flow::Return(v))
            }
        }
    }

    fn declare(&mut self, name: &str, params: &[(String, Ty)], ret: &Ty, body: &[S], env: &mut Env) -> R<V> {
        let f = V::Fun(Rc::new(FunV::Closure {
            params: params.to_vec(),
            ret: ret.clone(),
            body: Rc::new(body.to_vec()),
            env: env.clone(),
            self_name: Some(name.to_string()),
        }));
        *env = bind(env, name, f.clone());
        Ok(f)
    }

    /// one step of an iterator: Some((flag, payload)); None if the result is not a (bool, x) pair
    fn pull(&mut self, it: &V) -> R<Option<(bool, V)>> {
        self.pulls += 1;
        let r = self.call(it, &[])?;
        match &r {
            V::Tup(t) if t.len() == 2 => match &t[0] {
                V::Bool(b) => Ok(Some((*b, t[1].clone()))),
                V::Unspec => giveup("iterator flag unspecified"),
                _ => Ok(None),
            },
            _ => Ok(None),
        }
    }

    pub fn call(&mut self, f: &V, args: &[V]) -> R<V> {
        self.tick()?;
        self.calls += 1;
        let V::Fun(fun) = f else { return untracked(f, "call") };
        if self.depth > 150 {
            return giveup("reference recursion depth");
        }
        match &**fun {
            FunV::Closure { params, body, env, self_name, .. } => {
                let mut inner = env.clone();
                if let Some(n) = self_name {
                    inner = bind(&inner, n, f.clone());
                }
                if params.len() != args.len() {
                    return giveup("arity mismatch in reference call");
                }
                for ((n, _), a) in params.iter().zip(args) {
                    inner = bind(&inner, n, a.clone());
                }
                self.depth += 1;
                let r = self.block(body, &inner);
                self.depth -= 1;
                match r {
                    Ok(_) => Ok(V::Void), // a function body's value is only what `return` yields
                    Err(Flow::Return(v)) => Ok(v),
                    Err(Flow::Break) | Err(Flow::Continue) => giveup("break/continue escaped a function"),
                    Err(other) => Err(other),
                }
            }
            FunV::ArrIter { items, pos } => {
                pos.set(pos.get().saturating_add(1));
                let i = pos.get();
                if i >= 0 && (i as usize) < items.items.len() {
                    Ok(tup(vec![V::Bool(true), items.items[i as usize].clone()]))
                } else {
                    Ok(tup(vec![V::Bool(false), V::Unspec]))
                }
            }
            FunV::Map { src, f } => {
                let Some((more, x)) = self.pull(src)? else { return untracked(src, "map source pull") };
                if !more {
                    return Ok(tup(vec![V::Bool(false), V::Unspec]));
                }
                let y = self.call(f, &[x])?;
                Ok(tup(vec![V::Bool(true), y]))
            }
            FunV::Filter { src, p } => loop {
                self.tick()?;
                let Some((more, x)) = self.pull(src)? else { return untracked(src, "filter source pull") };
                if !more {
                    return Ok(tup(vec![V::Bool(false), V::Unspec]));
                }
                match self.call(p, &[x.clone()])? {
                    V::Bool(true) => return Ok(tup(vec![V::Bool(true), x])),
                    V::Bool(false) => {}
                    _ => return giveup("predicate result unspecified"),
                }
            },
            FunV::TypeFilter { src, ty } => loop {
                self.tick()?;
                let Some((more, x)) = self.pull(src)? else { return untracked(src, "type filter source pull") };
                if !more {
                    return Ok(tup(vec![V::Bool(false), V::Unspec]));
                }
                let Some(xt) = tag(&x) else { return untracked(&x, "type filter") };
                if sub(&xt, ty) {
                    return Ok(tup(vec![V::Bool(true), x]));
                }
            },
        }
    }

    fn num2(&mut self, op: &str, a: &V, b: &V) -> R<V> {
        match (a, b) {
            (V::Unspec, _) | (_, V::Unspec) => giveup("arithmetic on an unspecified value"),
            (V::Int(x), V::Int(y)) => match int_oracle(op, *x, *y) {
                Exp::Int(v) => Ok(V::Int(v)),
                Exp::Bool(v) => Ok(V::Bool(v)),
                Exp::Err(k) => Err(Flow::Err(k)),
                Exp::Float(_) => unreachable!(),
            },
            (V::Float(x), V::Float(y)) if !matches!(op, "%" | "<<" | ">>" | "&" | "|" | "^") => match float_oracle(op, *x, *y) {
                Exp::Float(v) => Ok(V::Float(v)),
                Exp::Bool(v) => Ok(V::Bool(v)),
                _ => unreachable!(),
            },
            (V::Bool(x), V::Bool(y)) if matches!(op, "&" | "|" | "^") => Ok(V::Bool(match op {
                "&" => *x && *y,
                "|" => *x || *y,
                _ => x != y,
            })),
            (V::Str(x), V::Str(y)) if op == "+" => Ok(V::Str(Rc::from(format!("{x}{y}")))),
            (V::Arr(x), V::Arr(y)) if op == "+" => {
                if x.items.is_empty() {
                    return Ok(V::Arr(y.clone()));
                }
                if y.items.is_empty() {
                    return Ok(V::Arr(x.clone()));
                }
                let elem = match (&x.elem, &y.elem) {
                    (None, None) => None,
                    _ => match (elem_tag(x), elem_tag(y)) {
                        (Some(p), Some(q)) => Some(Ty::union([p, q])),
                        _ => return giveup("array element type not tracked"),
                    },
                };
                let items = x.items.iter().chain(y.items.iter()).cloned().collect();
                Ok(V::Arr(Rc::new(ArrV { items, elem })))
            }
            _ => giveup("operator applied to operands the reference does not model"),
        }
    }

    fn binop(&mut self, op: &str, a: &V, b: &V) -> R<V> {
        match op {
            "==" => Ok(V::Bool(equal(a, b)?)),
            "!=" => Ok(V::Bool(!equal(a, b)?)),
            _ => self.num2(op, a, b),
        }
    }

    fn seq_items(&mut self, v: &V) -> R<(Vec<V>, bool)> {
        match v {
            V::Arr(a) => Ok((a.items.clone(), false)),
            V::Str(s) => Ok((s.chars().map(|c| V::Str(Rc::from(c.to_string()))).collect(), true)),
            V::Unspec => giveup("indexing an unspecified value"),
            _ => giveup("indexing a non-sequence"),
        }
    }

    fn int_of(&mut self, v: V) -> R<i64> {
        match v {
            V::Int(i) => Ok(i),
            V::Unspec => giveup("unspecified value used as an int"),
            _ => giveup("non-int where an int is required"),
        }
    }

    pub fn expr(&mut self, e: &E, env: &Env) -> R<V> {
        self.tick()?;
        match e {
            E::Int(v) => Ok(V::Int(*v)),
            E::Float(v) => Ok(V::Float(*v)),
            E::Str(s) => Ok(V::Str(Rc::from(s.as_str()))),
            E::Bool(b) => Ok(V::Bool(*b)),
            E::Void => Ok(V::Void),
            E::Var(n) => {
                self.lookups += 1;
                match lookup(env, n) {
                    Some(v) => Ok(v),
                    None => giveup(&format!("reference: unbound name {n}")),
                }
            }
            E::Un(op, a) => {
                let v = self.expr(a, env)?;
                match (*op, v) {
                    (_, V::Unspec) => giveup("prefix operator on an unspecified value"),
                    ("!", V::Bool(b)) => Ok(V::Bool(!b)),
                    ("!", V::Int(i)) => match int_unary_oracle("!", i) {
                        Exp::Int(v) => Ok(V::Int(v)),
                        _ => unreachable!(),
                    },
                    ("-", V::Int(i)) => match int_unary_oracle("-", i) {
                        Exp::Int(v) => Ok(V::Int(v)),
                        _ => unreachable!(),
                    },
                    ("-", V::Float(f)) => Ok(V::Float(-f)),
                    ("*", V::Cell(c)) => Ok(c.val.borrow().clone()),
                    _ => giveup("prefix operator on an operand the reference does not model"),
                }
            }
            E::Bin(op, a, b) => {
                let op = *op;
                if op == "&&" || op == "||" {
                    let l = self.expr(a, env)?;
                    return match (op, l) {
                        ("&&", V::Bool(false)) => Ok(V::Bool(false)),
                        ("||", V::Bool(true)) => Ok(V::Bool(true)),
                        (_, V::Bool(_)) => self.expr(b, env),
                        _ => giveup("logic on an unspecified value"),
                    };
                }
                let l = self.expr(a, env)?;
                let r = self.expr(b, env)?;
                match op {
                    "=" => {
                        let V::Cell(c) = &l else { return untracked(&l, "assignment") };
                        *c.val.borrow_mut() = r.clone();
                        Ok(r)
                    }
                    "+=" | "-=" | "*=" | "/=" | "%=" | "**=" | "<<=" | ">>=" | "&=" | "|=" | "^=" => {
                        let V::Cell(c) = &l else { return untracked(&l, "assignment") };
                        let cur = c.val.borrow().clone();
                        let nv = self.num2(&op[..op.len() - 1], &cur, &r)?;
                        *c.val.borrow_mut() = nv.clone();
                        Ok(nv)
                    }
                    "@" => Ok(V::Fun(Rc::new(FunV::Map { src: l, f: r }))),
                    "?" => Ok(V::Fun(Rc::new(FunV::Filter { src: l, p: r }))),
                    "\\" => {
                        let elem = match tag(&l) {
                            Some(Ty::Fun(_, ret)) => match *ret {
                                Ty::Tup(ts) if ts.len() == 2 => Some(ts[1].clone()),
                                _ => None,
                            },
                            _ => None,
                        };
                        let (mut yes, mut no) = (Vec::new(), Vec::new());
                        loop {
                            self.tick()?;
                            let Some((more, x)) = self.pull(&l)? else { break };
                            if !more {
                                break;
                            }
                            match self.call(&r, &[x.clone()])? {
                                V::Bool(true) => yes.push(x),
                                V::Bool(false) => no.push(x),
                                _ => return giveup("predicate result unspecified"),
                            }
                        }
                        // the stored element type of both parts is the iterator's declared element type
                        Ok(tup(vec![
                            V::Arr(Rc::new(ArrV { items: yes, elem: elem.clone() })),
                            V::Arr(Rc::new(ArrV { items: no, elem })),
                        ]))
                    }
                    _ => self.binop(op, &l, &r),
                }
            }
            E::Reduce(it, init, f) => {
                let it = self.expr(it, env)?;
                let mut acc = self.expr(init, env)?;
                let f = self.expr(f, env)?;
                loop {
                    self.tick()?;
                    let Some((more, x)) = self.pull(&it)? else { break };
                    if !more {
                        break;
                    }
                    acc = self.call(&f, &[acc, x])?;
                }
                Ok(acc)
            }
            E::Post(op, a) => {
                let v = self.expr(a, env)?;
                match *op {
                    "~" => {
                        let V::Arr(items) = &v else { return untracked(&v, "~") };
                        Ok(V::Fun(Rc::new(FunV::ArrIter { items: items.clone(), pos: Cell::new(-1) })))
                    }
                    "$]" => {
                        let mut out = Vec::new();
                        loop {
                            self.tick()?;
                            let Some((more, x)) = self.pull(&v)? else { break };
                            if !more {
                                break;
                            }
                            out.push(x);
                        }
                        Ok(arr(out))
                    }
                    "$&&" | "$||" => {
                        let all = *op == "$&&";
                        loop {
                            self.tick()?;
                            let Some((more, x)) = self.pull(&v)? else { break };
                            if !more {
                                break;
                            }
                            match x {
                                V::Bool(b) if b != all => return Ok(V::Bool(!all)),
                                V::Bool(_) => {}
                                other => return untracked(&other, "bool reduce"),
                            }
                        }
                        Ok(V::Bool(all))
                    }
                    _ => {
                        // folds: "$+i" "$+f" "$+s" "$*i" "$*f" "$&" "$|"
                        let (mut acc, bop): (V, &str) = match *op {
                            "$+i" => (V::Int(0), "+"),
                            "$+f" => (V::Float(0.0), "+"),
                            "$+s" => (V::Str(Rc::from("")), "+"),
                            "$*i" => (V::Int(1), "*"),
                            "$*f" => (V::Float(1.0), "*"),
                            "$+n" => (V::Int(0), "+"),
                            "$*n" => (V::Int(1), "*"),
                            "$&" => (V::Int(-1), "&"),
                            "$|" => (V::Int(0), "|"),
                            other => return giveup(&format!("unknown postfix {other}")),
                        };
                        let mut pulled = 0u32;
                        loop {
                            self.tick()?;
                            let Some((more, x)) = self.pull(&v)? else { break };
                            if !more {
                                break;
                            }
                            pulled += 1;
                            acc = self.num2(bop, &acc, &x)?;
                        }
                        if pulled == 0 && matches!(*op, "$+f" | "$*f" | "$+s" | "$+n" | "$*n") {
                            // the neutral element is chosen by the iterator's run-time type tag. Where the reference
                            // tracks that tag (a filtered / mapped / partly consumed sequence of floats or strings, a
                            // part of a partition) the result is the typed neutral element; for an untyped empty source
                            // (`[]~`, an empty collect) it is the C01 finding on `$+` / `$*` and left open
                            let elem = match tag(&v) {
                                Some(Ty::Fun(_, ret)) => match *ret {
                                    Ty::Tup(ts) if ts.len() == 2 => Some(ts[1].clone()),
                                    _ => None,
                                },
                                _ => None,
                            };
                            return Ok(match (elem, *op) {
                                (Some(Ty::Float), "$+f") => V::Float(0.0),
                                (Some(Ty::Float), "$*f") => V::Float(1.0),
                                (Some(Ty::Str), "$+s") => V::Str(Rc::from("")),
                                _ => V::Unspec,
                            });
                        }
                        Ok(acc)
                    }
                }
            }
            E::TypeFilter(a, ty) => {
                let src = self.expr(a, env)?;
                Ok(V::Fun(Rc::new(FunV::TypeFilter { src, ty: ty.clone() })))
            }
            E::Call(f, args) => {
                let fv = self.expr(f, env)?;
                let mut vals = Vec::with_capacity(args.len());
                for a in args {
                    vals.push(self.expr(a, env)?);
                }
                if matches!(fv, V::Unspec) {
                    return giveup("call of an unspecified value");
                }
                let r = self.call(&fv, &vals)?;
                if contains_unspec(&r) {
                    self.unspec_manual += 1;
                }
                Ok(r)
            }
            E::Index(a, i) => {
                let s = self.expr(a, env)?;
                let i = self.expr(i, env)?;
                let i = self.int_of(i)?;
                let (items, _) = self.seq_items(&s)?;
                let n = items.len() as i128;
                let idx = if (i as i128) < 0 { n + i as i128 } else { i as i128 };
                if idx < 0 || idx >= n {
                    return Err(Flow::Err(ErrKind::Index));
                }
                Ok(items[idx as usize].clone())
            }
            E::Slice(a, s, e2, st, _) => {
                let seq = self.expr(a, env)?;
                let mut bounds = [None, None, None];
                for (k, b) in [s, e2, st].into_iter().enumerate() {
                    if let Some(b) = b {
                        let v = self.expr(b, env)?;
                        bounds[k] = Some(self.int_of(v)?);
                    }
                }
                let (items, is_str) = self.seq_items(&seq)?;
                let idx = py_slice(items.len(), bounds[0], bounds[1], bounds[2]);
                if is_str {
                    let s: String = idx
                        .iter()
                        .map(|i| match &items[*i] {
                            V::Str(c) => c.to_string(),
                            _ => String::new(),
                        })
                        .collect();
                    Ok(V::Str(Rc::from(s)))
                } else {
                    Ok(arr(idx.iter().map(|i| items[*i].clone()).collect()))
                }
            }
            E::TupAcc(a, k) => match self.expr(a, env)? {
                V::Tup(t) if *k < t.len() => Ok(t[*k].clone()),
                V::Unspec => giveup("tuple access on an unspecified value"),
                _ => giveup("tuple access on a non-tuple"),
            },
            E::Field(a, n) => match self.expr(a, env)? {
                V::Struct(s) => match s.get(n) {
                    Some(v) => Ok(v.clone()),
                    None => giveup("missing field"),
                },
                V::Unspec => giveup("field access on an unspecified value"),
                _ => giveup("field access on a non-struct"),
            },
            E::Arr(items) => {
                let mut out = Vec::with_capacity(items.len());
                for a in items {
                    out.push(self.expr(a, env)?);
                }
                Ok(arr(out))
            }
            E::Rep(v, n) => {
                let v = self.expr(v, env)?;
                let n = self.expr(n, env)?;
                let n = self.int_of(n)?;
                if n < 0 {
                    return Err(Flow::Err(ErrKind::NegLen));
                }
                if n > 100_000 {
                    return giveup("huge repeat");
                }
                let elem = if n == 0 { tag(&v) } else { None };
                if n == 0 && elem.is_none() {
                    // stored element type unknown; harmless unless a type test looks at it
                    return Ok(V::Arr(Rc::new(ArrV { items: Vec::new(), elem: Some(Ty::Any) })));
                }
                Ok(V::Arr(Rc::new(ArrV { items: vec![v; n as usize], elem })))
            }
            E::Tup(items) => {
                let mut out = Vec::with_capacity(items.len());
                for a in items {
                    out.push(self.expr(a, env)?);
                }
                Ok(tup(out))
            }
            E::Struct(fields) => {
                let mut out = BTreeMap::new();
                for (k, a) in fields {
                    let v = self.expr(a, env)?;
                    out.insert(k.clone(), v);
                }
                Ok(V::Struct(Rc::new(out)))
            }
            E::Mut(ty, a) => {
                let v = self.expr(a, env)?;
                Ok(self.new_cell(ty.clone(), v))
            }
            E::MutInf(ty, a) => {
                let v = self.expr(a, env)?;
                Ok(self.new_cell(Some(ty.clone()), v))
            }
            E::Lambda(params, ret, body) => Ok(V::Fun(Rc::new(FunV::Closure {
                params: params.clone(),
                ret: ret.clone(),
                body: Rc::new(body.clone()),
                env: env.clone(),
                self_name: None,
            }))),
            E::Mod(body) => {
                let mut inner = env.clone();
                let mut names: Vec<String> = Vec::new();
                for s in body {
                    self.stm(s, &mut inner)?;
                    match s {
                        S::Let(n, _) | S::FnDecl(n, ..) => names.push(n.clone()),
                        S::Destruct(ns, _) => names.extend(ns.iter().cloned()),
                        _ => {}
                    }
                }
                let mut out = BTreeMap::new();
                for n in names {
                    if let Some(v) = lookup(&inner, &n) {
                        out.insert(n, v);
                    }
                }
                Ok(V::Struct(Rc::new(out)))
            }
            E::Tick(k, _, a) => {
                // the tick helper is a call: its argument is evaluated first, then the id is logged
                let v = self.expr(a, env)?;
                self.log.push(*k);
                Ok(v)
            }
            E::Len(a) => match self.expr(a, env)? {
                V::Arr(x) => Ok(V::Int(x.items.len() as i64)),
                V::Str(s) => Ok(V::Int(s.chars().count() as i64)),
                other => untracked(&other, "len"),
            },
        }
    }
}

/// canonical rendering comparable with `oracle::canon` of the real value; `?` marks unspecified parts
pub fn canon_v(v: &V) -> String {
    let mut cells: Vec<usize> = Vec::new();
    let mut out = String::new();
    canon_into(v, &mut out, &mut cells, 0);
    out
}

fn canon_into(v: &V, out: &mut String, cells: &mut Vec<usize>, depth: usize) {
    use std::fmt::Write;
    if depth > 40 {
        out.push('…');
        return;
    }
    match v {
        V::Unspec => out.push('?'),
        V::Bool(b) => {
            let _ = write!(out, "{b}");
        }
        V::Int(i) => {
            let _ = write!(out, "{i}");
        }
        V::Float(f) => {
            if f.is_nan() {
                out.push_str("NaN");
            } else {
                let _ = write!(out, "{f:?}f");
            }
        }
        V::Str(s) => {
            let _ = write!(out, "{:?}", &**s);
        }
        V::Void => out.push_str("()"),
        V::Fun(_) => out.push_str("<fn>"),
        V::Arr(a) => {
            out.push('[');
            for (i, e) in a.items.iter().enumerate() {
                if i > 0 {
                    out.push_str(", ");
                }
                canon_into(e, out, cells, depth + 1);
            }
            out.push(']');
        }
        V::Tup(t) => {
            out.push('(');
            for (i, e) in t.iter().enumerate() {
                if i > 0 {
                    out.push_str(", ");
                }
                canon_into(e, out, cells, depth + 1);
            }
            out.push(')');
        }
        V::Struct(s) => {
            out.push_str("struct{");
            for (i, (k, e)) in s.iter().enumerate() {
                if i > 0 {
                    out.push_str(", ");
                }
                let _ = write!(out, "{k}=");
                canon_into(e, out, cells, depth + 1);
            }
            out.push('}');
        }
        V::Cell(c) => {
            if let Some(pos) = cells.iter().position(|x| *x == c.id) {
                let _ = write!(out, "<cell#{pos}>");
                return;
            }
            cells.push(c.id);
            let _ = write!(out, "<cell#{} ", cells.len() - 1);
            let content = c.val.borrow().clone();
            canon_into(&content, out, cells, depth + 1);
            out.push('>');
        }
    }
}

// ---------------------------------------------------------------------------------------------
// comparison of a reference value with the real value (unspecified parts are wildcards)

use simplesl::variable::Variable;

/// Ok(()) if the real value is what the reference predicts; cells are matched up to identity isomorphism
pub fn compare(v: &V, r: &Variable) -> Result<(), String> {
    let mut map: Vec<(usize, usize)> = Vec::new();
    cmp(v, r, &mut map, 0)
}

fn cmp(v: &V, r: &Variable, map: &mut Vec<(usize, usize)>, depth: usize) -> Result<(), String> {
    if depth > 60 {
        return Ok(());
    }
    let mismatch = || Err(format!("expected {} got {}", canon_v(v), crate::oracle::canon(r)));
    match (v, r) {
        (V::Unspec, _) => Ok(()),
        (V::Int(a), Variable::Int(b)) if a == b => Ok(()),
        (V::Float(a), Variable::Float(b)) if (a.is_nan() && b.is_nan()) || a.to_bits() == b.to_bits() => Ok(()),
        (V::Str(a), Variable::String(b)) if **a == **b => Ok(()),
        (V::Bool(a), Variable::Bool(b)) if a == b => Ok(()),
        (V::Void, Variable::Void) => Ok(()),
        (V::Fun(_), Variable::Function(_)) => Ok(()),
        (V::Arr(a), Variable::Array(b)) => {
            if a.items.len() != b.len() {
                return mismatch();
            }
            for (x, y) in a.items.iter().zip(b.iter()) {
                cmp(x, y, map, depth + 1)?;
            }
            Ok(())
        }
        (V::Tup(a), Variable::Tuple(b)) => {
            if a.len() != b.len() {
                return mismatch();
            }
            for (x, y) in a.iter().zip(b.iter()) {
                cmp(x, y, map, depth + 1)?;
            }
            Ok(())
        }
        (V::Struct(a), Variable::Struct(b)) => {
            if a.len() != b.len() {
                return mismatch();
            }
            for (k, x) in a.iter() {
                let Some(y) = b.get(k.as_str()) else { return mismatch() };
                cmp(x, y, map, depth + 1)?;
            }
            Ok(())
        }
        (V::Cell(c), Variable::Mut(m)) => {
            let ptr = std::sync::Arc::as_ptr(m) as usize;
            if let Some((_, p)) = map.iter().find(|(id, _)| *id == c.id) {
                return if *p == ptr { Ok(()) } else { Err(format!("aliasing differs: two uses of one cell are different cells in {}", crate::oracle::canon(r))) };
            }
            if map.iter().any(|(_, p)| *p == ptr) {
                return Err("aliasing differs: two different cells are one cell in the real value".to_string());
            }
            map.push((c.id, ptr));
            let content = match m.variable.try_read() {
                Ok(g) => g.clone(),
                Err(_) => return Ok(()),
            };
            let expected = c.val.borrow().clone();
            cmp(&expected, &content, map, depth + 1)
        }
        _ => mismatch(),
    }
}
