pub mod c08;
pub mod c09;
