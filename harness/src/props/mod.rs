pub mod c03;
pub mod c08;
pub mod c09;
pub mod c10;
pub mod c15;
pub mod c20;
pub mod diff;
pub mod sound;
