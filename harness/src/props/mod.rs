pub mod c08;
