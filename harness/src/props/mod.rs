pub mod c08;
pub mod c09;
pub mod c20;
