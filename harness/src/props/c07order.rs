//! C07 / C12 value-level families with computed expectations:
//! (a) an operand that *reads* a cell next to an operand that *writes* it, in every operand position the property
//!     lists (binary operators, arguments, array / tuple / struct elements, slice bounds, function-then-arguments,
//!     target-then-value): left to right evaluation decides the value, so no effect log is needed;
//! (b) `match` value candidates: all small layouts of constant and effectful candidates over a scrutinee that the
//!     folding pass knows / does not know - candidates are evaluated top to bottom, left to right, until the first
//!     equal one, each at most once.
use crate::oracle::canon;
use crate::props::c08::{Exp, INT_BIN, int_oracle};
use crate::real::{self, Outcome};
use crate::util::{Cfg, Report, truncate};

struct Fam<'a> {
    rep: &'a mut Report,
    prop: &'a str,
}

impl Fam<'_> {
    /// `want`: canonical text of the expected value, or `error:<Kind>`
    fn judge(&mut self, label: &str, src: &str, want: &str) {
        self.rep.evaluations += 1;
        self.rep.count("order-family-cases");
        self.rep.shape("order_family", label);
        self.rep.distinct_case(&src);
        let out = real::parse_exec(src, true);
        if let Outcome::Panic(p) = &out {
            if p.kind != real::PanicKind::Panic {
                // fuel / depth / memory exhausted: nothing was decided
                self.rep.inconclusive("order-family:resource-or-fuel");
                return;
            }
        }
        let got = match out {
            Outcome::Value(v) => canon(&v),
            Outcome::ExecErr(Some(k), _) => format!("error:{}", k.name()),
            // an operation on constants that always fails may be reported while parsing (C04's allowance)
            Outcome::Rejected(_, Some(k)) => format!("error:{}", k.name()),
            other => other.tag(),
        };
        if got != want {
            self.rep.violation(
                &format!("{}:order-family:{label}", self.prop.to_lowercase()),
                &format!("`{}` gave {}, left-to-right exactly-once evaluation gives {}", truncate(src, 500), truncate(&got, 200), want),
                "diff",
                &format!("#template {want}\n{src}\n"),
            );
        }
    }

    /// the program text in three settings: at top level, inside a function that owns the cell, inside a function
    /// that receives the cell
    fn settings(&mut self, label: &str, setup: &str, expr: &str, want: &str) {
        self.judge(label, &format!("c := mut 5; bump := () -> int {{ c += 2; return *c }}; {setup}r := {expr}; (r, *c)"), want);
        self.judge(label, &format!("f := () -> any {{ c := mut 5; bump := () -> int {{ c += 2; return *c }}; {setup}r := {expr}; return (r, *c) }}; f()"), want);
        self.judge(label, &format!("f := (c: mut int) -> any {{ bump := () -> int {{ c += 2; return *c }}; {setup}r := {expr}; return (r, *c) }}; f(mut 5)"), want);
    }

    fn read_write(&mut self, cfg: &Cfg) {
        let show = |e: &Exp, fin: i64| match e {
            Exp::Int(v) => format!("({v}, {fin})"),
            Exp::Bool(b) => format!("({b}, {fin})"),
            Exp::Float(f) => format!("({f:?}, {fin})"),
            Exp::Err(k) => format!("error:{}", k.name()),
        };
        let mut cell = 0u64;
        for op in INT_BIN {
            cell += 1;
            if !cfg.owns(cell) {
                continue;
            }
            // the writer on the right: the left operand still sees 5; on the left: the right operand already sees 7
            self.settings(&format!("binary:{op}:read-then-call"), "", &format!("*c {op} bump()"), &show(&int_oracle(op, 5, 7), 7));
            self.settings(&format!("binary:{op}:call-then-read"), "", &format!("bump() {op} *c"), &show(&int_oracle(op, 7, 7), 7));
            self.settings(&format!("binary:{op}:read-then-assign"), "", &format!("*c {op} (c += 2)"), &show(&int_oracle(op, 5, 7), 7));
            self.settings(&format!("binary:{op}:assign-then-read"), "", &format!("(c += 2) {op} *c"), &show(&int_oracle(op, 7, 7), 7));
            self.settings(&format!("binary:{op}:read-then-store"), "", &format!("*c {op} (c = 9)"), &show(&int_oracle(op, 5, 9), 9));
            self.settings(&format!("binary:{op}:store-then-read"), "", &format!("(c = 9) {op} *c"), &show(&int_oracle(op, 9, 9), 9));
            self.settings(&format!("binary:{op}:call-then-call"), "", &format!("bump() {op} bump()"), &show(&int_oracle(op, 7, 9), 9));
            self.settings(&format!("binary:{op}:read-via-name"), "d := c; ", &format!("*d {op} bump()"), &show(&int_oracle(op, 5, 7), 7));
            // a constant on one side (an implementation may normalise the operand order): the other side's effects stay put
            self.settings(&format!("binary:{op}:three-operands"), "", &format!("[*c {op} 7, bump() {op} 7, *c {op} 7]"), &{
                match (int_oracle(op, 5, 7), int_oracle(op, 7, 7)) {
                    (Exp::Err(k), _) | (_, Exp::Err(k)) => format!("error:{}", k.name()),
                    (a, b) => {
                        let t = |e: &Exp| match e {
                            Exp::Int(v) => v.to_string(),
                            Exp::Bool(b) => b.to_string(),
                            _ => String::new(),
                        };
                        format!("([{}, {}, {}], 7)", t(&a), t(&b), t(&b))
                    }
                }
            });
        }
        if cfg.shard != 0 {
            return;
        }
        // compound assignments: target, then value, then the content at the moment of the update
        for (op, f) in [("+=", 7i64 + 100), ("-=", 7 - 100), ("*=", 700), ("|=", 7 | 100), ("^=", 7 ^ 100)] {
            self.settings(&format!("compound:{op}:value-writes-target"), "", &format!("c {op} (bump() * 0 + 100)"), &format!("({f}, {f})"));
        }
        self.settings("elements:array", "", "[*c, bump(), *c, bump()]", "([5, 7, 7, 9], 9)");
        self.settings("elements:tuple", "", "(*c, bump(), *c)", "((5, 7, 7), 7)");
        self.settings("elements:struct", "", "struct{x := *c, y := bump(), z := *c}", "(struct{x=5, y=7, z=7}, 7)");
        self.settings("elements:struct-reversed-names", "", "struct{z := *c, y := bump(), x := *c}", "(struct{x=7, y=7, z=5}, 7)");
        self.settings("elements:repeat", "", "[bump(); *c - 5]", "([7, 7], 7)");
        // the element expression of `[v; n]` is evaluated once, before the length, whatever it yields
        self.judge("elements:repeat-of-a-fresh-cell", "n := mut 0; mk := () -> mut int { n += 1; return mut *n }; r := [mk(); 3]; r[0] = 50; ([*r[0], *r[1], *r[2]], *n)", "([50, 50, 50], 1)");
        self.judge("elements:repeat-of-a-fresh-cell", "n := mut 0; mk := () -> mut int { n += 1; return mut *n }; k := () -> int { n += 10; return 2 }; r := [mk(); k()]; r[1] += 5; ([*r[0], *r[1]], *n)", "([6, 6], 11)");
        self.judge("elements:repeat-of-a-fresh-cell", "f := (len: int) -> any { n := mut 0; mk := () -> mut int { n += 1; return mut *n }; r := [mk(); len]; return (std.len(r), *n) }; (f(0), f(1), f(4))", "((0, 1), (1, 1), (4, 1))");
        self.judge("elements:repeat-of-a-fresh-container", "n := mut 0; mk := () -> (mut int, int) { n += 1; return (mut *n, *n) }; r := [mk(); 3]; r[2].0 = 9; ([*r[0].0, *r[1].0], *n)", "([9, 9], 1)");
        self.judge("elements:repeat-of-a-fresh-container", "n := mut 0; mk := () -> [int] { n += 1; return [*n] }; r := [mk(); 3]; (r, *n)", "([[1], [1], [1]], 1)");
        // a value used on both sides of an operation / as its own argument
        for (src, want) in [
            ("a := [1, 2]; a + a", "[1, 2, 1, 2]"),
            ("a := [hi(1), 2]; (a + a, a)", "([1, 2, 1, 2], [1, 2])"),
            ("s := \"ab\"; (s + s, s)", "(\"abab\", \"ab\")"),
            ("c := mut [1]; c += *c; c += *c; *c", "[1, 1, 1, 1]"),
            ("c := mut \"a\"; c += *c; c += *c; *c", "\"aaaa\""),
            ("c := mut 3; c *= *c; c -= *c; *c", "0"),
            ("c := mut 3; r := c = *c + 1; (r, *c)", "(4, 4)"),
            ("a := [1, 2, 3]; (a[a[0]], a[a[0]:a[2]], a[std.len(a) - 1])", "(2, [2, 3], 3)"),
            ("a := [1, 2, 3]; a~ @ (x: int) -> int { return a[x - 1] * 10 } $]", "[10, 20, 30]"),
            ("a := [3, 1, 2]; a~ ? (x: int) -> bool { return x != a[0] } $]", "[1, 2]"),
            ("t := (1, 2); ((t, t).0.1, (t, t).1.0, [t, t][1] == t)", "(2, 1, true)"),
            ("f := (g: any, n: int) -> int { if n == 0 { return 7 } if h: (any, int) -> int = g { return h(h, n - 1) } return 0 - 1 }; f(f, 3)", "7"),
            ("s := struct{a := 1}; u := struct{x := s, y := s}; (u.x == u.y, u.x.a + u.y.a)", "(true, 2)"),
            ("it := [1, 2, 3]~; (it $], it $], it())", "([1, 2, 3], [], (false, 0))"),
            ("a := [[1], [2]]; (a + a)[3] == a[1]", "true"),
            ("x := 5; (x, x) == (x, x)", "true"),
        ] {
            let full = format!("hi := (v: int) -> int {{ return v }}; {src}");
            // the last one observes an exhausted payload: only its first two components are specified
            if src.contains("it())") {
                self.rep.evaluations += 1;
                if let Outcome::Value(v) = real::parse_exec(&format!("hi := (v: int) -> int {{ return v }}; it := [1, 2, 3]~; (it $], it $])"), true) {
                    if canon(&v) != "([1, 2, 3], [])" {
                        self.rep.violation(&format!("{}:order-family:self-application", self.prop.to_lowercase()), &format!("collecting one iterator twice gave {}", canon(&v)), "diff", &full);
                    }
                }
                continue;
            }
            self.judge("self-application", &full, want);
        }
        self.settings("arguments", "g := (x: int, y: int, z: int) -> (int, int, int) { return (x, y, z) }; ", "g(*c, bump(), *c)", "((5, 7, 7), 7)");
        self.settings("arguments:nested-call", "g := (x: int, y: int) -> int { return x * 100 + y }; ", "g(g(*c, bump()), *c)", "(50707, 7)");
        self.settings("function-then-arguments", "fs := [(x: int) -> int { return x + 1000 }, (x: int) -> int { return x + 2000 }, (x: int) -> int { return x + 3000 }]; ", "fs[bump() - 7](*c)", "(1007, 7)");
        self.settings("function-then-arguments:reversed", "fs := [(x: int) -> int { return x + 1000 }, (x: int) -> int { return x + 2000 }, (x: int) -> int { return x + 3000 }]; ", "fs[*c - 5](bump())", "(1007, 7)");
        self.settings("slice-bounds", "a := [10, 11, 12, 13, 14, 15, 16, 17, 18, 19]; ", "a[*c - 5 : bump() : *c - 5]", "([10, 12, 14, 16], 7)");
        self.settings("slice-bounds:reversed", "a := [10, 11, 12, 13, 14, 15, 16, 17, 18, 19]; ", "a[bump() - 5 : *c : 1]", "([12, 13, 14, 15, 16], 7)");
        self.settings("sequence-then-index", "a := [[0, 1, 2, 3, 4, 5, 6, 7, 8, 9], [10, 11, 12, 13, 14, 15, 16, 17, 18, 19]]; ", "a[*c - 5][bump()]", "(7, 7)");
        self.settings("sequence-then-index:reversed", "a := [[0, 1, 2, 3, 4, 5, 6, 7, 8, 9], [10, 11, 12, 13, 14, 15, 16, 17, 18, 19]]; ", "a[bump() - 7][*c]", "(7, 7)");
        self.settings("target-then-value", "cs := [mut 0, mut 0, mut 0]; ", "{ cs[*c - 5] = bump(); [*cs[0], *cs[1], *cs[2]] }", "([7, 0, 0], 7)");
        self.settings("target-then-value:reversed", "cs := [mut 0, mut 0, mut 0]; ", "{ cs[bump() - 5] = *c; [*cs[0], *cs[1], *cs[2]] }", "([0, 0, 7], 7)");
        self.settings("target-then-value:compound", "cs := [mut 1, mut 1, mut 1]; ", "{ cs[*c - 5] += bump(); [*cs[0], *cs[1], *cs[2]] }", "([8, 1, 1], 7)");
        self.settings("logic:and", "", "(*c == 5) && (bump() == 7) && (*c == 7)", "(true, 7)");
        self.settings("logic:or", "", "(*c == 6) || (bump() == 6) || (*c == 7)", "(true, 7)");
        self.settings("concat", "", "[*c] + [bump()] + [*c]", "([5, 7, 7], 7)");
        self.settings("string-concat", "s := (x: int) -> string { return std.convert.to_string(x) }; ", "s(*c) + s(bump()) + s(*c)", "(\"577\", 7)");
        self.settings("iterator-operands", "", "[*c, 1]~ @ (x: int) -> int { return x * bump() } $]", "([35, 9], 9)");
        self.settings("reduce-initial-then-function", "fs := [(a: int, x: int) -> int { return a + x }, (a: int, x: int) -> int { return a * 100 + x }]; ", "[1]~ $ (*c) fs[bump() - 7]", "(6, 7)");
    }

    fn match_candidates(&mut self, cfg: &Cfg) {
        // a candidate: constant 1 / 3 / 4, or an effectful call yielding 1 / 3 / 4 (the scrutinee is 3)
        #[derive(Clone, Copy)]
        struct Cand {
            eff: bool,
            v: i64,
        }
        let kinds = [Cand { eff: false, v: 1 }, Cand { eff: false, v: 3 }, Cand { eff: true, v: 1 }, Cand { eff: true, v: 3 }, Cand { eff: true, v: 4 }];
        let mut arm_shapes: Vec<Vec<Cand>> = Vec::new();
        for a in kinds {
            arm_shapes.push(vec![a]);
            for b in kinds {
                arm_shapes.push(vec![a, b]);
            }
        }
        let mut layouts: Vec<Vec<Vec<Cand>>> = Vec::new();
        for a in &arm_shapes {
            layouts.push(vec![a.clone()]);
            for b in &arm_shapes {
                layouts.push(vec![a.clone(), b.clone()]);
            }
        }
        for (li, layout) in layouts.iter().enumerate() {
            if !cfg.owns(li as u64) {
                continue;
            }
            // a layout without any effectful candidate says nothing about order
            if !layout.iter().flatten().any(|c| c.eff) {
                continue;
            }
            let mut tick = 0;
            let mut log: Vec<i64> = Vec::new();
            let mut taken: Option<usize> = None;
            let mut arms = String::new();
            for (ai, arm) in layout.iter().enumerate() {
                let mut texts = Vec::new();
                for c in arm {
                    if c.eff {
                        tick += 1;
                        texts.push(format!("t({tick}, {})", c.v));
                        if taken.is_none() {
                            log.push(tick);
                        }
                    } else {
                        texts.push(c.v.to_string());
                    }
                    if taken.is_none() && c.v == 3 {
                        taken = Some(ai);
                    }
                }
                arms.push_str(&format!("{} => {}, ", texts.join(", "), (ai + 1) * 10));
            }
            let result = taken.map(|a| (a as i64 + 1) * 10).unwrap_or(0);
            let want = format!("({result}, [{}])", log.iter().map(|k| k.to_string()).collect::<Vec<_>>().join(", "));
            let pre = "lg := mut [int] []; t := (k: int, v: int) -> int { lg += [k]; return v }; hi := (v: int) -> int { return v }; ";
            for (form, head, scrutinee, tail) in [
                ("literal-scrutinee", "", "3", ""),
                ("named-constant-scrutinee", "x := 3; ", "x", ""),
                ("run-time-scrutinee", "x := hi(3); ", "x", ""),
                ("computed-constant-scrutinee", "", "1 + 2", ""),
            ] {
                let _ = tail;
                self.judge(&format!("match-candidates:{form}"), &format!("{pre}{head}r := match {scrutinee} {{ {arms}=> 0, }}; (r, *lg)"), &want);
            }
            self.judge("match-candidates:parameter-scrutinee", &format!("{pre}f := (x: int) -> int {{ return match x {{ {arms}=> 0, }} }}; r := f(3); (r, *lg)"), &want);
            self.judge("match-candidates:captured-scrutinee", &format!("{pre}mk := (x: int) -> () -> int {{ return () -> int {{ return match x {{ {arms}=> 0, }} }} }}; g := mk(3); r := g(); (r, *lg)"), &want);
            self.judge("match-candidates:union-scrutinee", &format!("{pre}x := [3, \"s\"][hi(0)]; r := match x {{ {arms}=> 0, }}; (r, *lg)"), &want);
        }
    }
}

impl Fam<'_> {
    /// C12: an accepted `match` with type arms takes the first arm whose type the value belongs to - and has one
    fn match_coverage(&mut self, cfg: &Cfg) {
        use crate::oracle::{Ty, inhabits};
        use simplesl::variable::Type;
        use std::str::FromStr;
        for (idx, case) in crate::optyping::match_coverage_cases().iter().enumerate() {
            if !cfg.owns(idx as u64) {
                continue;
            }
            if matches!(real::parse_exec(&format!("{} f", case.decl), true), Outcome::Rejected(..)) {
                self.rep.count("match-coverage:rejected");
                continue;
            }
            self.rep.count("match-coverage:accepted");
            let arm_types: Vec<Option<Ty>> = case.arms.iter().map(|a| Type::from_str(a).ok().map(|t| Ty::from_real(&t))).collect();
            for (v, call) in case.values.iter().zip(&case.calls) {
                let Outcome::Value(val) = real::parse_exec(v, false) else { continue };
                let taken = arm_types.iter().position(|t| t.as_ref().is_some_and(|t| inhabits(&val, t)));
                let want = match taken {
                    Some(i) => (i + 1).to_string(),
                    None => {
                        self.rep.violation(
                            &format!("{}:match-coverage:accepted-match-has-no-arm", self.prop.to_lowercase()),
                            &format!("`{}` is accepted, but no arm takes the value {v} (which the scrutinee type {} admits)", case.decl, case.scrutinee),
                            "diff",
                            &format!("#template <an arm>\n{call}\n"),
                        );
                        continue;
                    }
                };
                self.judge("match-coverage:arm-taken", call, &want);
            }
        }
    }
}

impl Fam<'_> {
    /// C12: loops evaluate to (), wherever their exits stand; a function never falls out of a loop into nothing
    fn loop_values(&mut self, cfg: &Cfg) {
        for (idx, (src, want)) in crate::optyping::loop_value_programs().iter().enumerate() {
            if !cfg.owns(idx as u64) {
                continue;
            }
            self.rep.evaluations += 1;
            self.rep.count("loop-value-cases");
            let out = real::parse_exec(src, true);
            if let Outcome::Panic(p) = &out {
                if p.kind != real::PanicKind::Panic {
                    self.rep.inconclusive("loop-value:resource-or-fuel");
                    continue;
                }
            }
            let got = match &out {
                Outcome::Value(v) => canon(v),
                other => other.tag(),
            };
            let ok = match want.as_str() {
                // bound to a name: (r, k) with r == ()
                "" => got.starts_with("((), ") || matches!(out, Outcome::Rejected(..)),
                "<int-or-rejected>" => matches!(out, Outcome::Rejected(..)) || matches!(out, Outcome::Value(simplesl::variable::Variable::Int(_))),
                w => got == w || matches!(out, Outcome::Rejected(..)),
            };
            if !ok {
                self.rep.violation(&format!("{}:loop-value", self.prop.to_lowercase()), &format!("`{}` gave {}, expected {}", truncate(src, 300), truncate(&got, 100), if want.is_empty() { "((), k)" } else { want }), "diff", &format!("#template {want}\n{src}\n"));
            }
        }
    }
}

pub fn run(cfg: &Cfg, rep: &mut Report, prop: &str) {
    let mut fam = Fam { rep, prop };
    fam.read_write(cfg);
    fam.match_candidates(cfg);
    if prop == "C12" {
        fam.match_coverage(cfg);
        fam.loop_values(cfg);
    }
}
