//! C01 (type soundness monitor on every instruction result / call / return) and
//! C02 (panic monitor with attribution) over generated programs, their accepted mutants and
//! host-API calls of every function value they yield.
use crate::ast::{Mode, PRELUDE, S};
use crate::genp::Profile;
use crate::oracle::{Ty, ValueGen, canon, cells_ok, inhabits_why};
use crate::prog;
use crate::props::c03;
use crate::props::diff::gen_program;
use crate::real::{self, Outcome, PanicKind};
use crate::util::{Cfg, Deadline, Obj, Report, Rng, truncate};
use simplesl::variable::{ReturnType, Type, Typed, Variable};
use simplesl::{Code, Interpreter, function::Function, verif};
use std::cell::RefCell;
use std::collections::BTreeSet;
use std::panic::{AssertUnwindSafe, catch_unwind};
use std::rc::Rc;
use std::sync::Arc;

#[derive(Default, Clone)]
pub struct SoundState {
    pub exec_events: u64,
    pub judged: u64,
    pub nontrivial: u64,
    pub calls_judged: u64,
    pub returns_judged: u64,
    pub helper_returns_judged: u64,
    pub type_unavailable: u64,
    pub cells_checked: u64,
    /// (key, description)
    pub violations: Vec<(String, String)>,
    /// a known-class finding was seen earlier in this execution: later events may be its consequences
    pub tainted: Option<String>,
    pub downstream: u64,
    pub triples: BTreeSet<String>,
    pub kinds: BTreeSet<String>,
    pub samples: Vec<(String, String, String)>,
}

fn shape(t: &Ty) -> String {
    match t {
        Ty::Bool => "bool".into(),
        Ty::Int => "int".into(),
        Ty::Float => "float".into(),
        Ty::Str => "string".into(),
        Ty::Void => "()".into(),
        Ty::Any => "any".into(),
        Ty::Never => "!".into(),
        Ty::Arr(e) => format!("[{}]", shape1(e)),
        Ty::Tup(ts) => format!("({})", ts.iter().map(shape1).collect::<Vec<_>>().join(",")),
        Ty::Fun(..) => "fn".into(),
        Ty::Mut(e) => format!("mut {}", shape1(e)),
        Ty::Struct(_) => "struct".into(),
        Ty::Union(ms) => ms.iter().map(shape1).collect::<Vec<_>>().join("|"),
    }
}

fn shape1(t: &Ty) -> String {
    match t {
        Ty::Arr(_) => "[..]".into(),
        Ty::Tup(_) => "(..)".into(),
        Ty::Union(_) => "union".into(),
        Ty::Mut(_) => "mut".into(),
        other => shape(other),
    }
}

fn vkind(v: &Variable) -> String {
    match v {
        Variable::Bool(_) => "bool".into(),
        Variable::Int(_) => "int".into(),
        Variable::Float(_) => "float".into(),
        Variable::String(_) => "string".into(),
        Variable::Function(_) => "fn".into(),
        Variable::Array(a) => {
            if a.is_empty() {
                "[]".into()
            } else {
                "[..]".into()
            }
        }
        Variable::Tuple(t) => format!("({})", t.iter().map(|e| vkind1(e)).collect::<Vec<_>>().join(",")),
        Variable::Mut(_) => "mut".into(),
        Variable::Struct(_) => "struct".into(),
        Variable::Void => "()".into(),
    }
}

fn vkind1(v: &Variable) -> String {
    match v {
        Variable::Tuple(_) => "(..)".into(),
        other => vkind(other),
    }
}

/// None = belongs; Some(why) otherwise. Both the runtime tag and the contents are judged.
fn judge_value(v: &Variable, t: &Type) -> Option<String> {
    let ty = Ty::from_real(t);
    if let Some(why) = inhabits_why(v, &ty) {
        return Some(format!("contents: {why}"));
    }
    let tag_ok = catch_unwind(AssertUnwindSafe(|| v.as_type().matches(t))).unwrap_or(true);
    if !tag_ok {
        return Some(format!("runtime type {} does not match", Ty::from_real(&v.as_type()).text()));
    }
    None
}

fn exhausted_step(v: &Variable) -> bool {
    matches!(v, Variable::Tuple(t) if t.len() == 2 && t[0] == Variable::Bool(false))
}

struct SoundMonitor(Rc<RefCell<SoundState>>);

impl SoundMonitor {
    fn report(&self, st: &mut SoundState, key: String, what: String, known_class: bool) {
        if let Some(t) = &st.tainted {
            let _ = t;
            st.downstream += 1;
            return;
        }
        // events arrive innermost first, so the first violation of an execution is the origin;
        // everything after it in the same execution may be the same value flowing on
        let _ = known_class;
        st.tainted = Some(key.clone());
        if st.violations.len() < 4 {
            st.violations.push((key, what));
        }
    }
}

impl verif::Monitor for SoundMonitor {
    fn on_exec(&mut self, ev: &verif::ExecEvent) {
        let mut st = self.0.borrow_mut();
        st.exec_events += 1;
        let kind = if ev.detail.is_empty() { ev.kind.to_string() } else { format!("{}:{}", ev.kind, ev.detail) };
        if st.kinds.len() < 100 {
            st.kinds.insert(kind.clone());
        }
        if ev.in_helper {
            return;
        }
        let verif::Outcome::Value(v) = &ev.outcome else { return };
        let Some(t) = &ev.static_type else {
            st.type_unavailable += 1;
            return;
        };
        st.judged += 1;
        let ty = Ty::from_real(t);
        if ty != Ty::Any && ev.kind != "Variable" {
            st.nontrivial += 1;
            if st.triples.len() < 4000 {
                st.triples.insert(format!("{kind} {} <- {}", shape(&ty), vkind(v)));
            }
            if st.samples.len() < 2 && ev.kind != "LocalVariable" {
                st.samples.push((ev.src.to_string(), ty.text(), truncate(&canon(v), 120)));
            }
        }
        if let Some(why) = judge_value(v, t) {
            let is_call = ev.detail == "FunctionCall";
            if is_call && exhausted_step(v) {
                if let Some(h) = ev.last_return_helper {
                    let key = format!("c01:exhausted-iterator-payload:{h}");
                    let what = format!("`{}` : static type {} but an exhausted step of the {h} iterator yielded {} ({why})", truncate(&ev.src, 160), ty.text(), truncate(&canon(v), 160));
                    self.report(&mut st, key, what, true);
                    return;
                }
            }
            let key = format!("c01:exec:{kind}:{}<-{}", shape(&ty), vkind(v));
            let what = format!("`{}` ({kind}): static type {} does not admit the value {}: {why}", truncate(&ev.src, 200), ty.text(), truncate(&canon(v), 200));
            self.report(&mut st, key, what, false);
        }
    }

    fn on_call(&mut self, ev: &verif::CallEvent) {
        if ev.helper.is_some() {
            return;
        }
        let mut st = self.0.borrow_mut();
        let Type::Function(ft) = ev.function.as_type() else { return };
        for (n, (param, arg)) in ft.params.iter().zip(&ev.args).enumerate() {
            st.calls_judged += 1;
            match arg {
                None => {
                    let key = "c01:call:parameter-unbound".to_string();
                    let what = format!("parameter #{n} of a called function is not bound");
                    self.report(&mut st, key, what, false);
                }
                Some(v) => {
                    if let Some(why) = judge_value(v, param) {
                        let ty = Ty::from_real(param);
                        let key = format!("c01:call-arg:{}<-{}{}", shape(&ty), vkind(v), if ev.native { ":native" } else { "" });
                        let what = format!("argument {} bound to parameter #{n}: {} : {why}", truncate(&canon(v), 160), ty.text());
                        self.report(&mut st, key, what, false);
                    }
                }
            }
        }
    }

    fn on_return(&mut self, ev: &verif::ReturnEvent) {
        let Ok(v) = ev.result else { return };
        let mut st = self.0.borrow_mut();
        let declared = ev.function.return_type();
        match ev.helper {
            None => {
                st.returns_judged += 1;
                if let Some(why) = judge_value(v, &declared) {
                    let ty = Ty::from_real(&declared);
                    let key = format!("c01:return:{}<-{}{}", shape(&ty), vkind(v), if ev.native { ":native" } else { "" });
                    let what = format!("function declared to return {} returned {}: {why}", ty.text(), truncate(&canon(v), 200));
                    self.report(&mut st, key, what, false);
                }
            }
            Some(h) => {
                // helper closures are declared over placeholder types and retyped afterwards: a step that
                // carries an element must fit the retyped result; the payload of an exhausted step is D13
                if let Variable::Tuple(t) = v {
                    if t.len() == 2 && t[0] == Variable::Bool(true) {
                        st.helper_returns_judged += 1;
                        if let Some(why) = judge_value(v, &declared) {
                            let ty = Ty::from_real(&declared);
                            let key = format!("c01:helper-step:{h}:{}<-{}", shape(&ty), vkind(v));
                            let what = format!("{h} iterator typed {} produced the step {}: {why}", ty.text(), truncate(&canon(v), 200));
                            self.report(&mut st, key, what, false);
                        }
                    }
                }
            }
        }
    }
}

pub struct Monitored {
    pub outcome: Outcome,
    pub state: SoundState,
    pub final_static: Option<Type>,
}

/// run `f` with the soundness monitor installed
fn monitored<T>(f: impl FnOnce() -> T) -> (Result<T, real::PanicInfo>, SoundState) {
    let st = Rc::new(RefCell::new(SoundState::default()));
    let mon = SoundMonitor(st.clone());
    let r = real::guarded(|| {
        verif::set_want_types(true);
        verif::install(Box::new(mon));
        f()
    });
    verif::uninstall();
    verif::set_fuel(u64::MAX);
    let state = st.borrow().clone();
    (r, state)
}

pub fn run_text(text: &str, fuel: u64) -> Monitored {
    let interp = Interpreter::with_stdlib();
    let code = match real::guarded(|| Code::parse(&interp, text)) {
        Err(p) => return Monitored { outcome: Outcome::Panic(p), state: SoundState::default(), final_static: None },
        Ok(Err(e)) => return Monitored { outcome: Outcome::Rejected(real::error_variant(&e), real::parse_err_kind(&e)), state: SoundState::default(), final_static: None },
        Ok(Ok(c)) => c,
    };
    run_code(&code, fuel)
}

pub fn run_code(code: &Code, fuel: u64) -> Monitored {
    let final_static = real::guarded(|| code.return_type()).ok();
    let (r, mut state) = monitored(|| {
        real::arm(fuel, real::DEFAULT_DEPTH);
        code.exec()
    });
    let outcome = match r {
        Err(p) => Outcome::Panic(p),
        Ok(Ok(v)) => Outcome::Value(v),
        Ok(Err(e)) => Outcome::ExecErr(real::exec_err_kind(&e), format!("{e:?}")),
    };
    if let (Outcome::Value(v), Some(t)) = (&outcome, &final_static) {
        // the type reported for the program is a supertype of the value it yields
        if let Some(why) = judge_value(v, t) {
            if state.tainted.is_none() {
                let ty = Ty::from_real(t);
                state.violations.push((format!("c01:final:{}<-{}", shape(&ty), vkind(v)), format!("program type {} does not admit its result {}: {why}", ty.text(), truncate(&canon(v), 200))));
            } else {
                state.downstream += 1;
            }
        }
        state.cells_checked += 1;
        if let Some(why) = cells_ok(v) {
            if state.tainted.is_none() {
                state.violations.push(("c01:cell-content".into(), why));
            }
        }
    }
    Monitored { outcome, state, final_static }
}

fn collect_functions(v: &Variable, out: &mut Vec<Arc<Function>>, depth: usize) {
    if depth > 4 || out.len() >= 6 {
        return;
    }
    match v {
        Variable::Function(f) => out.push(f.clone()),
        Variable::Tuple(t) => t.iter().for_each(|e| collect_functions(e, out, depth + 1)),
        Variable::Array(a) => a.iter().for_each(|e| collect_functions(e, out, depth + 1)),
        Variable::Struct(s) => s.values().for_each(|e| collect_functions(e, out, depth + 1)),
        _ => {}
    }
}

pub struct Mode2 {
    pub prop: &'static str,
    /// report soundness events (C01) or panics / undocumented errors (C02)
    pub soundness: bool,
}

struct Ctx<'a> {
    rep: &'a mut Report,
    mode: &'a Mode2,
    reported: u32,
    per_key: std::collections::HashMap<String, u32>,
}

impl Ctx<'_> {
    /// report at most two witnesses per key and 40 keys per shard (the rest is only counted)
    fn want(&mut self, key: &str) -> bool {
        let n_keys = self.per_key.len();
        let n = self.per_key.entry(key.to_string()).or_insert(0);
        *n += 1;
        *n <= 2 && n_keys < 40
    }
}

impl Ctx<'_> {
    /// fold one monitored run into the report; returns the violation keys relevant for this property
    fn absorb(&mut self, route: &str, text: &str, m: &Monitored) -> Vec<(String, String)> {
        let rep = &mut *self.rep;
        rep.evaluations += 1;
        rep.count(&format!("{route}:{}", m.outcome.tag().split(':').next().unwrap_or("")));
        if let Outcome::ExecErr(Some(k), _) = &m.outcome {
            rep.shape("runtime_errors_observed", k.name());
        }
        rep.add("exec_events", m.state.exec_events);
        rep.add("exec_events_judged", m.state.judged);
        rep.add("exec_events_nontrivial", m.state.nontrivial);
        rep.add("call_args_judged", m.state.calls_judged);
        rep.add("returns_judged", m.state.returns_judged);
        rep.add("helper_steps_judged", m.state.helper_returns_judged);
        rep.add("static_type_unavailable", m.state.type_unavailable);
        rep.add("downstream_of_known_finding", m.state.downstream);
        for t in &m.state.triples {
            rep.shape("kind_type_value_triples", t);
        }
        for k in &m.state.kinds {
            rep.shape("instruction_kinds_executed", k);
        }
        for (src, ty, val) in &m.state.samples {
            rep.sample("exec-event", 6, || Obj::new().s("source", src).s("static_type", ty).s("value", val).render());
        }
        let mut out = Vec::new();
        if self.mode.soundness {
            for (k, w) in &m.state.violations {
                out.push((k.clone(), w.clone()));
            }
        } else {
            match &m.outcome {
                Outcome::Panic(p) if p.kind == PanicKind::Panic => {
                    if let Some((k, w)) = m.state.violations.first() {
                        // an unsound value preceded the panic: the panic is its consequence. It is still a violation
                        // of C02, keyed by the soundness event it follows (so that the consequences of a listed
                        // C01 finding are one listed C02 finding, whatever the panic site)
                        rep.count(&format!("panic-after:{}", truncate(k, 60)));
                        out.push((format!("c02:panic-after:{k}"), format!("panicked at {}: {} - after the unsound value [{}]", p.site(), p.short_msg(), truncate(w, 200))));
                    } else {
                        out.push((format!("c02:panic:{}", p.site()), format!("panicked at {}: {} [executing `{}`]", p.site(), p.short_msg(), truncate(p.src.as_deref().unwrap_or(""), 120))));
                    }
                }
                Outcome::Panic(p) => rep.inconclusive(&format!("{:?}", p.kind)),
                Outcome::ExecErr(None, n) => out.push((format!("c02:undocumented-error:{n}"), format!("ended with the undocumented runtime error {n}"))),
                _ => {}
            }
        }
        let _ = text;
        out
    }

    fn emit(&mut self, key: &str, what: &str, text: &str) {
        self.reported += 1;
        let body = text.strip_prefix(PRELUDE).unwrap_or(text);
        self.rep.violation(key, &format!("{what} :: {}", truncate(body, 500)), "program-text", text);
    }
}

const FUEL: u64 = 6_000;

/// Programs the checker must reject because running them would go wrong. They are not judged when rejected;
/// if a (changed) checker accepts one, it is executed under the monitors like any other accepted program.
pub const NEGATIVE: &[&str] = &[
    // cells are invariant
    "w := (c: mut (int|float)) { c = 2.5 }; x := mut 5; w(x); *x + 1",
    "x := mut 5; a := [x]; w := (cs: [mut (int|string)]) { cs[0] = \"s\" }; w(a); *x + 1",
    "c := mut 5; g := () -> mut (int|string) { return c }; d := g(); d = \"s\"; *c + 1",
    "u := mut int|string 1; r := (c: mut int) -> int { return *c + 1 }; u = \"s\"; r(u)",
    "c := mut 5; t := (c, 1); w := (p: (mut (int|string), int)) { p.0 = \"s\" }; w(t); *c + 1",
    "c := mut 5; s := struct{a := c}; w := (p: struct{a: mut any}) { p.a = () }; w(s); *c + 1",
    "c := mut 5; d := mut mut (int|string) c; 1",
    // a target whose static type is a union of cell types: the value must fit every member
    "w := (t: mut int | mut string) { t = \"t\" }; c := mut 5; w(c); *c + 1",
    "w := (t: mut int | mut string) { t = 7 }; c := mut \"s\"; w(c); *c + \"x\"",
    "w := (t: mut float | mut [int]) { t = [3] }; c := mut 2.5; w(c); *c * 2.0",
    "c := mut 5; d := mut \"s\"; a := [c, d]; a[0] = \"t\"; *c + 1",
    "c := mut 5; d := mut \"s\"; a := [c, d]; a[1] = 9; *d + \"x\"",
    "c := mut 5; d := mut 2.5; pick := (b: bool) -> mut int | mut float { if b { return c } return d }; pick(true) = 1.5; *c + 1",
    "c := mut 5; d := mut \"s\"; t := if true { c } else { d }; u := [t, d][0]; u = \"t\"; *c + 1",
    "w := (t: mut int | mut (int|string)) { t = \"t\" }; c := mut 5; w(c); *c + 1",
    "w := (t: mut int | mut string) { t += 1 }; c := mut \"s\"; w(c); *c + \"x\"",
    "w := (t: struct{c: mut int} | struct{c: mut string}) { t.c = \"t\" }; x := mut 5; w(struct{c := x}); *x + 1",
    "w := (t: (mut int, int) | (mut string, int)) { t.0 = \"t\" }; c := mut 5; w((c, 1)); *c + 1",
    // tuples, structs, arrays, unions, functions
    "f := (t: (int, int, int)) -> int { return t.2 }; f((1, 2))",
    "f := (t: (int, int)) -> int { return t.1 + 1 }; f((1, \"s\"))",
    "f := (g: (int|string) -> int) -> int { return g(\"s\") }; f((x: int) -> int { return x + 1 })",
    "f := (g: () -> int) -> int { return g() + 1 }; f(() -> int|string { return \"s\" })",
    "f := (a: [int]) -> int { return a[0] + 1 }; f([1, \"s\"][1:])",
    "f := (a: [int]) -> int { return a[0] + 1 }; f([\"s\"])",
    "f := (s: struct{a: int, b: int}) -> int { return s.b }; f(struct{a := 1})",
    "f := (s: struct{a: int}) -> int { return s.a + 1 }; f(struct{a := \"s\"})",
    "f := (x: int) -> int { return x + 1 }; u := [1, \"s\"][1]; f(u)",
    "u := [1, \"s\"][1]; u + 1",
    "u := [1, 2.5][1]; u * 2",
    "f := (a: int) -> int { return a }; f()",
    "f := (a: int) -> int { return a }; f(1, 2)",
    "f := (a: int) -> int { return a }; g := [f, (a: int, b: int) -> int { return a + b }][1]; g(1)",
    "5(1)",
    "*5",
    "x := 5; x = 6",
    "1 && true",
    "!\"s\"",
    "-true",
    "(a, b) := (1, 2, 3); a",
    "(a, b) := 5; a",
    "t := [(1, 2), (1, 2, 3)][1]; (a, b) := t; a",
    "struct{a := 1}.b",
    "(1, 2).5",
    "t := [(1, 2), (1, 2, 3)][0]; t.2",
    // assignments
    "c := mut 5; c = \"s\"; *c + 1",
    "c := mut 5; c += 2.5; *c",
    "c := mut [int] []; c += [\"s\"]; (*c)[0] + 1",
    "c := mut 5; c &= true; *c",
    "c := mut int|string 5; c += 1; *c",
    "c := mut 2.5; c %= 2.0; *c",
    // conditions, indices
    "if 1 { 2 }",
    "while \"s\" { }",
    "[1, 2][\"a\"]",
    "[1, 2][0:\"x\"]",
    "\"ab\"[1:2:true]",
    "[1, 2][1.5:]",
    "5[0]",
    "[0; \"n\"]",
    // iterator operators
    "[1]~ $ \"s\" (a: int, x: int) -> int { return a + x }",
    "[1]~ @ (x: string) -> string { return x + \"a\" } $]",
    "[\"s\"]~ ? (x: int) -> bool { return x > 1 } $]",
    "[1]~ ? (x: int) -> int { return x } $]",
    "[true]~ $+",
    "[()]~ $*",
    "[1]~ $&&",
    "[true]~ $&",
    "[1, \"s\"]~ $+",
    "5~",
    "for x in [1, 2] { x }",
    "[1]~ \\ (x: int) -> int { return x }",
    // exits outside their construct
    "while true { break }; break",
    "while false { }; continue; 1",
    "f := () { while true { break } break }; f()",
    "f := () { while false { } continue }; f()",
    "t := true; while t { break }; break",
    "loop { break }; break",
    "for x in [1]~ { }; break",
    "f := () { for x in [1]~ { } continue }; f()",
    "loop { g := () { break }; g(); break }",
    "loop { g := () { continue }; g(); break }",
    "[1]~ @ (v: int) -> int { break; return v } $]",
    "if true { break }",
    "match 1 { => break, }",
    "x := mod { break }",
    "return 5",
    "{ return 5 }",
    "if true { return 1 }",
    "x := mod { return 1 }",
    "loop { return 1 }",
    // functions that may fall off their end
    "f := () -> int { }; f() + 1",
    "f := (b: bool) -> int { if b { return 1 } }; f(false) + 1",
    "f := () -> int { loop { break } }; f() + 1",
    "f := (b: bool) -> int { while b { return 1 } }; f(false) + 1",
    "f := (u: int|string) -> int { if x: int = u { return x } }; f(\"s\") + 1",
    "f := (u: int|string) -> int { match u { x: int => { return x }, s: string => { 1 }, } }; f(\"s\") + 1",
    "f := () -> int { return \"s\" }; f() + 1",
    "f := () -> int { return }; f() + 1",
    "f := (b: bool) -> int|string { if b { return 1 } return 2.5 }; f(false)",
    "f := () -> int { g := () -> string { return 1 }; return 1 }; f()",
    // matches that do not cover
    "u := [1, \"s\"][1]; r := match u { x: int => 1, }; r",
    "match 5 { 6 => 1, }",
    "u := [1, \"s\", 2.5][2]; match u { x: int|string => 1, }",
    "match (1, \"s\") { t: (int, int) => 1, }",
    // names
    "y + 1",
    "{ x := 1 }; x",
    "f := () { z := 1 }; f(); z",
    "if a: int = 5 { 1 }; a",
    "match 5 { q: int => 1, }; q",
    "for e in [1]~ { }; e",
    "m := mod { a := 1 }; a",
    "m := mod { a := 1 }; m.b",
    "g := () -> int { return h() }; h := () -> int { return 1 }; g()",
];

fn profiles() -> Vec<Profile> {
    let mut hostile = Profile::mixed();
    hostile.name = "hostile";
    hostile.err = 30;
    hostile.names = crate::genp::NAMES_HOSTILE;
    let mut unions = Profile::mixed();
    unions.name = "unions";
    unions.unions = 60;
    unions.cells = 40;
    let mut iters = Profile::mixed();
    iters.name = "iterators";
    iters.iterators = 70;
    iters.w = [30, 8, 10, 6, 4, 6, 3, 14, 2, 4, 3, 8];
    vec![Profile::mixed(), hostile, unions, iters]
}

pub fn run(cfg: &Cfg, rep: &mut Report, mode: &Mode2) {
    let deadline = Deadline::new(cfg.budget_s);
    let n = cfg.per_shard(40_000, 4_000_000);
    let profiles = profiles();
    if mode.prop == "C02" {
        crate::props::c18::panic_sweep(cfg, rep);
    }
    let mut ctx = Ctx { rep, mode, reported: 0, per_key: Default::default() };
    let mut rng = cfg.rng(0x501);
    if cfg.shard == 0 {
        for src in NEGATIVE {
            let m = run_text(src, FUEL);
            if matches!(m.outcome, Outcome::Rejected(..)) {
                ctx.rep.count("negative-templates:rejected");
                continue;
            }
            ctx.rep.count("negative-templates:ACCEPTED");
            let found = ctx.absorb("negative-template", src, &m);
            for (key, what) in found {
                if ctx.want(&key) {
                    ctx.emit(&key, &format!("(a program the checker is supposed to reject was accepted) {what}"), src);
                }
            }
        }
    }
    // operator x operand-type family (see optyping.rs): whatever the checker accepts is called with every
    // combination of member values
    for (idx, case) in crate::optyping::cases().iter().enumerate() {
        if !cfg.owns(idx as u64) {
            continue;
        }
        if idx % 64 == 0 {
            cfg.checkpoint(ctx.rep);
        }
        let kind = case.label.split(':').next().unwrap_or("");
        let m = run_text(&format!("{} f", case.decl), FUEL);
        if matches!(m.outcome, Outcome::Rejected(..)) {
            ctx.rep.count(&format!("optyping:{kind}:rejected"));
            continue;
        }
        ctx.rep.count(&format!("optyping:{kind}:accepted"));
        ctx.rep.shape("constructs", &format!("optyping:{}", case.label));
        let mut texts: Vec<&str> = case.calls.iter().map(|c| c.as_str()).collect();
        let alone = format!("{} f", case.decl);
        texts.push(&alone);
        for text in texts {
            let m = run_text(text, FUEL);
            ctx.rep.distinct_case(text);
            for (key, what) in ctx.absorb("optyping", text, &m) {
                if ctx.want(&key) {
                    ctx.emit(&key, &what, text);
                } else {
                    ctx.rep.count(&format!("further:{}", truncate(&key, 80)));
                }
            }
        }
    }
    // arrays built along every provenance path, then run-time type tests whose bodies use the elements at the tested type
    for (idx, text) in crate::optyping::provenance_type_test_programs().iter().enumerate() {
        if !cfg.owns(idx as u64) {
            continue;
        }
        let m = run_text(text, FUEL);
        if matches!(m.outcome, Outcome::Rejected(..)) {
            ctx.rep.count("optyping:provenance-type-test:rejected");
            continue;
        }
        ctx.rep.count("optyping:provenance-type-test:accepted");
        for (key, what) in ctx.absorb("optyping-provenance-type-test", text, &m) {
            if ctx.want(&key) {
                ctx.emit(&key, &what, text);
            } else {
                ctx.rep.count(&format!("further:{}", truncate(&key, 80)));
            }
        }
    }
    // loops used for their value, exits in unusual positions
    for (idx, (text, _)) in crate::optyping::loop_value_programs().iter().enumerate() {
        if !cfg.owns(idx as u64) {
            continue;
        }
        let m = run_text(text, FUEL);
        if matches!(m.outcome, Outcome::Rejected(..)) {
            ctx.rep.count("optyping:loop-value:rejected");
            continue;
        }
        ctx.rep.count("optyping:loop-value:accepted");
        ctx.rep.distinct_case(text);
        for (key, what) in ctx.absorb("optyping-loop-value", text, &m) {
            if ctx.want(&key) {
                ctx.emit(&key, &what, text);
            } else {
                ctx.rep.count(&format!("further:{}", truncate(&key, 80)));
            }
        }
    }
    // calls through a union of function types (parameter types intersected by the checker)
    for (idx, case) in crate::optyping::union_call_cases().iter().enumerate() {
        if !cfg.owns(idx as u64) {
            continue;
        }
        for text in &case.calls {
            let m = run_text(text, FUEL);
            if matches!(m.outcome, Outcome::Rejected(..)) {
                ctx.rep.count("optyping:union-call:rejected");
                continue;
            }
            ctx.rep.count("optyping:union-call:accepted");
            ctx.rep.distinct_case(text);
            for (key, what) in ctx.absorb("optyping-union-call", text, &m) {
                if ctx.want(&key) {
                    ctx.emit(&key, &what, text);
                } else {
                    ctx.rep.count(&format!("further:{}", truncate(&key, 80)));
                }
            }
        }
    }
    // match coverage over scrutinee types with a union inside a container: accepted => every admitted value finds an arm
    for (idx, case) in crate::optyping::match_coverage_cases().iter().enumerate() {
        if !cfg.owns(idx as u64) {
            continue;
        }
        for text in &case.calls {
            let m = run_text(text, FUEL);
            if matches!(m.outcome, Outcome::Rejected(..)) {
                ctx.rep.count("optyping:match-coverage:rejected");
                continue;
            }
            ctx.rep.count("optyping:match-coverage:accepted");
            ctx.rep.distinct_case(text);
            for (key, what) in ctx.absorb("optyping-match-coverage", text, &m) {
                if ctx.want(&key) {
                    ctx.emit(&key, &what, text);
                } else {
                    ctx.rep.count(&format!("further:{}", truncate(&key, 80)));
                }
            }
        }
    }
    // statements after a statement that never completes, in every kind of body (shared with C03's family (l))
    for (idx, text) in crate::props::c03::unreachable_code_programs(None).iter().enumerate() {
        if !cfg.owns(idx as u64) {
            continue;
        }
        let m = run_text(text, FUEL);
        if matches!(m.outcome, Outcome::Rejected(..)) {
            ctx.rep.count("unreachable-code:rejected");
            continue;
        }
        ctx.rep.count("unreachable-code:accepted");
        for (key, what) in ctx.absorb("unreachable-code", text, &m) {
            if ctx.want(&key) {
                ctx.emit(&key, &what, text);
            } else {
                ctx.rep.count(&format!("further:{}", truncate(&key, 80)));
            }
        }
    }
    for (idx, case) in crate::optyping::typed_filter_cases().iter().enumerate() {
        if !cfg.owns(idx as u64) {
            continue;
        }
        for text in &case.calls {
            let m = run_text(text, FUEL);
            if matches!(m.outcome, Outcome::Rejected(..)) {
                ctx.rep.count("optyping:typed-filter:rejected");
                continue;
            }
            ctx.rep.count("optyping:typed-filter:accepted");
            ctx.rep.distinct_case(text);
            for (key, what) in ctx.absorb("optyping-typed-filter", text, &m) {
                if ctx.want(&key) {
                    ctx.emit(&key, &what, text);
                } else {
                    ctx.rep.count(&format!("further:{}", truncate(&key, 80)));
                }
            }
        }
    }
    for (idx, text) in crate::optyping::diverging_branch_programs().iter().enumerate() {
        if !cfg.owns(idx as u64) {
            continue;
        }
        let m = run_text(text, FUEL);
        if matches!(m.outcome, Outcome::Rejected(..)) {
            ctx.rep.count("optyping:diverging-branch:rejected");
            continue;
        }
        for (key, what) in ctx.absorb("optyping-diverging", text, &m) {
            if ctx.want(&key) {
                ctx.emit(&key, &what, text);
            } else {
                ctx.rep.count(&format!("further:{}", truncate(&key, 80)));
            }
        }
    }
    for (idx, text) in crate::optyping::const_union_programs().iter().enumerate() {
        if !cfg.owns(idx as u64) {
            continue;
        }
        let m = run_text(text, FUEL);
        if matches!(m.outcome, Outcome::Rejected(..)) {
            ctx.rep.count("optyping:const-union:rejected");
            continue;
        }
        for (key, what) in ctx.absorb("optyping-const", text, &m) {
            if ctx.want(&key) {
                ctx.emit(&key, &what, text);
            } else {
                ctx.rep.count(&format!("further:{}", truncate(&key, 80)));
            }
        }
    }
    for i in 0..n {
        if i % 8 == 0 {
            if deadline.over() {
                break;
            }
            cfg.checkpoint(ctx.rep);
        }
        let profile = &profiles[(i % profiles.len() as u64) as usize];
        let (body, shapes) = gen_program(cfg.seed ^ 0xC01, cfg.shard, i, profile);
        for s in &shapes {
            ctx.rep.shape("constructs", s);
        }
        ctx.rep.count("programs");
        for mode in [Mode::Literal, Mode::Hidden] {
            let text = prog::program_text(&body, mode);
            ctx.rep.distinct_case(&text);
            let m = run_text(&text, FUEL);
            let found = ctx.absorb(if mode == Mode::Literal { "literal" } else { "hidden" }, &text, &m);
            for (key, what) in found {
                if ctx.want(&key) {
                    // shrink on the AST while the same key persists
                    let small = shrink_same_key(&body, mode, &key, ctx.mode);
                    let small_text = prog::program_text(&small, mode);
                    ctx.emit(&key, &what, &small_text);
                } else {
                    ctx.rep.count(&format!("further:{}", truncate(&key, 80)));
                }
            }
            // host-API calls of every function value the program yields
            if let Outcome::Value(v) = &m.outcome {
                if m.state.tainted.is_some() {
                    // values of an execution that already broke soundness may be captured in the functions it
                    // yields: calling them would only re-report the same finding from another execution
                    ctx.rep.count("host-calls-skipped:program-already-unsound");
                } else {
                    let mut fs = Vec::new();
                    collect_functions(v, &mut fs, 0);
                    for f in fs {
                        host_calls(&mut ctx, &f, &text, &mut rng);
                    }
                }
            }
            // accepted mutants (C02's way to reach odd but legal shapes)
            if mode == Mode::Literal && matches!(m.outcome, Outcome::Value(_) | Outcome::ExecErr(..)) {
                let body_text = &text[PRELUDE.len()..];
                let toks = c03::tokenize(body_text);
                for _ in 0..3 {
                    let mutant = format!("{PRELUDE}{}", c03::mutate(&toks, &toks, &mut rng));
                    let mm = run_text(&mutant, FUEL);
                    if matches!(mm.outcome, Outcome::Rejected(..)) {
                        ctx.rep.count("mutant:rejected");
                        continue;
                    }
                    ctx.rep.distinct_case(&mutant);
                    let found = ctx.absorb("mutant", &mutant, &mm);
                    for (key, what) in found {
                        if ctx.want(&key) {
                            ctx.emit(&key, &what, &mutant);
                        } else {
                            ctx.rep.count(&format!("further:{}", truncate(&key, 80)));
                        }
                    }
                }
            }
        }
    }
}

fn shrink_same_key(body: &[S], mode: Mode, key: &str, m2: &Mode2) -> Vec<S> {
    let pred = |c: &[S]| -> bool {
        let text = prog::program_text(c, mode);
        let m = run_text(&text, FUEL);
        if m2.soundness {
            m.state.violations.iter().any(|(k, _)| k == key)
        } else {
            match &m.outcome {
                Outcome::Panic(p) if p.kind == PanicKind::Panic => key.starts_with(&format!("c02:panic:{}", p.site())),
                Outcome::ExecErr(None, _) => key.starts_with("c02:undocumented-error"),
                _ => false,
            }
        }
    };
    prog::shrink(body, pred, 150)
}

fn host_calls(ctx: &mut Ctx, f: &Arc<Function>, text: &str, rng: &mut Rng) {
    let Ty::Fun(ps, _) = Ty::from_real(&f.as_type()) else { return };
    for _ in 0..3 {
        let args: Option<Vec<Variable>> = {
            let mut vg = ValueGen::new(rng);
            ps.iter().map(|p| vg.value(p, 0)).collect()
        };
        let Some(args) = args else {
            ctx.rep.count("host-call:uninhabited-parameter");
            return;
        };
        let shown = format!("host call {}({})", Ty::from_real(&f.as_type()).text(), args.iter().map(|a| truncate(&canon(a), 60)).collect::<Vec<_>>().join(", "));
        let code = match real::guarded(|| f.clone().create_call(args.clone())) {
            Err(p) => {
                if !ctx.mode.soundness && p.kind == PanicKind::Panic {
                    ctx.emit(&format!("c02:panic:create_call:{}", p.site()), &format!("{shown}: create_call panicked: {}", p.short_msg()), text);
                }
                continue;
            }
            Ok(Err(_)) => {
                ctx.rep.count("host-call:rejected");
                continue;
            }
            Ok(Ok(c)) => c,
        };
        let m = run_code(&code, FUEL);
        let found = ctx.absorb("host-call", text, &m);
        for (key, what) in found {
            if ctx.want(&key) {
                // same defect whatever the call path: exhausted-payload findings keep their key
                // same defect whatever the call path: the key names the site, the description the route
                ctx.emit(&key, &format!("{shown}: {what}"), text);
            }
        }
        if ps.is_empty() {
            break;
        }
    }
}

pub fn replay(payload: &str, rep: &mut Report, mode: &Mode2) {
    let text = if payload.starts_with(PRELUDE) { payload.to_string() } else { format!("{PRELUDE}{payload}") };
    let mut ctx = Ctx { rep, mode, reported: 0, per_key: Default::default() };
    // try the text as given (with prelude) and bare
    for t in [text.as_str(), payload] {
        let m = run_text(t, FUEL);
        let found = ctx.absorb("replay", t, &m);
        for (key, what) in found {
            ctx.emit(&key, &what, t);
        }
        if let Outcome::Value(v) = &m.outcome {
            let mut fs = Vec::new();
            collect_functions(v, &mut fs, 0);
            let mut rng = Rng::new(7);
            for f in fs {
                host_calls(&mut ctx, &f, t, &mut rng);
            }
        }
        ctx.rep.notes.push(format!("replay outcome: {}", m.outcome.tag()));
    }
}
