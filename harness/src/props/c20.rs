//! C20 literal values survive printing and re-parsing (value literal and program routes),
//! integer literal forms against u128 parsing.
use crate::oracle::{Ty, canon};
use crate::real::{self, Outcome};
use crate::util::{Cfg, Deadline, FLOAT_BOUNDARY, INT_BOUNDARY, Obj, Report, Rng, truncate};
use simplesl::variable::{Typed, Variable};
use std::str::FromStr;
use std::sync::Arc;

const CHARS: [char; 40] = [
    'a', 'Z', '0', '1', '7', '9', ' ', '"', '\'', '\\', '\n', '\r', '\t', '\0', '\u{1}', '\u{7}', '\u{8}', '\u{b}',
    '\u{c}', '\u{1b}', '\u{1f}', '\u{7f}', '\u{80}', '\u{85}', '\u{9f}', '\u{a0}', '\u{ad}', 'é', 'ß', '\u{301}',
    '\u{200b}', '\u{2028}', '\u{2029}', '日', '\u{feff}', '\u{fffd}', '🦀', '\u{10ffff}', '{', '}',
];

fn gen_string(rng: &mut Rng) -> String {
    let len = match rng.below(6) {
        0 => 0,
        1 => 1,
        _ => rng.below(7),
    };
    let mut s = String::new();
    for _ in 0..len {
        if rng.chance(1, 6) {
            // arbitrary scalar value
            loop {
                let c = (rng.next() % 0x11_0000) as u32;
                if let Some(c) = char::from_u32(c) {
                    s.push(c);
                    break;
                }
            }
        } else {
            s.push(*rng.pick(&CHARS));
        }
    }
    s
}

fn gen_float(rng: &mut Rng) -> f64 {
    loop {
        let f = match rng.below(8) {
            0 | 1 => *rng.pick(&FLOAT_BOUNDARY),
            2 => *rng.pick(&[1e21, 1e-7, 9.999999999999999e20, 1.0000000000000001e-7, 1e16, 1e15, 123456789012345680.0, 5e-324, 1e308, 0.1, 2.5e-8, 1e300]),
            3 => -*rng.pick(&[1e21, 1e-7, 1e16, 5e-324, 1e308, 0.30000000000000004]),
            _ => rng.float(),
        };
        if f.is_finite() {
            return f;
        }
    }
}

fn gen_value(rng: &mut Rng, depth: usize) -> Variable {
    let leaf = depth == 0 || rng.chance(2, 5);
    if leaf {
        return match rng.below(9) {
            0 => Variable::Bool(rng.chance(1, 2)),
            1 | 2 => Variable::Int(if rng.chance(1, 2) { *rng.pick(&INT_BOUNDARY) } else { rng.int() }),
            3 | 4 => Variable::Float(gen_float(rng)),
            5 | 6 => Variable::String(Arc::from(gen_string(rng))),
            7 => Variable::Void,
            _ => Variable::from(Vec::<Variable>::new()),
        };
    }
    if rng.chance(3, 5) {
        let len = rng.below(4);
        let homogeneous = rng.chance(1, 2);
        let first = gen_value(rng, depth - 1);
        let mut els = Vec::new();
        for i in 0..len {
            if i == 0 {
                els.push(first.clone());
            } else if homogeneous {
                // same kind as the first element
                let mut v = gen_value(rng, depth - 1);
                for _ in 0..6 {
                    if std::mem::discriminant(&v) == std::mem::discriminant(&first) {
                        break;
                    }
                    v = gen_value(rng, depth - 1);
                }
                els.push(v);
            } else {
                els.push(gen_value(rng, depth - 1));
            }
        }
        Variable::from(els)
    } else {
        let len = 2 + rng.below(3);
        Variable::Tuple((0..len).map(|_| gen_value(rng, depth - 1)).collect())
    }
}

#[derive(Default)]
struct Features {
    tuple: bool,
    min_int: bool,
    nul_before_digit: bool,
    neg: bool,
    float: bool,
    string: bool,
    nested: bool,
}

fn features(v: &Variable, f: &mut Features, depth: usize) {
    match v {
        Variable::Int(i) => {
            if *i == i64::MIN {
                f.min_int = true;
            }
            if *i < 0 {
                f.neg = true;
            }
        }
        Variable::Float(x) => {
            f.float = true;
            if x.is_sign_negative() {
                f.neg = true;
            }
        }
        Variable::String(s) => {
            f.string = true;
            let cs: Vec<char> = s.chars().collect();
            for w in cs.windows(2) {
                if w[0] == '\0' && w[1].is_ascii_digit() {
                    f.nul_before_digit = true;
                }
            }
        }
        Variable::Tuple(t) => {
            f.tuple = true;
            if depth > 0 {
                f.nested = true;
            }
            for e in t.iter() {
                features(e, f, depth + 1);
            }
        }
        Variable::Array(a) => {
            if depth > 0 {
                f.nested = true;
            }
            for e in a.iter() {
                features(e, f, depth + 1);
            }
        }
        _ => {}
    }
}

fn feature_tag(f: &Features) -> &'static str {
    if f.nul_before_digit {
        "string-nul-before-digit"
    } else if f.min_int {
        "min-int"
    } else if f.tuple {
        "tuple"
    } else if f.string {
        "string"
    } else if f.float {
        "float"
    } else {
        "other"
    }
}

fn kind_tag(v: &Variable) -> &'static str {
    match v {
        Variable::Bool(_) => "bool",
        Variable::Int(_) => "int",
        Variable::Float(_) => "float",
        Variable::String(_) => "string",
        Variable::Array(_) => "array",
        Variable::Tuple(_) => "tuple",
        Variable::Void => "void",
        _ => "other",
    }
}

fn check_value(v: &Variable, rep: &mut Report) {
    let text = match real::guarded(|| format!("{v:?}")) {
        Ok(t) => t,
        Err(p) => {
            rep.violation(&format!("c20:debug:panic:{}", p.site()), &format!("printing {} panicked: {}", canon(v), p.short_msg()), "c20-value", &canon(v));
            return;
        }
    };
    let mut f = Features::default();
    features(v, &mut f, 0);
    let tag = feature_tag(&f);
    rep.shape("value_features", &format!("{}{}{}{}", kind_tag(v), if f.nested { "+nested" } else { "" }, if f.neg { "+neg" } else { "" }, if f.tuple { "+tuple" } else { "" }));
    rep.distinct_case(&text);
    let want = canon(v);
    let want_ty = Ty::from_real(&v.as_type());
    // route 1: value literal
    rep.evaluations += 1;
    rep.count("route_from_str");
    match real::guarded(|| Variable::from_str(&text)) {
        Err(p) => rep.violation(&format!("c20:from_str:{tag}:panic:{}", p.site()), &format!("Variable::from_str({text:?}) panicked: {}", p.short_msg()), "c20-text", &text),
        Ok(Err(e)) => rep.violation(
            &format!("c20:from_str:{tag}:rejected:{}", real::error_variant(&e)),
            &format!("printed value {text} is rejected by Variable::from_str ({})", real::error_variant(&e)),
            "c20-text",
            &text,
        ),
        Ok(Ok(back)) => {
            let got = canon(&back);
            let got_ty = Ty::from_real(&back.as_type());
            if got != want {
                rep.violation(&format!("c20:from_str:{tag}:changed"), &format!("{text} reads back as {got}, expected {want}"), "c20-text", &text);
            } else if got_ty != want_ty {
                rep.violation(&format!("c20:from_str:{tag}:type-changed"), &format!("{text} reads back with type {} instead of {}", got_ty.text(), want_ty.text()), "c20-text", &text);
            } else if !real::guarded(|| back == *v).unwrap_or(false) {
                rep.violation(&format!("c20:from_str:{tag}:not-equal"), &format!("{text} reads back to a value the crate's == calls unequal"), "c20-text", &text);
            }
        }
    }
    // route 2: as a program (MIN_INT has no literal)
    if f.min_int {
        rep.count("program_route_skipped_min_int");
        return;
    }
    rep.evaluations += 1;
    rep.count("route_program");
    match real::parse_exec(&text, false) {
        Outcome::Value(back) => {
            let got = canon(&back);
            let got_ty = Ty::from_real(&back.as_type());
            if got != want {
                rep.violation(&format!("c20:program:{tag}:changed"), &format!("program {text} evaluates to {got}, expected {want}"), "c20-text", &text);
            } else if got_ty != want_ty {
                rep.violation(&format!("c20:program:{tag}:type-changed"), &format!("program {text} has value type {} instead of {}", got_ty.text(), want_ty.text()), "c20-text", &text);
            } else if !real::guarded(|| back == *v).unwrap_or(false) {
                rep.violation(&format!("c20:program:{tag}:not-equal"), &format!("program {text} gives a value the crate's == calls unequal"), "c20-text", &text);
            }
        }
        Outcome::Panic(p) if p.kind != real::PanicKind::Panic => rep.inconclusive("resource-or-fuel"),
        other => rep.violation(&format!("c20:program:{tag}:{}", other.tag()), &format!("printed value {text} used as a program: {}", other.tag()), "c20-text", &text),
    }
    rep.sample("value", 8, || Obj::new().s("printed", &text).s("type", &want_ty.text()).render());
}

/// integer literal forms: (text, radix digits) -> expected value or overflow
fn gen_int_literal(rng: &mut Rng) -> (String, Option<i64>) {
    let (prefix, radix, digits): (&str, u32, &[char]) = match rng.below(4) {
        0 => ("0b", 2, &['0', '1']),
        1 => ("0o", 8, &['0', '1', '2', '3', '4', '5', '6', '7']),
        2 => ("0x", 16, &['0', '1', '9', 'a', 'f', 'A', 'F', '7', '8', 'c']),
        _ => ("", 10, &['0', '1', '2', '3', '4', '5', '6', '7', '8', '9']),
    };
    // magnitude: boundary (2^63-1, 2^63, 2^64-1, 2^64, 2^65) or random of random bit length
    let magnitude: u128 = match rng.below(8) {
        0 => i64::MAX as u128,
        1 => i64::MAX as u128 + 1,
        2 => u64::MAX as u128,
        3 => u64::MAX as u128 + 1,
        4 => 1u128 << 65,
        5 => 0,
        _ => {
            let bits = rng.below(70) as u32;
            if bits == 0 { 0 } else { ((rng.next() as u128) | ((rng.next() as u128) << 64)) >> (128 - bits) }
        }
    };
    let mut body = match radix {
        2 => format!("{magnitude:b}"),
        8 => format!("{magnitude:o}"),
        16 => {
            let s = format!("{magnitude:x}");
            s.chars().map(|c| if rng.chance(1, 2) { c.to_ascii_uppercase() } else { c }).collect()
        }
        _ => magnitude.to_string(),
    };
    // leading zeros
    if rng.chance(1, 3) {
        body = format!("{}{}", "0".repeat(1 + rng.below(3)), body);
    }
    // underscores: after the first digit anywhere; for prefixed forms also before the first digit
    let mut out = String::new();
    let chars: Vec<char> = body.chars().collect();
    for (i, c) in chars.iter().enumerate() {
        if rng.chance(1, 5) && (i > 0 || !prefix.is_empty()) {
            out.push('_');
            if rng.chance(1, 4) {
                out.push('_');
            }
        }
        out.push(*c);
    }
    if rng.chance(1, 5) {
        out.push('_');
    }
    let _ = digits;
    let expected = if magnitude <= i64::MAX as u128 { Some(magnitude as i64) } else { None };
    (format!("{prefix}{out}"), expected)
}

fn check_int_literal(text: &str, expected: Option<i64>, rep: &mut Report) {
    rep.distinct_case(&("intlit", text));
    let radix = if text.starts_with("0b") { "bin" } else if text.starts_with("0o") { "oct" } else if text.starts_with("0x") { "hex" } else { "dec" };
    rep.shape("int_literal_forms", &format!("{radix}{}{}", if text.contains('_') { "+underscore" } else { "" }, if expected.is_none() { "+overflow" } else { "" }));
    for route in ["from_str", "program"] {
        rep.evaluations += 1;
        rep.count(&format!("intlit_{route}"));
        let out: Result<Result<Variable, String>, real::PanicInfo> = if route == "from_str" {
            real::guarded(|| Variable::from_str(text).map_err(|e| real::error_variant(&e)))
        } else {
            match real::parse_exec(text, false) {
                Outcome::Value(v) => Ok(Ok(v)),
                Outcome::Rejected(e, _) => Ok(Err(e)),
                Outcome::ExecErr(_, e) => Ok(Err(format!("exec:{e}"))),
                Outcome::Panic(p) => Err(p),
            }
        };
        let key = format!("c20:intlit:{route}:{radix}");
        match (expected, out) {
            (_, Err(p)) => rep.violation(&format!("{key}:panic:{}", p.site()), &format!("{text}: panicked: {}", p.short_msg()), "c20-intlit", text),
            (Some(e), Ok(Ok(Variable::Int(g)))) if e == g => {}
            (None, Ok(Err(v))) if v == "IntegerOverflow" => {}
            (Some(e), Ok(other)) => rep.violation(&format!("{key}:wrong-value"), &format!("integer literal {text} should denote {e}, got {:?}", other.map(|v| canon(&v))), "c20-intlit", text),
            (None, Ok(other)) => rep.violation(&format!("{key}:overflow-not-rejected"), &format!("integer literal {text} exceeds int and must be rejected as too big, got {:?}", other.map(|v| canon(&v))), "c20-intlit", text),
        }
    }
    rep.sample("intlit", 4, || Obj::new().s("literal", text).s("expected", &format!("{expected:?}")).render());
    // the same literal as an element: a literal that exceeds int is refused wherever it stands, one that fits keeps its value
    for (wrap, pick) in [("[1, {}, 2.5]", 1usize), ("({}, \"s\")", 0), ("[[{}]]", 0), ("(1, [2, {}])", 1)] {
        let nested = wrap.replace("{}", text);
        for route in ["from_str", "program"] {
            rep.evaluations += 1;
            rep.count(&format!("intlit_nested_{route}"));
            let out: Result<Result<Variable, String>, real::PanicInfo> = if route == "from_str" {
                real::guarded(|| Variable::from_str(&nested).map_err(|e| real::error_variant(&e)))
            } else {
                match real::parse_exec(&nested, false) {
                    Outcome::Value(v) => Ok(Ok(v)),
                    Outcome::Rejected(e, _) => Ok(Err(e)),
                    Outcome::ExecErr(_, e) => Ok(Err(format!("exec:{e}"))),
                    Outcome::Panic(p) => Err(p),
                }
            };
            let key = format!("c20:intlit-nested:{route}:{radix}");
            let shown = |v: &Variable| canon(v);
            match (expected, out) {
                (_, Err(p)) => rep.violation(&format!("{key}:panic:{}", p.site()), &format!("{nested}: panicked: {}", p.short_msg()), "c20-intlit", text),
                (None, Ok(Err(v))) if v == "IntegerOverflow" => {}
                (None, Ok(other)) => rep.violation(&format!("{key}:overflow-not-rejected"), &format!("{nested} holds a literal that exceeds int and must be rejected as too big, got {:?}", other.as_ref().map(shown)), "c20-intlit", text),
                (Some(e), Ok(Ok(v))) => {
                    let want = wrap.replace("{}", &e.to_string()).replace("2.5", "2.5f");
                    let _ = pick;
                    if canon(&v).replace(' ', "") != want.replace(' ', "") {
                        rep.violation(&format!("{key}:wrong-value"), &format!("{nested} should denote {want}, got {}", canon(&v)), "c20-intlit", text);
                    }
                }
                (Some(_), Ok(Err(v))) => rep.violation(&format!("{key}:rejected"), &format!("{nested} is rejected ({v}) although its literal fits an int"), "c20-intlit", text),
            }
        }
    }
    // the same spelling behind a minus sign: a value literal of its own for `Variable::from_str` (down to MIN_INT),
    // unary minus applied to the literal in a program
    let cleaned: String = text.chars().filter(|c| *c != '_').collect();
    let (rdx, digits) = if let Some(r) = cleaned.strip_prefix("0b") { (2, r) } else if let Some(r) = cleaned.strip_prefix("0o") { (8, r) } else if let Some(r) = cleaned.strip_prefix("0x") { (16, r) } else { (10, cleaned.as_str()) };
    let magnitude = u128::from_str_radix(digits, rdx).ok();
    let neg = format!("-{text}");
    let want_value: Option<i64> = magnitude.filter(|m| *m <= 1u128 << 63).map(|m| (m as i128).wrapping_neg() as i64);
    let want_program: Option<i64> = expected.map(|e| e.wrapping_neg());
    for (route, want) in [("from_str", want_value), ("program", want_program)] {
        rep.evaluations += 1;
        rep.count(&format!("intlit_negative_{route}"));
        let out: Result<Result<Variable, String>, real::PanicInfo> = if route == "from_str" {
            real::guarded(|| Variable::from_str(&neg).map_err(|e| real::error_variant(&e)))
        } else {
            match real::parse_exec(&neg, false) {
                Outcome::Value(v) => Ok(Ok(v)),
                Outcome::Rejected(e, _) => Ok(Err(e)),
                Outcome::ExecErr(_, e) => Ok(Err(format!("exec:{e}"))),
                Outcome::Panic(p) => Err(p),
            }
        };
        let key = format!("c20:intlit-negative:{route}:{radix}");
        match (want, out) {
            (_, Err(p)) => rep.violation(&format!("{key}:panic:{}", p.site()), &format!("{neg}: panicked: {}", p.short_msg()), "c20-intlit", text),
            (Some(e), Ok(Ok(Variable::Int(g)))) if e == g => {}
            (None, Ok(Err(v))) if v == "IntegerOverflow" => {}
            (Some(e), Ok(other)) => rep.violation(&format!("{key}:wrong-value"), &format!("{neg} should denote {e}, got {:?}", other.map(|v| canon(&v))), "c20-intlit", text),
            (None, Ok(other)) => rep.violation(&format!("{key}:overflow-not-rejected"), &format!("{neg} is below MIN_INT / its literal exceeds int and must be rejected as too big, got {:?}", other.map(|v| canon(&v))), "c20-intlit", text),
        }
    }
}

/// wrap `v` in `levels` further levels of nesting (arrays and tuples alternating by `pattern`)
fn wrap(v: Variable, levels: usize, pattern: u64) -> Variable {
    let mut cur = v;
    for k in 0..levels {
        cur = match pattern >> (k % 60) & 3 {
            0 | 1 => Variable::from(vec![cur]),
            2 => Variable::Tuple(Arc::from([cur, Variable::Int(k as i64)])),
            _ => Variable::from(vec![Variable::Tuple(Arc::from([Variable::Bool(true), cur]))]),
        };
    }
    cur
}

/// deep nestings (every depth up to 40: the property has no depth bound) and print histories: printing is a pure
/// function of the value, so the text of a value is the same before and after values that *contain* it were printed,
/// and after it was printed itself
fn deep_and_histories(rng: &mut Rng, rounds: u64, rep: &mut Report) {
    for r in 0..rounds {
        let levels = 1 + (r as usize % 40);
        let d0 = rng.below(3);
        let leaf = gen_value(rng, d0);
        let v = wrap(leaf, levels, rng.next());
        rep.count("deep-values");
        rep.shape("nesting_depths", &format!("{}", levels.min(12)));
        check_value(&v, rep);
        // history: inner value printed only after a value holding it (shared, not copied) was printed
        let d1 = rng.below(3);
        let g = gen_value(rng, d1);
        let inner = wrap(g, 1 + r as usize % 7, rng.next());
        let outer = wrap(inner.clone(), 1 + rng.below(9) as usize, rng.next());
        let sibling = Variable::from(vec![inner.clone(), inner.clone()]);
        let fresh_text = real::guarded(|| format!("{:?}", rebuild(&inner))).unwrap_or_default();
        let _ = real::guarded(|| format!("{outer:?}"));
        let _ = real::guarded(|| format!("{sibling:?}"));
        let _ = real::guarded(|| outer.to_string());
        let after = real::guarded(|| format!("{inner:?}")).unwrap_or_default();
        let again = real::guarded(|| format!("{inner:?}")).unwrap_or_default();
        rep.evaluations += 1;
        rep.count("print-histories");
        if after != again {
            rep.violation("c20:print-history:second-print-differs", &format!("the same value printed twice gives {} and {}", truncate(&after, 200), truncate(&again, 200)), "c20-text", &after);
        } else if !fresh_text.is_empty() && fresh_text != after {
            rep.violation("c20:print-history:text-depends-on-earlier-prints", &format!("a value printed after a value containing it was printed gives {}; a separately built equal value prints as {}", truncate(&after, 200), truncate(&fresh_text, 200)), "c20-text", &after);
        }
        check_value(&inner, rep);
    }
}

/// a structurally equal value that shares no array / tuple allocation with `v`
fn rebuild(v: &Variable) -> Variable {
    match v {
        Variable::Array(a) => Variable::from(a.iter().map(rebuild).collect::<Vec<_>>()),
        Variable::Tuple(t) => Variable::Tuple(t.iter().map(rebuild).collect()),
        other => other.clone(),
    }
}

pub fn run(cfg: &Cfg, rep: &mut Report) {
    let deadline = Deadline::new(cfg.budget_s);
    let mut rng = cfg.rng(20);
    // fixed checklist first (shard 0)
    if cfg.shard == 0 {
        let mut fixed: Vec<Variable> = vec![
            Variable::Int(i64::MIN),
            Variable::Int(i64::MAX),
            Variable::Int(-1),
            Variable::Float(-0.0),
            Variable::Float(0.0),
            Variable::Float(5e-324),
            Variable::Float(1e308),
            Variable::Float(1e21),
            Variable::Float(1e-7),
            Variable::Float(f64::MAX),
            Variable::Float(f64::MIN),
            Variable::Void,
            Variable::Bool(true),
            Variable::from(Vec::<Variable>::new()),
            Variable::Tuple([Variable::Int(1), Variable::Int(2)].into()),
            Variable::from(vec![Variable::Tuple([Variable::Int(1), Variable::String("a".into())].into())]),
            Variable::String("\0".into()),
            Variable::String("\u{0}1".into()),
            Variable::String("a\"b\\c".into()),
            Variable::String("\u{2028}\u{85}".into()),
        ];
        for c in CHARS {
            fixed.push(Variable::String(Arc::from(c.to_string())));
            fixed.push(Variable::String(Arc::from(format!("{c}7"))));
        }
        for i in INT_BOUNDARY {
            fixed.push(Variable::Int(i));
            fixed.push(Variable::from(vec![Variable::Int(i), Variable::Int(0)]));
        }
        for f in FLOAT_BOUNDARY {
            if f.is_finite() {
                fixed.push(Variable::Float(f));
                fixed.push(Variable::from(vec![Variable::Float(f)]));
            }
        }
        // floats around the limits of integer types and around every power of ten (where a rendering may switch between
        // plain and exponent form, or take a detour through an integer)
        let mut edge: Vec<f64> = Vec::new();
        for e in [15i32, 16, 17, 18, 19, 20, 21, 22, -5, -6, -7, -8] {
            let x = 10f64.powi(e);
            edge.extend([x, f64::from_bits(x.to_bits() + 1), f64::from_bits(x.to_bits() - 1), x * 9.3, x * 1.5, x * 9.999999999999999]);
        }
        for k in [24u32, 31, 32, 52, 53, 54, 62, 63, 64, 65, 100] {
            let x = 2f64.powi(k as i32);
            edge.extend([x, f64::from_bits(x.to_bits() + 1), f64::from_bits(x.to_bits() - 1), x + 2048.0, x * 1.000001]);
        }
        edge.extend([9.3e18, 9.5e18, 9.223372036854775e18, 9.223372036854777e18, 1.8446744073709552e19, 4.2e9, 2147483648.5, 0.1 + 0.2, 1.0 / 3.0, 123456789012345680.0]);
        for x in edge {
            for v in [x, -x] {
                fixed.push(Variable::Float(v));
                fixed.push(Variable::from(vec![Variable::Float(v), Variable::Int(1)]));
                fixed.push(Variable::Tuple(Arc::from([Variable::Float(v), Variable::Float(-v)])));
            }
        }
        for v in &fixed {
            check_value(v, rep);
        }
        // long values: the printed text of a long array / string / nested value reads back (no size threshold)
        for n in [1_000usize, 1_025, 5_000, 20_000, 30_000, 70_000] {
            check_value(&Variable::from((0..n as i64).map(Variable::Int).collect::<Vec<_>>()), rep);
            check_value(&Variable::from((0..n / 2).map(|k| Variable::Tuple(Arc::from([Variable::Int(k as i64), Variable::String(Arc::from("p"))]))).collect::<Vec<_>>()), rep);
        }
        // runs of elements that are equal (`==`) but not identical, or identical except at one position: an
        // abbreviated rendering (run-length, repeat form) must not lose the difference
        for n in [2usize, 3, 8, 15, 16, 17, 31, 32, 33, 64, 100, 257] {
            let z = |neg: bool| Variable::Float(if neg { -0.0 } else { 0.0 });
            for pat in 0..6usize {
                let els: Vec<Variable> = (0..n)
                    .map(|i| match pat {
                        0 => z(i % 2 == 0),
                        1 => z(i == n - 1),
                        2 => z(i != 0),
                        3 => Variable::Tuple(Arc::from([z(i % 3 == 0), Variable::Int(1)])),
                        4 => Variable::from(vec![z(i == n / 2)]),
                        _ => z(false),
                    })
                    .collect();
                check_value(&Variable::from(els), rep);
            }
            for (a, b) in [
                (Variable::Int(7), Variable::Int(8)),
                (Variable::String(Arc::from("a")), Variable::String(Arc::from("a "))),
                (Variable::Bool(true), Variable::Bool(false)),
                (Variable::Void, Variable::Void),
                (Variable::Float(1.0), Variable::Float(1.0000000000000002)),
                (Variable::from(vec![Variable::Int(1)]), Variable::from(Vec::<Variable>::new())),
                (Variable::Tuple(Arc::from([Variable::Int(1), Variable::Int(2)])), Variable::Tuple(Arc::from([Variable::Int(1), Variable::Int(3)]))),
            ] {
                check_value(&Variable::from(vec![a.clone(); n]), rep);
                for odd in [0, n / 2, n - 1] {
                    let mut els = vec![a.clone(); n];
                    els[odd] = b.clone();
                    check_value(&Variable::from(els.clone()), rep);
                    check_value(&Variable::Tuple(Arc::from(els)), rep);
                }
            }
        }
        for n in [1_000usize, 65_536, 400_000, 1_000_000] {
            check_value(&Variable::String(Arc::from("é".repeat(n / 2) + &"x".repeat(n / 2))), rep);
        }
        // a backslash (one, two, three) followed by every printable ASCII character, alone and inside text
        for c in (0x20u32..0x7f).filter_map(char::from_u32) {
            for bs in ["\\", "\\\\", "\\\\\\"] {
                check_value(&Variable::String(Arc::from(format!("{bs}{c}"))), rep);
                check_value(&Variable::String(Arc::from(format!("C:{bs}{c}ric{bs}"))), rep);
            }
        }
        // every ordered pair of the special characters, alone and inside text / arrays (CR LF, LF CR, quote after
        // backslash, combining mark after control ...)
        for a in CHARS {
            for b in CHARS {
                check_value(&Variable::String(Arc::from(format!("{a}{b}"))), rep);
                check_value(&Variable::from(vec![Variable::String(Arc::from(format!("x{a}{b}y{a}{b}"))), Variable::Int(1)]), rep);
            }
        }
        for t in ["dos\r\nlines\r\n", "\r\n", "\n\r", "a\rb\nc", "\r\r\n\n", "tab\there", "\u{1b}[0m", "nul\0\0", "\u{feff}bom", "line\u{2028}sep\u{2029}"] {
            check_value(&Variable::String(Arc::from(t)), rep);
            check_value(&Variable::Tuple(Arc::from([Variable::String(Arc::from(t)), Variable::String(Arc::from(t))])), rep);
        }
        // all 1-char strings over the C0/C1 range followed by a digit
        for c in (0u32..0xA0).filter_map(char::from_u32) {
            check_value(&Variable::String(Arc::from(format!("{c}0"))), rep);
        }
        for (t, e) in [
            ("0", Some(0)), ("00", Some(0)), ("0_", Some(0)), ("1__00_5__", Some(1005)), ("0b_1_11_", Some(7)), ("0o_17__6_", Some(126)),
            ("0x__FA___6___", Some(0xFA6)), ("9223372036854775807", Some(i64::MAX)), ("9223372036854775808", None),
            ("0x7fffffffffffffff", Some(i64::MAX)), ("0x8000000000000000", None), ("0xFFFFFFFFFFFFFFFF", None),
            ("0o777777777777777777777", Some(i64::MAX)), ("0o1000000000000000000000", None),
            ("0b111111111111111111111111111111111111111111111111111111111111111", Some(i64::MAX)),
            ("0b1000000000000000000000000000000000000000000000000000000000000000", None),
            ("18446744073709551616", None), ("340282366920938463463374607431768211456", None),
        ] {
            check_int_literal(t, e, rep);
        }
    }
    let n_values = cfg.per_shard(150_000, 6_000_000);
    let mut deep_done = false;
    for i in 0..n_values {
        // the deep nestings come after a first portion of ordinary values: should a reader be pathologically slow on deep
        // texts, what the ordinary values showed is already in the checkpointed report when the watchdog ends the worker
        if !deep_done && (i == 2_000 || i + 1 == n_values) {
            deep_done = true;
            cfg.checkpoint(rep);
            deep_and_histories(&mut rng, cfg.per_shard(2_000, 80_000), rep);
        }
        if i % 256 == 0 {
            if deadline.over() {
                break;
            }
            cfg.checkpoint(rep);
        }
        let depth = rng.below(4);
        let v = gen_value(&mut rng, depth);
        check_value(&v, rep);
    }
    if !deep_done {
        deep_and_histories(&mut rng, cfg.per_shard(2_000, 80_000), rep);
    }
    let n_lits = cfg.per_shard(150_000, 6_000_000);
    for i in 0..n_lits {
        if i % 256 == 0 && deadline.over() {
            break;
        }
        let (t, e) = gen_int_literal(&mut rng);
        check_int_literal(&t, e, rep);
    }
}

pub fn replay(kind: &str, payload: &str, rep: &mut Report) {
    match kind {
        "c20-intlit" => {
            let text = payload.trim();
            let cleaned: String = text.chars().filter(|c| *c != '_').collect();
            let (radix, digits) = if let Some(r) = cleaned.strip_prefix("0b") { (2, r) } else if let Some(r) = cleaned.strip_prefix("0o") { (8, r) } else if let Some(r) = cleaned.strip_prefix("0x") { (16, r) } else { (10, cleaned.as_str()) };
            let expected = u128::from_str_radix(digits, radix).ok().filter(|m| *m <= i64::MAX as u128).map(|m| m as i64);
            check_int_literal(text, expected, rep);
        }
        _ => {
            // payload is the printed text; the value is recovered by the harness's own reader when possible
            match harness_read(payload) {
                Some(v) => check_value(&v, rep),
                None => rep.notes.push(format!("replay: harness cannot rebuild a value from {payload:?}")),
            }
        }
    }
}

/// the harness's own reader of printed values (Rust Debug escapes for strings)
pub fn harness_read(text: &str) -> Option<Variable> {
    let chars: Vec<char> = text.chars().collect();
    let mut pos = 0;
    let v = read_value(&chars, &mut pos)?;
    skip_ws(&chars, &mut pos);
    (pos == chars.len()).then_some(v)
}

fn skip_ws(c: &[char], pos: &mut usize) {
    while *pos < c.len() && c[*pos] == ' ' {
        *pos += 1;
    }
}

fn read_value(c: &[char], pos: &mut usize) -> Option<Variable> {
    skip_ws(c, pos);
    match *c.get(*pos)? {
        '[' => {
            *pos += 1;
            let mut els = Vec::new();
            loop {
                skip_ws(c, pos);
                if *c.get(*pos)? == ']' {
                    *pos += 1;
                    return Some(Variable::from(els));
                }
                els.push(read_value(c, pos)?);
                skip_ws(c, pos);
                if *c.get(*pos)? == ',' {
                    *pos += 1;
                }
            }
        }
        '(' => {
            *pos += 1;
            skip_ws(c, pos);
            if *c.get(*pos)? == ')' {
                *pos += 1;
                return Some(Variable::Void);
            }
            let mut els = Vec::new();
            loop {
                skip_ws(c, pos);
                if *c.get(*pos)? == ')' {
                    *pos += 1;
                    return Some(Variable::Tuple(els.into()));
                }
                els.push(read_value(c, pos)?);
                skip_ws(c, pos);
                if *c.get(*pos)? == ',' {
                    *pos += 1;
                }
            }
        }
        '"' => {
            *pos += 1;
            let mut s = String::new();
            loop {
                let ch = *c.get(*pos)?;
                *pos += 1;
                match ch {
                    '"' => return Some(Variable::String(Arc::from(s))),
                    '\\' => {
                        let e = *c.get(*pos)?;
                        *pos += 1;
                        match e {
                            'n' => s.push('\n'),
                            'r' => s.push('\r'),
                            't' => s.push('\t'),
                            '0' => s.push('\0'),
                            '\\' => s.push('\\'),
                            '"' => s.push('"'),
                            '\'' => s.push('\''),
                            'u' => {
                                if *c.get(*pos)? != '{' {
                                    return None;
                                }
                                *pos += 1;
                                let mut hex = String::new();
                                while *c.get(*pos)? != '}' {
                                    hex.push(c[*pos]);
                                    *pos += 1;
                                }
                                *pos += 1;
                                s.push(char::from_u32(u32::from_str_radix(&hex, 16).ok()?)?);
                            }
                            _ => return None,
                        }
                    }
                    other => s.push(other),
                }
            }
        }
        't' if c[*pos..].starts_with(&['t', 'r', 'u', 'e']) => {
            *pos += 4;
            Some(Variable::Bool(true))
        }
        'f' if c[*pos..].starts_with(&['f', 'a', 'l', 's', 'e']) => {
            *pos += 5;
            Some(Variable::Bool(false))
        }
        _ => {
            let start = *pos;
            while *pos < c.len() && (c[*pos].is_ascii_alphanumeric() || matches!(c[*pos], '-' | '+' | '.')) {
                *pos += 1;
            }
            let tok: String = c[start..*pos].iter().collect();
            if tok.contains('.') || tok.contains('e') || tok.contains("inf") || tok.contains("NaN") {
                tok.parse::<f64>().ok().map(Variable::Float)
            } else {
                tok.parse::<i64>().ok().map(Variable::Int)
            }
        }
    }
}
