//! C03 parsing and checking is total: panic monitor on Code::parse, Variable::from_str, Type::from_str.
use crate::real::{self, PanicKind};
use crate::util::{Cfg, Deadline, Obj, Report, Rng};
use simplesl::{Code, Error, Interpreter, variable::{Type, Variable}};
use std::str::FromStr;

pub const TOKENS: &[&str] = &[
    "+", "-", "*", "/", "%", "**", "<<", ">>", "&", "|", "^", "==", "!=", "<", "<=", ">", ">=", "&&", "||", "=", "+=", "-=", "*=",
    "/=", "%=", "**=", "<<=", ">>=", "&=", "|=", "^=", "@", "?", "\\", "$", "$+", "$*", "$&&", "$||", "$&", "$|", "$]", "~", "!", ".",
    ".0", ".1", ".a", ",", ";", ":", ":=", "=>", "->", "(", ")", "[", "]", "{", "}", "if", "else", "match", "mut", "return", "loop",
    "while", "for", "in", "break", "continue", "struct", "mod", "import", "true", "false", "int", "float", "string", "bool", "any",
    "0", "1", "2", "64", "1.5", "\"s\"", "()", "[]", "x", "f", "it", "c", "t", "s", "a", "u", "y",
];

pub const TYPE_TOKENS: &[&str] = &[
    "int", "float", "string", "bool", "any", "!", "()", "(", ")", "[", "]", "{", "}", "->", "|", ",", "mut", "struct", "a", ":", "x", " ",
];

pub const VAR_TOKENS: &[&str] = &[
    "true", "false", "0", "1", "-", "1.5", "\"s\"", "()", "(", ")", "[", "]", ",", ";", "struct", "{", "}", "a", ":=", "x", "0x1", "1e5",
    "\"\\q\"", "9223372036854775808", "_", ".", " ",
];

/// parameters giving every kind of local variable (non-constant operands)
pub const PARAMS: &str = "x: int, f: (int)->int, it: ()->(bool, int), c: mut int, t: (int, string), s: struct{a: int}, a: [int], u: int|string, fl: float, st: string, b: bool, an: any, g: (int|string)->(int|float), m: mut (int|string), aa: [any], tt: (int, string)|(float, string), h: ()->(), fi: ()->(bool, float), ss: ()->(bool, string), bi: ()->(bool, bool), nv: ()->!, e0: [], en: ()->(bool, !), um: mut int | mut float, ua: [int] | string, tl: (int, int) | (int, int, int), sl: struct{a: int} | struct{a: string, b: int}, fl2: (int)->int | (int, int)->int";
/// the subset the token alphabet can name (keeps the exhaustive enumeration cheap)
pub const PARAMS_SHORT: &str = "x: int, f: (int)->int, it: ()->(bool, int), c: mut int, t: (int, string), s: struct{a: int}, a: [int], u: int|string";
/// the same names as constants (fold paths)
pub const CONSTS: &str = "x := 5; f := (p: int) -> int { return p }; it := [1, 2]~; c := mut 1; t := (1, \"a\"); s := struct{a := 1}; a := [1, 2, 3]; fl := 2.5; st := \"str\"; b := true; an := [1, \"z\"][0]; h := () { }; fi := [1.5]~; ss := [\"q\"]~; bi := [true]~; aa := [1, \"a\", 2.5]; tt := (1, \"s\"); m := mut int|string 1; g := (p: int|string) -> int|float { return 1 }; u := 7;";

pub struct Ctx<'a> {
    pub rep: &'a mut Report,
    pub consts: Interpreter<'static>,
    pub plain: Interpreter<'static>,
}

impl<'a> Ctx<'a> {
    pub fn new(rep: &'a mut Report) -> Self {
        let mut consts = Interpreter::with_stdlib();
        let code = Code::parse(&consts, CONSTS).expect("constants prelude must be accepted");
        code.exec_unscoped(&mut consts).expect("constants prelude must run");
        Ctx {
            rep,
            consts,
            plain: Interpreter::with_stdlib(),
        }
    }

    /// returns: 0 = rejected by the pest grammar, 1 = rejected by the checker, 2 = accepted, 3 = panic
    pub fn parse(&mut self, family: &str, src: &str, with_consts: bool) -> u8 {
        self.rep.evaluations += 1;
        let interp = if with_consts { &self.consts } else { &self.plain };
        match real::guarded(|| Code::parse(interp, src)) {
            Ok(Ok(_)) => {
                self.rep.count(&format!("{family}:accepted"));
                self.rep.distinct_case(src);
                2
            }
            Ok(Err(Error::Parsing(_))) => {
                self.rep.count(&format!("{family}:syntax-error"));
                0
            }
            Ok(Err(e)) => {
                self.rep.count(&format!("{family}:checker-error"));
                self.rep.shape("checker_errors", &real::error_variant(&e));
                self.rep.distinct_case(src);
                1
            }
            Err(p) => {
                self.panic(family, "Code::parse", src, &p);
                3
            }
        }
    }

    fn panic(&mut self, family: &str, entry: &str, src: &str, p: &real::PanicInfo) {
        match p.kind {
            PanicKind::Panic => {
                let key = format!("c03:{entry}:panic:{}", p.site());
                self.rep.violation(&key, &format!("{entry} panicked at {} ({}) on input [{family}]: {}", p.site(), p.short_msg(), crate::util::truncate(src, 300)), "c03-code", src);
            }
            _ => self.rep.inconclusive(&format!("resource:{:?}", p.kind)),
        }
    }

    pub fn type_from_str(&mut self, family: &str, src: &str) {
        self.rep.evaluations += 1;
        match real::guarded(|| Type::from_str(src)) {
            Ok(Ok(_)) => {
                self.rep.count(&format!("{family}:type-accepted"));
                self.rep.distinct_case(&("type", src));
            }
            Ok(Err(_)) => self.rep.count(&format!("{family}:type-rejected")),
            Err(p) if p.kind == PanicKind::Panic => {
                let key = format!("c03:Type::from_str:panic:{}", p.site());
                self.rep.violation(&key, &format!("Type::from_str panicked at {} ({}) on {src:?}", p.site(), p.short_msg()), "c03-type", src);
            }
            Err(_) => self.rep.inconclusive("resource"),
        }
    }

    pub fn var_from_str(&mut self, family: &str, src: &str) {
        self.rep.evaluations += 1;
        match real::guarded(|| Variable::from_str(src)) {
            Ok(Ok(_)) => {
                self.rep.count(&format!("{family}:var-accepted"));
                self.rep.distinct_case(&("var", src));
            }
            Ok(Err(_)) => self.rep.count(&format!("{family}:var-rejected")),
            Err(p) if p.kind == PanicKind::Panic => {
                let key = format!("c03:Variable::from_str:panic:{}", p.site());
                self.rep.violation(&key, &format!("Variable::from_str panicked at {} ({}) on {src:?}", p.site(), p.short_msg()), "c03-var", src);
            }
            Err(_) => self.rep.inconclusive("resource"),
        }
    }

    /// one token sequence in all statement contexts
    fn contexts(&mut self, family: &str, seq: &str) {
        self.parse(family, seq, true);
        self.parse(family, &format!("({PARAMS_SHORT}) {{ {seq} }}"), false);
        self.parse(family, &format!("({PARAMS_SHORT}) -> int {{ loop {{ {seq} }} return 0 }}"), false);
        self.parse(family, &format!("({PARAMS_SHORT}) {{ r := x {seq} x; }}"), false);
    }
}

// ---------------------------------------------------------------------------------------------
// (b) grammar-directed generation that ignores types

const IDENTS: &[&str] = &["x", "f", "it", "c", "t", "s", "a", "u", "fl", "st", "b", "an", "g", "m", "aa", "tt", "h", "fi", "ss", "bi", "nope", "nv", "e0", "en", "um", "ua", "tl", "sl", "fl2", "*um", "nv()", "e0[0]", "[][x]", "([]~)().1"];
const TYPES: &[&str] = &["int", "float", "string", "bool", "any", "()", "[int]", "[any]", "(int, string)", "int|string", "mut int", "()->(bool, int)", "(int)->int", "struct{a: int}", "!", "[]", "mut (int|string)", "(int|float, bool)"];
const BINOPS: &[&str] = &["+", "-", "*", "/", "%", "**", "<<", ">>", "&", "|", "^", "==", "!=", "<", "<=", ">", ">=", "&&", "||", "=", "+=", "-=", "*=", "/=", "%=", "**=", "<<=", ">>=", "&=", "|=", "^=", "@", "?", "\\"];
const POSTFIX: &[&str] = &[
    "$+", "$*", "$&&", "$||", "$&", "$|", "$]", "~", ".0", ".1", ".2", ".3", ".a", ".b", "()", "(1)", "(x)", "(x, 2)", "[0]", "[x]", "[-1]", "[1:]", "[:2]", "[::2]", "[1:2:1]", "[:]", "[::]",
    "? int", "? string", "? [int]", "? !",
    // every spelling of an int literal where one is read: other radixes, separators, more digits than an int holds
    ".0x1", ".0b1", ".0o1", ".0_1", ".1_", ".00", ".99999999999999999999999999", ".18446744073709551616", ".0xFFFFFFFFFFFFFFFFFF", "[0x1]", "[0b1]", "[0_0]", "[99999999999999999999999999]",
    "[0x1:0b10:0o1]", "[:99999999999999999999999999]", "[::0x0]", "(0x1)", "(99999999999999999999999999)",
];

pub fn wild_expr(rng: &mut Rng, depth: usize) -> String {
    if depth == 0 || rng.chance(1, 4) {
        return match rng.below(12) {
            0..=4 => (*rng.pick(IDENTS)).to_string(),
            5 => rng.range(0, 3).to_string(),
            6 => (*rng.pick(&["0", "1", "63", "64", "65", "9223372036854775807", "0x10", "0b1"])).to_string(),
            7 => (*rng.pick(&["1.5", "0.0", "2e3"])).to_string(),
            8 => (*rng.pick(&["\"s\"", "\"\"", "\"héé\""])).to_string(),
            9 => (*rng.pick(&["true", "false", "()"])).to_string(),
            10 => "[]".to_string(),
            _ => "std.len".to_string(),
        };
    }
    let d = depth - 1;
    match rng.below(20) {
        0..=5 => format!("{} {} {}", wild_expr(rng, d), rng.pick(BINOPS), wild_expr(rng, d)),
        6 | 7 => format!("{}{}", wild_expr(rng, d), rng.pick(POSTFIX)),
        8 => format!("{}{}", rng.pick(&["!", "-", "*"]), wild_expr(rng, d)),
        9 => format!("({})", wild_expr(rng, d)),
        10 => format!("[{}]", (0..rng.below(4)).map(|_| wild_expr(rng, d)).collect::<Vec<_>>().join(", ")),
        11 => format!("({}, {})", wild_expr(rng, d), wild_expr(rng, d)),
        12 => format!("[{}; {}]", wild_expr(rng, d), wild_expr(rng, d)),
        13 => format!("struct{{a := {}, b := {}}}", wild_expr(rng, d), wild_expr(rng, d)),
        14 => format!("mut {}", wild_expr(rng, d)),
        15 => format!("mut {} {}", rng.pick(TYPES), wild_expr(rng, d)),
        16 => format!("{} $ {} {}", wild_expr(rng, d), wild_expr(rng, d), wild_expr(rng, d)),
        17 => format!("({}: {}) -> {} {{ {} }}", rng.pick(&["p", "x", "q"]), rng.pick(TYPES), rng.pick(TYPES), wild_block(rng, d)),
        18 => format!("{}({})", wild_expr(rng, d), (0..rng.below(3)).map(|_| wild_expr(rng, d)).collect::<Vec<_>>().join(", ")),
        _ => format!("{}[{}:{}:{}]", wild_expr(rng, d), wild_expr(rng, d), if rng.chance(1, 2) { wild_expr(rng, d) } else { String::new() }, if rng.chance(1, 2) { wild_expr(rng, d) } else { String::new() }),
    }
}

pub fn wild_stm(rng: &mut Rng, depth: usize) -> String {
    if depth == 0 {
        return wild_expr(rng, 1);
    }
    let d = depth - 1;
    match rng.below(22) {
        0..=4 => wild_expr(rng, depth),
        5 | 6 => format!("{} := {}", rng.pick(&["x", "r", "q", "f", "it", "c", "t", "s", "a", "m", "u"]), wild_stm(rng, d)),
        7 => format!("({}, {}) := {}", rng.pick(&["p", "x"]), rng.pick(&["q", "x"]), wild_stm(rng, d)),
        8 => format!("if {} {{ {} }} else {}", wild_expr(rng, d), wild_block(rng, d), wild_stm(rng, d)),
        9 => format!("if {} {}", wild_expr(rng, d), wild_expr(rng, d)),
        10 => format!("if {}: {} = {} {{ {} }} else {{ {} }}", rng.pick(&["v", "x"]), rng.pick(TYPES), wild_expr(rng, d), wild_block(rng, d), wild_block(rng, d)),
        11 => {
            let mut arms = String::new();
            for _ in 0..rng.below(4) {
                match rng.below(3) {
                    0 => arms.push_str(&format!("{}: {} => {}, ", rng.pick(&["v", "x"]), rng.pick(TYPES), wild_expr(rng, d))),
                    1 => arms.push_str(&format!("{} => {}, ", (0..1 + rng.below(2)).map(|_| wild_expr(rng, d)).collect::<Vec<_>>().join(", "), wild_expr(rng, d))),
                    _ => arms.push_str(&format!("=> {{ {} }}, ", wild_block(rng, d))),
                }
            }
            format!("match {} {{ {arms} }}", wild_expr(rng, d))
        }
        12 => format!("while {} {}", wild_expr(rng, d), wild_stm(rng, d)),
        13 => format!("while {}: {} = {} {{ {} }}", rng.pick(&["v", "x"]), rng.pick(TYPES), wild_expr(rng, d), wild_block(rng, d)),
        14 => format!("for {} in {} {{ {} }}", rng.pick(&["e", "x"]), wild_expr(rng, d), wild_block(rng, d)),
        15 => format!("loop {{ {} }}", wild_block(rng, d)),
        16 => (*rng.pick(&["break", "continue", "return", "return x", "return ()"])).to_string(),
        17 => format!("return {}", wild_stm(rng, d)),
        18 => format!("{{ {} }}", wild_block(rng, d)),
        19 => format!("{} := ({}: {}) -> {} {{ {} }}", rng.pick(&["fn1", "f", "x"]), rng.pick(&["p", "x"]), rng.pick(TYPES), rng.pick(TYPES), wild_block(rng, d)),
        20 => format!("mod {{ {} }}", wild_block(rng, d)),
        _ => format!("{} := mod {{ {} }}", rng.pick(&["md", "x"]), wild_block(rng, d)),
    }
}

pub fn wild_block(rng: &mut Rng, depth: usize) -> String {
    let n = rng.below(4);
    (0..n).map(|_| wild_stm(rng, depth)).collect::<Vec<_>>().join("; ")
}

// ---------------------------------------------------------------------------------------------
// (c) token-level mutation

pub fn tokenize(src: &str) -> Vec<String> {
    let chars: Vec<char> = src.chars().collect();
    let mut out = Vec::new();
    let mut i = 0;
    while i < chars.len() {
        let c = chars[i];
        if c.is_whitespace() {
            i += 1;
        } else if c.is_alphanumeric() || c == '_' {
            let s = i;
            while i < chars.len() && (chars[i].is_alphanumeric() || chars[i] == '_' || (chars[i] == '.' && i + 1 < chars.len() && chars[i + 1].is_ascii_digit() && chars[s].is_ascii_digit())) {
                i += 1;
            }
            out.push(chars[s..i].iter().collect());
        } else if c == '"' {
            let s = i;
            i += 1;
            while i < chars.len() && chars[i] != '"' {
                if chars[i] == '\\' {
                    i += 1;
                }
                i += 1;
            }
            i = (i + 1).min(chars.len());
            out.push(chars[s..i].iter().collect());
        } else if c == '/' && i + 1 < chars.len() && chars[i + 1] == '/' {
            while i < chars.len() && chars[i] != '\n' {
                i += 1;
            }
        } else {
            // longest operator
            let ops = ["<<=", ">>=", "**=", "$&&", "$||", ":=", "=>", "->", "==", "!=", "<=", ">=", "&&", "||", "+=", "-=", "*=", "/=", "%=", "&=", "|=", "^=", "<<", ">>", "**", "$+", "$*", "$&", "$|", "$]"];
            let rest: String = chars[i..(i + 3).min(chars.len())].iter().collect();
            if let Some(op) = ops.iter().find(|op| rest.starts_with(**op)) {
                out.push(op.to_string());
                i += op.chars().count();
            } else {
                out.push(c.to_string());
                i += 1;
            }
        }
    }
    out
}

pub fn mutate(tokens: &[String], other: &[String], rng: &mut Rng) -> String {
    let mut t: Vec<String> = tokens.to_vec();
    let n_mut = 1 + rng.below(3);
    for _ in 0..n_mut {
        if t.is_empty() {
            break;
        }
        let i = rng.below(t.len());
        match rng.below(7) {
            0 => {
                t.remove(i);
            }
            1 => t.insert(i, (*rng.pick(TOKENS)).to_string()),
            2 => t[i] = (*rng.pick(TOKENS)).to_string(),
            3 => {
                let j = rng.below(t.len());
                t.swap(i, j);
            }
            4 => {
                let tok = t[i].clone();
                t.insert(i, tok);
            }
            5 if !other.is_empty() => {
                // splice a window of another program
                let a = rng.below(other.len());
                let b = (a + 1 + rng.below(6)).min(other.len());
                let cut = (i + rng.below(4)).min(t.len());
                t.splice(i..cut, other[a..b].iter().cloned());
            }
            _ => {
                // replace an identifier / literal by another bound name or literal
                t[i] = (*rng.pick(&["x", "f", "it", "0", "1.5", "\"s\"", "true", "()", "[]", "c", "t", "s"])).to_string();
            }
        }
    }
    t.join(" ")
}

/// programs every construct of the documentation appears in (all accepted on the pinned tree)
pub const CHECKLIST: &[&str] = &[
    "x := 5; y := 5.0; text := \"Hello\\n world\"; arr := [\"int\", 7.0, 4]; z := [0; 5]; tup := (5, 7.8, \"value\"); { tup := (4, \"rgg\", 56); tup } tup",
    "delta := (a: float, b: float, c: float) -> float { return b**2.0+4.0*a*c }; delta(1.0, 2.0, 3.0)",
    "rec := (n: int) { if n>0 { rec(n-1); } }; rec(3)",
    "y := (f: ()->()) { f() }; y(()->(){ })",
    "iota := (start: int, end: int) -> () -> (bool, int) { i := mut start; return () -> (bool, int) { val := *i; if(val<end){ i+=1; return (true, val); } return (false, val); } }; iota(0, 3) $]",
    "is_even := (a: int) -> bool { return a%2==0 }; x := [23, 2, 12, 45, 0, 65, -2]~ ? is_even; for e in x { e; } x $]",
    "v := [1, 2.5, \"3\"]~ ? int $]; w := [1, 2, 3]~ @ (q: int) -> int { return q * 2 } $+; (v, w)",
    "p := [1, 2, 3, 4]~ \\ (q: int) -> bool { return q > 2 }; p.0",
    "r := [1, 2, 3]~ $ 0 (acc: int, cur: int) -> int { return acc + cur }; r",
    "[true, false]~ $&&; [true, false]~ $||; [1, 3]~ $&; [1, 2]~ $|; [1, 2]~ $*; [1.5]~ $+; [\"a\", \"b\"]~ $+",
    "m := mut 5; m = 6; m += 1; m -= 1; m *= 2; m /= 2; m %= 4; m **= 2; m <<= 1; m >>= 1; m &= 7; m |= 8; m ^= 1; *m",
    "u := mut int|string 5; u = \"s\"; if q: int = *u { q } else { 0 }",
    "k := 0; i := mut 0; while *i < 3 { i += 1; if *i == 2 { continue } } loop { break } *i",
    "w := [1, \"a\"][0]; match w { q: int => q, q: string => 0, }",
    "w := [1, \"a\"][0]; match w { => 1, }",
    "s := struct{a := 1, b := \"x\"}; s.a; t := (1, 2); t.0; (a, b) := t; a + b",
    "md := mod { a := 1; f := (x: int) -> int { return x + a } }; md.f(2)",
    "while q: int = [1, \"a\"][1] { break }; 1",
    "a := [1, 2, 3]; a[0]; a[-1]; a[1:]; a[:2]; a[::2]; a[::-1]; a[0:3:1]; \"héllo\"[1]; \"héllo\"[1:3]; std.len(a); std.len(\"ab\")",
    "!true; !5; -5; -2.5; 1 << 3; 8 >> 1; 5 & 3; 5 | 3; 5 ^ 3; true & false; true | false; true ^ true; 2 ** 10; 7 / 2; 7 % 2; 2.0 ** 0.5; 1 < 2; 2 <= 2; 3 > 2; 3 >= 4; 1 == 1; 1 != 2; true && false; true || false",
    "f := () -> (int|string) { return 1 }; g := (h: (int)->any) -> any { return h(1) }; g((q: int|float) -> int { return 2 })",
    "/* block */ x := 1 // line\n x",
    "std.math.PI; std.string.to_uppercase(\"a\"); std.convert.to_float(1); std.convert.to_string([1, 2])",
    "cnt := mut 0; it2 := () -> (bool, int) { cnt += 1; return (*cnt < 3, *cnt) }; it2 @ (q: int) -> int { return q } ? (q: int) -> bool { return true } $]",
    "e := []; e2 := e + [1]; e3 := [e, [1]]; e3[1][0]",
    "n := ([]~)(); n.0",
    // a name re-declared in terms of itself, at another type
    "x := mut 5; x := *x; x",
    "t := (1, \"a\"); t := t.0; t + 1",
    "a := [1, 2]; a := a[0]; a + 1",
    "f := (p: int) -> int { return p }; f := f(1); f + 1",
    "s := struct{a := 1}; s := s.a; s + 1",
    "it := [1, 2]~; it := it $]; it[0]",
    "c := mut int|string 1; c := if v: int = *c { v } else { 0 }; c + 1",
    "(p, q) := (mut 1, 2); (p, q) := (*p, p); p + *q",
];

/// value-arm matches (separate: crash the checker on the pinned tree, D3)
pub const MATCH_VALUE_ARMS: &[&str] = &[
    "match 5 { 5 => 1, => 2, }",
    "w := [1, \"a\"][0]; match w { 1, 2 => \"small\", q: int => \"int\", => \"other\", }",
    "(x: int) -> int { return match x { 0 => 1, 1, 2 => 3, => 4, } }",
    "match \"a\" { \"a\", \"b\" => true, => false, }",
    "match (1, 2) { (1, 2) => 1, => 0, }",
    "match [1] { [1] => 1, [] => 2, => 0, }",
    "f := (n: int) -> int { return n }; match f(2) { f(1), f(2) => 1, => 0, }",
];

const FOLD_FAILS: &[&str] = &["1/0", "1%0", "1<<64", "1>>(-1)", "2**(-1)", "[][0]", "\"a\"[3]", "[0;(-1)]", "[1,2][5]", "[1,2][-3]", "1/(1-1)", "[7][1/0]"];

fn fold_positions(e: &str) -> Vec<String> {
    vec![
        format!("{e}"),
        format!("r := {e}; r"),
        format!("1 + {e}"),
        format!("{e} + 1"),
        format!("({e}) == 1"),
        format!("if ({e}) == 1 {{ 1 }} else {{ 2 }}"),
        format!("while ({e}) == 1 {{ break }}"),
        format!("true && (({e}) == 1)"),
        format!("false && (({e}) == 1)"),
        format!("(({e}) == 1) || true"),
        format!("true || (({e}) == 1)"),
        format!("[1, 2, 3][{e}]"),
        format!("[1, 2, 3][{e}:]"),
        format!("[1, 2, 3][:{e}]"),
        format!("[1, 2, 3][::{e}]"),
        format!("[{e}, 2]"),
        format!("(1, {e})"),
        format!("struct{{a := {e}}}"),
        format!("[{e}; 2]"),
        format!("[2; {e}]"),
        format!("match {e} {{ => 1, }}"),
        format!("match {e} {{ q: any => 1, }}"),
        format!("(p, q) := ({e}, 2); p"),
        format!("f := (p: any) {{ }}; f({e})"),
        format!("m := mut {e}; m"),
        format!("k := {e}; g := () -> any {{ return k }}; g"),
        format!("g := () -> any {{ return {e} }}; g"),
        format!("{e}; 5"),
        format!("{{ {e}; 5 }}"),
        format!("if true {{ {e} }} else {{ 1 }}"),
        format!("if false {{ {e} }} else {{ 1 }}"),
        format!("-({e})"),
        format!("!({e})"),
        format!("[({e})]~ $]"),
        format!("(x: int) -> any {{ return {e} }}"),
        format!("(x: int) -> any {{ y := x; return ({e}, y) }}"),
        format!("mod {{ a := {e} }}"),
        format!("(x: int) {{ loop {{ r := {e}; break }} }}"),
        format!("(x: int) -> any {{ return x / ({e}) }}"),
        format!("(x: int) -> any {{ return x % ({e}) }}"),
        format!("(x: int) -> any {{ return x << ({e}) }}"),
        format!("(x: int) -> any {{ return [x][{e}] }}"),
        format!("(x: int) -> any {{ return [x, x][{e}] }}"),
    ]
}

/// (l) statements standing after a statement that never completes (break / continue / return / a call of a `-> !`
/// function), in every kind of body - blocks, function bodies, loop bodies, branches, arms, module bodies and imported
/// files (whose declarations, also the unreachable ones, are the module's fields)
pub fn unreachable_code_programs(import_dir: Option<&str>) -> Vec<String> {
    let pres = ["", "a := 1; "];
    let divs = ["break", "continue", "return 1", "return", "never()", "loop { }", "if true { break } else { continue }"];
    let posts = [
        "a := 2", "b := a", "g := () -> int { return 1 }", "a := 1; b := a + 1", "(p, q) := (1, 2)", "c := mut 0; c += 1", "n := mod { z := 1 }", "loop { break; }",
        "a := \"s\"; b := a + \"t\"", "x := [1][5]", "x := 1 / 0", "h := () -> int { return a }", "",
    ];
    let containers = [
        "loop { m := mod { BODY }; break; }",
        "loop { m := mod { BODY }; r := m.a; break; }",
        "loop { m := mod { BODY }; r := (m.a, m.b); break; }",
        "f := () -> int { m := mod { BODY }; return 1 }; f()",
        "f := () -> int { m := mod { BODY }; return m.a }; f()",
        "loop { { BODY } break; }",
        "f := () -> int { BODY; return 2 }; f()",
        "loop { if true { BODY } break; }",
        "loop { match 1 { 1 => { BODY }, => { } } break; }",
        "loop { if v: int = 1 { BODY } break; }",
        "for x in [1]~ { BODY }",
        "f := () -> int { loop { BODY } return 3 }; f()",
        "m := mod { f := () -> int { BODY; return 4 } }; m.f()",
        "f := () -> () -> int { return () -> int { BODY; return 5 } }; f()()",
    ];
    let never = "never := () -> ! { return never() }; ";
    let mut out = Vec::new();
    for c in containers {
        for pre in pres {
            for div in divs {
                for post in posts {
                    let body = format!("{pre}{div}; {post}");
                    out.push(format!("{never}{}", c.replace("BODY", &body)));
                }
            }
        }
    }
    if let Some(dir) = import_dir {
        let mut k = 0;
        for pre in pres {
            for div in divs {
                for post in posts {
                    k += 1;
                    let path = format!("{dir}/unreach{k}.ssl");
                    if std::fs::write(&path, format!("{pre}{div}; {post}")).is_err() {
                        continue;
                    }
                    for c in ["loop {{ m := import \"{}\"; break; }}", "loop {{ m := import \"{}\"; r := m.a; break; }}", "f := () -> int {{ m := import \"{}\"; return 1 }}; f()", "m := import \"{}\"; m"] {
                        out.push(format!("{never}{}", c.replace("{{", "{").replace("}}", "}").replace("{}", &path)));
                    }
                }
            }
        }
    }
    out
}

/// (m) constructs whose helper functions the interpreter builds lazily, as the *first* thing a fresh process parses
/// with a bare interpreter - at top level, inside a function, inside a module, inside an imported file
pub fn first_use_texts(import_dir: &str) -> Vec<String> {
    let uses = [
        "[true]~ $&&", "[true]~ $||", "[1]~ $&", "[1]~ $|", "[1]~ $+", "[1.5]~ $+", "[\"a\"]~ $+", "[1]~ $*", "[1.5]~ $*", "[1]~ $]", "[1]~", "[1]~ @ (x: int) -> int { return x }",
        "[1]~ ? (x: int) -> bool { return true }", "[1]~ \\ (x: int) -> bool { return true }", "[1, \"a\"]~ ? int", "[1]~ $ 0 (a: int, x: int) -> int { return a + x }",
        "for x in [1]~ { x; }", "[[true]~ $&&, [false]~ $||]", "[1]~ ? mut int",
    ];
    let mut out = Vec::new();
    for (k, u) in uses.iter().enumerate() {
        out.push(format!("r := {u}; r"));
        out.push(format!("f := () -> any {{ return {u} }}; f()"));
        out.push(format!("m := mod {{ r := {u} }}; m.r"));
        let path = format!("{import_dir}/first{k}.ssl");
        if std::fs::write(&path, format!("r := {u};")).is_ok() {
            out.push(format!("m := import \"{path}\"; m.r"));
            out.push(format!("f := () -> any {{ m := import \"{path}\"; return m.r }}; f()"));
            let outer = format!("{import_dir}/first{k}_outer.ssl");
            if std::fs::write(&outer, format!("inner := import \"{path}\"; q := inner.r;")).is_ok() {
                out.push(format!("m := import \"{outer}\"; m.q"));
            }
        }
    }
    out
}

fn scratch_dir(cfg: &Cfg) -> std::path::PathBuf {
    let d = std::path::PathBuf::from(format!("/verif/target/scratch/c03-{}-{}", std::process::id(), cfg.shard));
    let _ = std::fs::create_dir_all(&d);
    d
}

fn corpus() -> Vec<String> {
    let mut out: Vec<String> = CHECKLIST.iter().map(|s| s.to_string()).collect();
    out.extend(MATCH_VALUE_ARMS.iter().map(|s| s.to_string()));
    if let Ok(rd) = std::fs::read_dir("/repo/example_scripts") {
        for e in rd.flatten() {
            if let Ok(s) = std::fs::read_to_string(e.path()) {
                out.push(s);
            }
        }
    }
    for doc in ["/repo/README.md", "/repo/docs/iterators.md", "/repo/docs/statements.md", "/repo/docs/operators.md"] {
        if let Ok(text) = std::fs::read_to_string(doc) {
            let mut in_block = false;
            let mut cur = String::new();
            for line in text.lines() {
                if line.trim_start().starts_with("```") {
                    if in_block && !cur.trim().is_empty() {
                        out.push(std::mem::take(&mut cur));
                    }
                    cur.clear();
                    in_block = !in_block;
                } else if in_block {
                    cur.push_str(line);
                    cur.push('\n');
                }
            }
        }
    }
    out
}

pub fn run(cfg: &Cfg, rep: &mut Report) {
    if let Some(spec) = cfg.extra.get("fresh") {
        // child process: parse (and run) text number k of the first-use family with a bare interpreter, nothing before it
        let (k, dir) = spec.split_once(':').unwrap_or(("0", ""));
        let texts = first_use_texts(dir);
        let Some(text) = texts.get(k.parse::<usize>().unwrap_or(0)) else { return };
        let interp = Interpreter::without_stdlib();
        match real::guarded(|| Code::parse(&interp, text).map(|c| c.exec().map(|v| v.to_string()))) {
            Ok(r) => println!("OK {}", crate::util::truncate(&format!("{r:?}"), 200).replace('\n', " ")),
            Err(p) => println!("PANIC {} {}", p.site(), p.short_msg().replace('\n', " ")),
        }
        return;
    }
    let deadline = Deadline::new(cfg.budget_s);
    let mut ctx = Ctx::new(rep);
    let mut rng = cfg.rng(3);

    // (i) operator x operand-type family and constant operands of union static type (operators evaluated while folding)
    for (idx, case) in crate::optyping::cases().iter().enumerate() {
        if cfg.owns(idx as u64) {
            ctx.parse("operator-typing", &case.decl, false);
            if let Some(call) = case.calls.first() {
                ctx.parse("operator-typing", call, false);
            }
        }
    }
    for (idx, src) in crate::optyping::const_union_programs().iter().enumerate() {
        if cfg.owns(idx as u64) {
            ctx.parse("operator-typing-const-union", src, false);
        }
    }
    for (idx, case) in crate::optyping::typed_filter_cases().iter().enumerate() {
        if cfg.owns(idx as u64) {
            for c in &case.calls {
                ctx.parse("typed-type-filter", c, false);
            }
        }
    }
    for (idx, case) in crate::optyping::match_coverage_cases().iter().enumerate() {
        if cfg.owns(idx as u64) {
            ctx.parse("match-coverage", &case.decl, false);
        }
    }
    for (idx, case) in crate::optyping::union_call_cases().iter().enumerate() {
        if cfg.owns(idx as u64) {
            for c in &case.calls {
                ctx.parse("union-call", c, false);
            }
        }
    }
    // (o) special constants (NaN, infinities, -0.0, MIN_INT, MAX_INT, overflowing float products) under every operator and
    // in every position where the folding pass evaluates constants: no failure kind covers them, they must just fold
    {
        let specials = ["(0.0 / 0.0)", "(1.0 / 0.0)", "(-1.0 / 0.0)", "(-0.0)", "(0 - 9223372036854775807 - 1)", "9223372036854775807", "(1e308 * 10.0)", "(1e308 * 10.0 - 1e308 * 10.0)", "5e-324", "1", "2.5", "0", "0.0"];
        let ops = ["+", "-", "*", "/", "%", "**", "==", "!=", "<", "<=", ">", ">=", "&&", "||", "&", "|", "^", "<<", ">>"];
        let mut k = 0u64;
        for a in specials {
            for b in specials {
                k += 1;
                if !cfg.owns(k) {
                    continue;
                }
                for op in ops {
                    let e = format!("{a} {op} {b}");
                    for text in [
                        e.clone(),
                        format!("x := {a}; y := {b}; x {op} y"),
                        format!("x := {e}; [x, x]"),
                        format!("if {e} == {e} {{ 1 }} else {{ 2 }}"),
                        format!("match {a} {{ {b} => 1, => 2, }}"),
                        format!("m := match {e} {{ {a}, {b} => 1, => 2, }}; m"),
                        format!("f := () -> any {{ return {e} }}; f()"),
                        format!("c := mut {a}; c {op}= {b}"),
                        format!("[{a}, {b}]~ $+"),
                        format!("[{a}, {b}]~ $*"),
                        format!("[{e}]~ ? (v: any) -> bool {{ return v == {a} }} $]"),
                        format!("[1, 2, 3][{e}]"),
                        format!("[1, 2, 3][{a}:{b}]"),
                        format!("[0; {e}]"),
                        format!("-({e})"),
                        format!("!({e})"),
                    ] {
                        ctx.parse("special-constants", &text, false);
                    }
                }
            }
        }
    }
    // (n) every text of one or two printable ASCII characters, alone, before a program (same line / next line) and
    // after one: comment-like, shebang-like and escape-like prefixes the grammar has no rule for
    {
        let ascii: Vec<char> = (0x20u8..0x7f).map(|b| b as char).collect();
        let mut k = 0u64;
        for a in &ascii {
            for b in std::iter::once(None).chain(ascii.iter().map(Some)) {
                k += 1;
                if !cfg.owns(k) {
                    continue;
                }
                let t: String = match b {
                    Some(b) => format!("{a}{b}"),
                    None => a.to_string(),
                };
                for text in [t.clone(), format!("{t}1"), format!("{t} x := 5"), format!("{t}\n1"), format!("{t}\r\n1"), format!("{t}/usr/bin/env simplesl"), format!("1 {t}"), format!("1\n{t}")] {
                    ctx.parse("short-ascii-texts", &text, false);
                }
            }
        }
    }
    for (idx, src) in crate::optyping::diverging_branch_programs().iter().enumerate() {
        if cfg.owns(idx as u64) {
            ctx.parse("diverging-branch-narrowing", src, false);
        }
    }
    // (k) a construct that introduces a name, with that name used where it is not (yet) in scope, with and without an
    // outer variable of that name (of the same and of another type)
    if cfg.shard == 1 % cfg.nshards {
        let forms = [
            "if v: int = v { v }", "if v: int = v + 1 { v } else { 0 }", "while v: int = v { break }", "while v: string = v + 1 { break }", "v := v", "v := v + 1", "(v, w) := (w, v)",
            "for v in v { v }", "for v in [v]~ { v }", "v := (x: int) -> int { return w }", "match v { v: int => v, => 0, }", "match 1 { v => 1, => 0, }", "v := mod { a := v }",
            "v := { v }", "v := if true { v } else { 0 }", "v := [v; 2]", "v := struct{a := v}", "v := mut v", "v = 1", "v += 1", "*v", "v()", "v.0", "v[0]", "v~", "v ? int",
            "f := (v: int) -> int { if v: string = v { return 1 } return v }", "f := (v: int) -> any { v := v; return v }", "if v: int = (if w: int = v { w } else { 0 }) { v }",
        ];
        let outers = ["", "v := 1.5; ", "v := 1; ", "v := \"s\"; w := 2; ", "v := mut 5; ", "v := [1]~; ", "v := (1, 2); w := 1; ", "c := mut 5; v := c; "];
        for outer in outers {
            for form in forms {
                ctx.parse("name-used-in-its-own-binder", &format!("{outer}{form}"), false);
                ctx.parse("name-used-in-its-own-binder", &format!("{outer}g := () -> any {{ {form}; return 0 }}; g()"), false);
                ctx.parse("name-used-in-its-own-binder", &format!("{outer}loop {{ {form}; break }}"), false);
            }
        }
    }
    // (d) checklist + imports (every shard: cheap)
    if cfg.shard == 0 {
        let mut accepted = 0;
        for p in CHECKLIST {
            if ctx.parse("checklist", p, false) == 2 {
                accepted += 1;
            } else {
                ctx.rep.notes.push(format!("checklist program not accepted: {p}"));
            }
        }
        ctx.rep.add("checklist_accepted", accepted);
        for p in MATCH_VALUE_ARMS {
            if ctx.parse("match-value-arms", p, false) == 2 {
                ctx.rep.count("match_value_arm_programs_accepted");
            }
        }
        let d = scratch_dir(cfg);
        let w = |name: &str, bytes: &[u8]| {
            let p = d.join(name);
            let _ = std::fs::write(&p, bytes);
            p.to_string_lossy().to_string()
        };
        let good = w("good.ssl", b"a := 1; f := (x: int) -> int { return x + a }");
        let syntax = w("syntax.ssl", b"a := := 1");
        let types = w("types.ssl", b"a := 1 + \"s\"");
        let nonutf = w("nonutf8.ssl", &[0x61, 0x20, 0x3a, 0x3d, 0x20, 0xff, 0xfe]);
        let foldfail = w("fold.ssl", b"a := 1 / 0");
        let retout = w("ret.ssl", b"return 5");
        let brk = w("brk.ssl", b"break");
        let nested = w("nested.ssl", format!("inner := import \"{good}\"; b := inner.a").as_bytes());
        let empty = w("empty.ssl", b"");
        let dir = d.to_string_lossy().to_string();
        for (label, path) in [("good", &good), ("syntax", &syntax), ("types", &types), ("nonutf8", &nonutf), ("fold", &foldfail), ("ret", &retout), ("brk", &brk), ("nested", &nested), ("empty", &empty), ("dir", &dir), ("missing", &format!("{dir}/missing.ssl")), ("nul", &"a\\u{0}b".to_string()), ("emptypath", &String::new()), ("root", &"/".to_string()), ("dot", &".".to_string()), ("dotdot", &"..".to_string()), ("rootfile", &"/missing_file_at_root.ssl".to_string()), ("slashes", &"///".to_string()), ("trailing", &format!("{good}/"))] {
            for form in ["m := import \"{}\"; m", "import \"{}\"", "(x: int) -> any {{ return import \"{}\" }}", "loop {{ import \"{}\"; break }}", "x := (import \"{}\").a"] {
                let src = form.replace("{{", "{").replace("}}", "}").replace("{}", path);
                let r = ctx.parse("import", &src, false);
                ctx.rep.shape("import_cases", &format!("{label}:{}", ["syntax-error", "checker-error", "accepted", "panic"][r as usize]));
            }
        }
        // a file that reads names of the importing scope, imported more than once from scopes that differ in them
        let uses = w("uses.ssl", b"twice := n * 2; tag := s + \"!\"");
        for src in [
            format!("n := 1; s := \"a\"; a := import \"{uses}\"; b := import \"{uses}\"; (a, b)"),
            format!("n := 1; s := \"a\"; a := import \"{uses}\"; f := (n: string) -> any {{ return import \"{uses}\" }}; f(\"x\")"),
            format!("n := 1; s := \"a\"; a := import \"{uses}\"; f := (q: int) -> any {{ n := \"ab\"; return import \"{uses}\" }}; f(1)"),
            format!("f := (n: int, s: string) -> any {{ return import \"{uses}\" }}; g := (n: float, s: string) -> any {{ return import \"{uses}\" }}; (f(1, \"a\"), g(1.5, \"b\"))"),
            format!("n := 1; s := \"a\"; a := import \"{uses}\"; {{ s := 5; b := import \"{uses}\" }}"),
            format!("a := import \"{uses}\"; n := 1; s := \"a\"; b := import \"{uses}\"; b"),
            format!("n := 1; s := \"a\"; m := mod {{ x := import \"{uses}\" }}; k := (s: int) -> any {{ return import \"{uses}\" }}; k(2)"),
            format!("n := 2; s := \"a\"; a := import \"{uses}\"; n := 10; b := import \"{uses}\"; (a.twice, b.twice)"),
            format!("f := (n: int, s: string) -> any {{ return import \"{uses}\" }}; g := () -> any {{ return import \"{uses}\" }}; g()"),
            format!("f := (n: int, s: string) -> any {{ return import \"{uses}\" }}; m := import \"{uses}\"; m"),
            format!("f := (n: int, s: string) -> any {{ return import \"{uses}\" }}; n := \"ab\"; s := \"x\"; m := import \"{uses}\"; m"),
            format!("f := (n: int, s: string) -> any {{ return import \"{uses}\" }}; n := 3; s := 4; m := import \"{uses}\"; m"),
            format!("{{ n := 1; s := \"a\"; a := import \"{uses}\" }}; b := import \"{uses}\"; b"),
            format!("for n in [1]~ {{ s := \"a\"; a := import \"{uses}\" }}; for s in [1]~ {{ n := 2; b := import \"{uses}\" }}"),
        ] {
            let r = ctx.parse("import-twice", &src, false);
            ctx.rep.shape("import_cases", &format!("twice:{}", ["syntax-error", "checker-error", "accepted", "panic"][r as usize]));
        }
        // (l) statements after a diverging statement, in imported files (the inline forms are split over all shards below)
        for src in unreachable_code_programs(Some(&dir)).iter().filter(|t| t.contains("import")) {
            let r = ctx.parse("unreachable-code", src, false);
            ctx.rep.shape("import_cases", &format!("unreachable:{}", ["syntax-error", "checker-error", "accepted", "panic"][r as usize]));
        }
        // (m) first use of every lazily built helper in a fresh process with a bare interpreter
        if let Ok(exe) = std::env::current_exe() {
            let n = first_use_texts(&dir).len();
            for k in 0..n {
                let out = std::process::Command::new(&exe).args(["C03", "--out", "/dev/null", "--opt", &format!("fresh={k}:{dir}")]).stdin(std::process::Stdio::null()).output();
                ctx.rep.evaluations += 1;
                match out {
                    Ok(o) => {
                        let text = String::from_utf8_lossy(&o.stdout);
                        let line = text.lines().last().unwrap_or("");
                        if line.starts_with("OK ") {
                            ctx.rep.count("first-use-in-fresh-process:ok");
                        } else if let Some(rest) = line.strip_prefix("PANIC ") {
                            let src = first_use_texts(&dir).get(k).cloned().unwrap_or_default();
                            let site = rest.split(' ').next().unwrap_or("?");
                            ctx.rep.violation(&format!("c03:first-use-in-fresh-process:panic:{site}"), &format!("as the first thing a process parses (bare interpreter), `{}` panicked: {rest}", crate::util::truncate(&src.replace(&dir, "<dir>"), 200)), "c03-fresh", &src);
                        } else if !o.status.success() {
                            let src = first_use_texts(&dir).get(k).cloned().unwrap_or_default();
                            ctx.rep.violation("c03:first-use-in-fresh-process:abort", &format!("as the first thing a process parses, `{}` killed the process ({})", crate::util::truncate(&src.replace(&dir, "<dir>"), 200), o.status), "c03-fresh", &src);
                        } else {
                            ctx.rep.inconclusive("first-use-child-no-verdict");
                        }
                    }
                    Err(_) => ctx.rep.inconclusive("first-use-child-not-started"),
                }
            }
        }
        let _ = std::fs::remove_dir_all(&d);
    }
    for (idx, src) in unreachable_code_programs(None).iter().enumerate() {
        if cfg.owns(idx as u64) {
            ctx.parse("unreachable-code", src, false);
        }
    }

    // (e) failing constant subexpressions in every constant position
    let mut cell = 0u64;
    for e in FOLD_FAILS {
        for src in fold_positions(e) {
            cell += 1;
            if cfg.owns(cell) {
                let r = ctx.parse("fold-fail", &src, false);
                ctx.rep.shape("fold_fail_outcomes", ["syntax-error", "checker-error", "accepted", "panic"][r as usize]);
                let r2 = ctx.parse("fold-fail", &format!("({PARAMS}) {{ {src} }}"), false);
                let _ = r2;
            }
        }
    }

    // (h) every parameter (incl. unions of tuples / structs / functions / cells of different shapes) x every postfix
    // form x four usage contexts that make the checker ask for the result type
    let names: Vec<&str> = PARAMS.split(", ").filter_map(|p| p.split(':').next()).collect();
    for name in &names {
        for post in POSTFIX.iter().chain([".2", ".3", ".b", "(1, 2)", "[0][0]", "~ $]", "~ $+"].iter()) {
            cell += 1;
            if !cfg.owns(cell) {
                continue;
            }
            for ctxt in ["return {}", "r := {}; r", "h2 := (q: any) -> any {{ return q }}; h2({})", "[{}, 1]", "if v: int = {} {{ v }}", "match {} {{ => 1, }}", "-{}", "mut {}"] {
                let e = format!("{name}{}{post}", if post.starts_with('?') || post.starts_with('$') || post.starts_with('~') { " " } else { "" });
                let body = ctxt.replace("{{", "{").replace("}}", "}").replace("{}", &e);
                ctx.parse("params-x-postfix", &format!("({PARAMS}) -> any {{ {body} }}"), false);
            }
        }
    }

    // (a) token sequences: exhaustive up to length 3 (quick) in all contexts
    let nt = TOKENS.len() as u64;
    let exhaustive_len = if cfg.thorough() { 3 } else { 3 };
    let mut idx = 0u64;
    'outer: for len in 1..=exhaustive_len {
        let total = nt.pow(len);
        for code in 0..total {
            idx += 1;
            if !cfg.owns(idx) {
                continue;
            }
            if idx % 4096 == 0 && deadline.over() {
                ctx.rep.inconclusive("budget-cut-token-enumeration");
                break 'outer;
            }
            let mut c = code;
            let mut seq = String::new();
            for _ in 0..len {
                seq.push_str(TOKENS[(c % nt) as usize]);
                seq.push(' ');
                c /= nt;
            }
            ctx.contexts("tokens", &seq);
        }
        ctx.rep.add(&format!("token_sequences_len{len}_total"), if cfg.shard == 0 { total } else { 0 });
    }
    // type / value literal token sequences
    let ntt = TYPE_TOKENS.len() as u64;
    let tl = if cfg.thorough() { 5 } else { 4 };
    let mut tidx = 0u64;
    for len in 1..=tl {
        for code in 0..ntt.pow(len) {
            tidx += 1;
            if !cfg.owns(tidx) {
                continue;
            }
            let mut c = code;
            let mut seq = String::new();
            for _ in 0..len {
                seq.push_str(TYPE_TOKENS[(c % ntt) as usize]);
                c /= ntt;
            }
            ctx.type_from_str("type-tokens", &seq);
        }
    }
    let nvt = VAR_TOKENS.len() as u64;
    let mut vidx = 0u64;
    for len in 1..=4u32 {
        for code in 0..nvt.pow(len) {
            vidx += 1;
            if !cfg.owns(vidx) {
                continue;
            }
            let mut c = code;
            let mut seq = String::new();
            for _ in 0..len {
                seq.push_str(VAR_TOKENS[(c % nvt) as usize]);
                c /= nvt;
            }
            ctx.var_from_str("var-tokens", &seq);
        }
    }

    let corpus = corpus();
    let corpus_tokens: Vec<Vec<String>> = corpus.iter().map(|s| tokenize(s)).collect();
    ctx.rep.add("corpus_programs", if cfg.shard == 0 { corpus.len() as u64 } else { 0 });

    let typed_profiles: Vec<crate::genp::Profile> = {
        let mut few = crate::genp::Profile::mixed();
        few.name = "few-names";
        few.names = &["a", "b", "x"];
        few.closures = 40;
        few.modules = 10;
        let mut hostile = crate::genp::Profile::mixed();
        hostile.name = "hostile";
        hostile.err = 30;
        hostile.names = crate::genp::NAMES_HOSTILE;
        vec![few, hostile, crate::genp::Profile::mixed()]
    };
    // sampled families until the budget is used
    let rounds = cfg.per_shard(400_000, 40_000_000);
    for i in 0..rounds {
        if i % 256 == 0 {
            if deadline.over() {
                break;
            }
            cfg.checkpoint(ctx.rep);
        }
        if i % 10 == 9 {
            // (g) programs of the typed generator (shadowing at other types, closures, modules): parse only
            let profile = typed_profiles[(i / 10 % typed_profiles.len() as u64) as usize].clone();
            let (body, _) = crate::props::diff::gen_program(cfg.seed ^ 0xC03, cfg.shard, i, &profile);
            let mode = if i % 20 == 9 { crate::ast::Mode::Literal } else { crate::ast::Mode::Hidden };
            let text = crate::prog::program_text(&body, mode);
            ctx.parse("typed-generator", &text, false);
            continue;
        }
        match rng.below(10) {
            0 | 1 => {
                // (a') longer token sequences
                let len = 4 + rng.below(5);
                let seq: Vec<&str> = (0..len).map(|_| *rng.pick(TOKENS)).collect();
                ctx.contexts("tokens-long", &seq.join(" "));
            }
            2..=5 => {
                // (b) grammar-directed, types ignored
                let depth = 1 + rng.below(4);
                let body = wild_block(&mut rng, depth);
                if rng.chance(1, 2) {
                    ctx.parse("wild", &format!("({PARAMS}) -> any {{ {body} }}"), false);
                } else {
                    ctx.parse("wild", &body, true);
                }
                ctx.rep.sample("wild", 3, || Obj::new().s("family", "grammar-directed").s("input", &crate::util::truncate(&body, 300)).render());
            }
            6..=8 => {
                // (c) mutation of a corpus program
                let k = rng.below(corpus_tokens.len());
                let o = rng.below(corpus_tokens.len());
                let m = mutate(&corpus_tokens[k], &corpus_tokens[o], &mut rng);
                ctx.parse("mutant", &m, false);
                ctx.rep.sample("mutant", 3, || Obj::new().s("family", "mutation").s("input", &crate::util::truncate(&m, 300)).render());
            }
            _ => {
                // (f) arbitrary unicode text
                let len = rng.below(24);
                let mut s = String::new();
                for _ in 0..len {
                    match rng.below(6) {
                        0 => s.push(*rng.pick(&['"', '\\', '\0', '\'', '\n', '/', '*', '$', '#'])),
                        1 => {
                            if let Some(c) = char::from_u32((rng.next() % 0x11_0000) as u32) {
                                s.push(c);
                            }
                        }
                        2 => s.push_str(*rng.pick(TOKENS)),
                        _ => s.push((0x20 + rng.below(0x5f) as u8) as char),
                    }
                }
                ctx.parse("unicode", &s, false);
                ctx.var_from_str("unicode", &s);
                ctx.type_from_str("unicode", &s);
                let quoted = format!("x := \"{s}\"");
                ctx.parse("unicode", &quoted, false);
            }
        }
    }
    // nesting depth up to the stated bound
    if cfg.shard == 0 {
        for depth in [8usize, 16, 24] {
            for (o, c) in [("(", ")"), ("[", "]"), ("{", "}"), ("-", ""), ("mut ", ""), ("[1, ", "]")] {
                // the PEG backtracks exponentially on nested parentheses (x2 per level, 0.65 s at depth 16):
                // time exhaustion, outside the claim - parentheses are driven to depth 12 only
                let depth = if o == "(" { depth.min(12) } else { depth };
                let src = format!("{}1{}", o.repeat(depth), c.repeat(depth));
                ctx.parse("nesting", &src, false);
                ctx.var_from_str("nesting", &src);
            }
            let t = format!("{}int{}", "[".repeat(depth), "]".repeat(depth));
            ctx.type_from_str("nesting", &t);
            let t = format!("{}int", "()->".repeat(depth));
            ctx.type_from_str("nesting", &t);
        }
    }
}

pub fn replay(kind: &str, payload: &str, rep: &mut Report) {
    let mut ctx = Ctx::new(rep);
    match kind {
        "c03-type" => ctx.type_from_str("replay", payload),
        "c03-var" => ctx.var_from_str("replay", payload),
        _ => {
            let a = ctx.parse("replay", payload, false);
            let b = ctx.parse("replay", payload, true);
            ctx.rep.notes.push(format!("replay outcome classes: plain={a} consts={b}"));
        }
    }
}
