//! C10 subtype laws over the public Type API + semantic soundness for generated values.
use crate::oracle::{Ty, ValueGen, canon, gen_type, inhabits, inhabits_why, universe_depth1};
use crate::real;
use crate::util::{Cfg, Deadline, Obj, Report, Rng};
use simplesl::variable::{Type, Typed, Variable};
use std::collections::BTreeMap;

fn kind(t: &Ty) -> &'static str {
    match t {
        Ty::Bool | Ty::Int | Ty::Float | Ty::Str | Ty::Void => "scalar",
        Ty::Any => "any",
        Ty::Never => "never",
        Ty::Arr(_) => "array",
        Ty::Tup(_) => "tuple",
        Ty::Fun(..) => "function",
        Ty::Mut(_) => "mut",
        Ty::Struct(_) => "struct",
        Ty::Union(_) => "union",
    }
}

/// real `matches`, guarded (a panic is reported by the caller)
fn m(a: &Type, b: &Type) -> Result<bool, real::PanicInfo> {
    real::guarded(|| a.matches(b))
}

struct Ctx<'a> {
    rep: &'a mut Report,
}

impl Ctx<'_> {
    fn fail(&mut self, law: &str, tys: &[&Ty], why: &str) {
        let kinds: Vec<&str> = tys.iter().map(|t| kind(t)).collect();
        let key = format!("c10:{law}:{}", kinds.join("/"));
        let payload = tys.iter().map(|t| t.text()).collect::<Vec<_>>().join("\t");
        self.rep.violation(&key, &format!("{law}: {why} [{}]", tys.iter().map(|t| t.text()).collect::<Vec<_>>().join(" ; ")), &format!("c10-{law}"), &payload);
    }
    fn matches(&mut self, a: &Type, b: &Type, ta: &Ty, tb: &Ty) -> bool {
        self.rep.evaluations += 1;
        match m(a, b) {
            Ok(v) => v,
            Err(p) => {
                if p.kind == real::PanicKind::Panic {
                    let key = format!("c10:panic:{}", p.site());
                    self.rep.violation(&key, &format!("matches panicked on {} vs {}: {}", ta.text(), tb.text(), p.short_msg()), "c10-panic", &format!("{}\t{}", ta.text(), tb.text()));
                }
                false
            }
        }
    }

    /// laws that involve one pair (A, B) and types derived from it
    fn pair_laws(&mut self, ta: &Ty, tb: &Ty, a: &Type, b: &Type, ab: bool) {
        let x = Ty::Str;
        let xr = Type::String;
        // union upper bound: A <= A|B and B <= A|B (built with the crate's | operator)
        let u = match real::guarded(|| a.clone() | b.clone()) {
            Ok(u) => u,
            Err(p) => {
                self.fail("union-build-panic", &[ta, tb], &p.short_msg());
                return;
            }
        };
        let tu = Ty::from_real(&u);
        if !tu.well_formed() {
            self.fail("union-malformed", &[ta, tb], &format!("A|B is the malformed union {}", tu.text()));
        }
        if tu != Ty::union([ta.clone(), tb.clone()]) {
            self.fail("union-members", &[ta, tb], &format!("A|B has members {} instead of {}", tu.text(), Ty::union([ta.clone(), tb.clone()]).text()));
        }
        self.rep.count("law:union-upper-bound");
        if !self.matches(a, &u, ta, &tu) {
            self.fail("union-upper-bound", &[ta, tb], "A does not match A|B");
        }
        if !self.matches(b, &u, tb, &tu) {
            self.fail("union-upper-bound", &[ta, tb], "B does not match A|B");
        }
        // conjoin is a lower bound
        match real::guarded(|| a.conjoin(b)) {
            Ok(c) => {
                let tc = Ty::from_real(&c);
                self.rep.count("law:conjoin-lower-bound");
                if tc != Ty::Never {
                    self.rep.count("law:conjoin-lower-bound:non-never");
                }
                if !self.matches(&c, a, &tc, ta) {
                    self.fail("conjoin-lower-bound", &[ta, tb], &format!("conjoin(A,B) = {} does not match A", tc.text()));
                }
                if !self.matches(&c, b, &tc, tb) {
                    self.fail("conjoin-lower-bound", &[ta, tb], &format!("conjoin(A,B) = {} does not match B", tc.text()));
                }
            }
            Err(p) if p.kind == real::PanicKind::Panic => self.fail("conjoin-panic", &[ta, tb], &p.short_msg()),
            Err(_) => self.rep.inconclusive("resource"),
        }
        // mut: `mut A <= mut B` only if A <= B and B <= A
        let (ma, mb) = (Type::Mut(a.clone().into()), Type::Mut(b.clone().into()));
        let (tma, tmb) = (Ty::mutc(ta.clone()), Ty::mutc(tb.clone()));
        let ba = self.matches(b, a, tb, ta);
        if self.matches(&ma, &mb, &tma, &tmb) {
            self.rep.count("law:mut-invariant:premise");
            if !(ab && ba) {
                self.fail("mut-invariant", &[ta, tb], "mut A matches mut B although A and B are not equivalent");
            }
        } else if ab && ba {
            self.rep.count("note:mut-of-equivalent-types-not-matching");
        }
        if ab {
            self.rep.count("premise:A<=B");
            // covariance of arrays, tuples, struct fields; width subtyping
            let (aa, bb) = (Type::Array(a.clone().into()), Type::Array(b.clone().into()));
            if !self.matches(&aa, &bb, &Ty::arr(ta.clone()), &Ty::arr(tb.clone())) {
                self.fail("array-covariant", &[ta, tb], "A matches B but [A] does not match [B]");
            }
            let (t1, t2) = (Type::Tuple([a.clone(), xr.clone()].into()), Type::Tuple([b.clone(), xr.clone()].into()));
            if !self.matches(&t1, &t2, &Ty::Tup(vec![ta.clone(), x.clone()]), &Ty::Tup(vec![tb.clone(), x.clone()])) {
                self.fail("tuple-covariant", &[ta, tb], "A matches B but (A, string) does not match (B, string)");
            }
            let s = |t: &Ty, extra: bool| {
                let mut f = BTreeMap::new();
                f.insert("a".to_string(), t.clone());
                if extra {
                    f.insert("b".to_string(), Ty::Int);
                }
                Ty::Struct(f)
            };
            let (sa, sb, saw) = (s(ta, false), s(tb, false), s(ta, true));
            if !self.matches(&sa.to_real(), &sb.to_real(), &sa, &sb) {
                self.fail("struct-covariant", &[ta, tb], "A matches B but struct{a: A} does not match struct{a: B}");
            }
            if !self.matches(&saw.to_real(), &sb.to_real(), &saw, &sb) {
                self.fail("struct-width", &[ta, tb], "struct{a: A, b: int} does not match struct{a: B} although A matches B");
            }
            // functions: parameters contravariant, results covariant
            let (fb, fa) = (Ty::fun(vec![tb.clone()], x.clone()), Ty::fun(vec![ta.clone()], x.clone()));
            if !self.matches(&fb.to_real(), &fa.to_real(), &fb, &fa) {
                self.fail("function-params-contravariant", &[ta, tb], "A matches B but (B)->string does not match (A)->string");
            }
            let (ra, rb) = (Ty::fun(vec![], ta.clone()), Ty::fun(vec![], tb.clone()));
            if !self.matches(&ra.to_real(), &rb.to_real(), &ra, &rb) {
                self.fail("function-result-covariant", &[ta, tb], "A matches B but ()->A does not match ()->B");
            }
        } else if !ba {
            // A and B unrelated: covariant positions must not relate them either (would be unsound);
            // decided semantically below through generated values, counted here
            self.rep.count("pairs-unrelated");
        }
    }
}

impl Ctx<'_> {
    /// unions of many members (up to 64) built member by member with the crate's `|`: still exactly their members, an upper
    /// bound of each, and below exactly the types all members lie below - however many members there are
    fn wide_unions(&mut self, rng: &mut Rng, rounds: u64, cfg: &Cfg) {
        let base = [Ty::Int, Ty::Float, Ty::Str, Ty::Bool, Ty::Void];
        for r in 0..rounds {
            if !cfg.owns(r) {
                continue;
            }
            let n = 2 + (r as usize / 4) % 63;
            // n pairwise different members that all lie below `bound`
            let shape = r % 4;
            let mut members: Vec<Ty> = Vec::new();
            let mut k = 0usize;
            while members.len() < n {
                let mut t = base[k % 5].clone();
                for _ in 0..k / 5 {
                    t = Ty::arr(t);
                }
                let member = match shape {
                    0 => Ty::arr(t),
                    1 => Ty::Tup(vec![t, Ty::Int]),
                    2 => Ty::fun(vec![], t),
                    _ => t,
                };
                members.push(member);
                k += 1;
            }
            let bound = match shape {
                0 => Ty::arr(Ty::Any),
                1 => Ty::Tup(vec![Ty::Any, Ty::Int]),
                2 => Ty::fun(vec![], Ty::Any),
                _ => Ty::Any,
            };
            let wrong_bound = match shape {
                0 => Ty::arr(Ty::Int),
                1 => Ty::Tup(vec![Ty::Any, Ty::Str]),
                2 => Ty::fun(vec![], Ty::Int),
                _ => Ty::Int,
            };
            // shuffled insertion order
            let mut order: Vec<usize> = (0..n).collect();
            for i in (1..n).rev() {
                order.swap(i, rng.below(i + 1));
            }
            let mut u = members[order[0]].to_real();
            let mut built_ok = true;
            for &i in &order[1..] {
                let next = members[i].to_real();
                match real::guarded(|| u.clone() | next) {
                    Ok(x) => u = x,
                    Err(_) => {
                        built_ok = false;
                        break;
                    }
                }
            }
            if !built_ok {
                self.fail("union-build-panic", &[&members[0]], "building a wide union panicked");
                continue;
            }
            self.rep.count("law:wide-union");
            self.rep.shape("wide_union_sizes", &format!("{}", n / 8 * 8));
            let tu = Ty::from_real(&u);
            let want = Ty::union(members.clone());
            if tu != want {
                self.fail("wide-union-members", &[&want], &format!("a union built from {n} distinct members is {}", crate::util::truncate(&tu.text(), 200)));
                continue;
            }
            for mt in &members {
                if !self.matches(&mt.to_real(), &u, mt, &tu) {
                    self.fail("wide-union-upper-bound", &[mt], &format!("a member does not match the union of {n} members"));
                    break;
                }
            }
            if !self.matches(&u, &bound.to_real(), &tu, &bound) {
                self.fail("wide-union-below-bound", &[&bound], &format!("all {n} members match the bound but their union does not"));
            }
            if self.matches(&u, &wrong_bound.to_real(), &tu, &wrong_bound) {
                self.fail("wide-union-below-non-bound", &[&wrong_bound], &format!("the union of {n} members matches a type that some member does not match"));
            }
            // the same union written as text and parsed
            if let Some(parsed) = want.parse_real(r) {
                if !self.matches(&parsed, &bound.to_real(), &want, &bound) || !self.matches(&u, &parsed, &tu, &want) || !self.matches(&parsed, &u, &want, &tu) {
                    self.fail("wide-union-parsed", &[&bound], &format!("the union of {n} members read from its text is not equivalent to the one built with |"));
                }
            }
        }
    }
}

/// a type that should lie above `t` (by construction from the documented laws)
fn widen(t: &Ty, rng: &mut Rng, depth: usize) -> Ty {
    match rng.below(6) {
        0 => Ty::Any,
        1 => Ty::union([t.clone(), gen_type(rng, depth)]),
        _ => match t {
            Ty::Arr(e) => Ty::arr(widen(e, rng, depth)),
            Ty::Tup(ts) => Ty::Tup(ts.iter().map(|e| if rng.chance(1, 2) { widen(e, rng, depth) } else { e.clone() }).collect()),
            Ty::Fun(ps, r) => Ty::fun(ps.iter().map(|p| if rng.chance(1, 2) { narrow(p, rng) } else { p.clone() }).collect(), widen(r, rng, depth)),
            Ty::Struct(fs) => {
                let mut out = BTreeMap::new();
                for (k, v) in fs {
                    if rng.chance(1, 4) {
                        continue; // drop a field (width)
                    }
                    out.insert(k.clone(), if rng.chance(1, 2) { widen(v, rng, depth) } else { v.clone() });
                }
                Ty::Struct(out)
            }
            Ty::Union(ms) => Ty::union(ms.iter().cloned().chain([gen_type(rng, depth)])),
            other => Ty::union([other.clone(), gen_type(rng, 0)]),
        },
    }
}

fn narrow(t: &Ty, rng: &mut Rng) -> Ty {
    match t {
        Ty::Union(ms) if rng.chance(2, 3) => {
            let v: Vec<&Ty> = ms.iter().collect();
            (*rng.pick(&v)).clone()
        }
        Ty::Any => gen_type(rng, 1),
        Ty::Arr(e) => Ty::arr(narrow(e, rng)),
        _ if rng.chance(1, 6) => Ty::Never,
        other => other.clone(),
    }
}

pub fn run(cfg: &Cfg, rep: &mut Report) {
    let deadline = Deadline::new(cfg.budget_s);
    let mut ctx = Ctx { rep };
    let mut uni = universe_depth1();
    // unions of two same-shaped structs / tuples / functions over {int, string} next to the single struct / tuple / function
    // over the unions of their parts (a member-wise merge of such a union is a strictly larger type)
    {
        let base = [Ty::Int, Ty::Str];
        let st = |a: &Ty, b: &Ty| {
            let mut f = BTreeMap::new();
            f.insert("a".to_string(), a.clone());
            f.insert("b".to_string(), b.clone());
            Ty::Struct(f)
        };
        let both = Ty::union([Ty::Int, Ty::Str]);
        let mut extra: Vec<Ty> = Vec::new();
        for a in &base {
            for b in &base {
                for c in &base {
                    for d in &base {
                        if (a, b) < (c, d) {
                            extra.push(Ty::union([st(a, b), st(c, d)]));
                            extra.push(Ty::union([Ty::Tup(vec![a.clone(), b.clone()]), Ty::Tup(vec![c.clone(), d.clone()])]));
                            extra.push(Ty::union([Ty::fun(vec![a.clone()], b.clone()), Ty::fun(vec![c.clone()], d.clone())]));
                        }
                    }
                }
                extra.push(st(a, b));
                extra.push(st(a, &both));
                extra.push(st(&both, b));
                extra.push(Ty::Tup(vec![a.clone(), both.clone()]));
                extra.push(Ty::Tup(vec![both.clone(), b.clone()]));
                extra.push(Ty::fun(vec![a.clone()], both.clone()));
                extra.push(Ty::fun(vec![both.clone()], b.clone()));
            }
        }
        extra.push(st(&both, &both));
        extra.push(Ty::Tup(vec![both.clone(), both.clone()]));
        extra.push(Ty::fun(vec![both.clone()], both.clone()));
        for t in extra {
            if !uni.contains(&t) {
                uni.push(t);
            }
        }
    }
    let n = uni.len();
    ctx.rep.add("universe_depth1_types", if cfg.shard == 0 { n as u64 } else { 0 });
    // real types: built through constructors and through parsing
    let reals: Vec<Type> = uni.iter().map(Ty::to_real).collect();
    let parsed: Vec<Option<Type>> = uni.iter().enumerate().map(|(i, t)| t.parse_real(i as u64 + 1)).collect();
    // matrix of answers (every shard computes it: 160k cheap calls; laws are split over shards)
    let mut mat = vec![false; n * n];
    for i in 0..n {
        for j in 0..n {
            mat[i * n + j] = ctx.matches(&reals[i], &reals[j], &uni[i], &uni[j]);
        }
    }
    let never = Type::Never;
    let any = Type::Any;
    for i in 0..n {
        if !cfg.owns(i as u64) {
            continue;
        }
        let (ti, ri) = (&uni[i], &reals[i]);
        ctx.rep.distinct_case(&("type", ti.text()));
        ctx.rep.shape("type_kinds", kind(ti));
        // reflexive, also across separately built copies
        if !mat[i * n + i] {
            ctx.fail("reflexive", &[ti], "A does not match A");
        }
        match &parsed[i] {
            Some(p) => {
                ctx.rep.count("law:reflexive-copies");
                let tp = Ty::from_real(p);
                if tp != *ti {
                    ctx.fail("parse-differs", &[ti], &format!("type text parsed to {}", tp.text()));
                } else {
                    if !ctx.matches(p, ri, ti, ti) || !ctx.matches(ri, p, ti, ti) {
                        ctx.fail("reflexive-copies", &[ti], "two separately built copies of one type do not match each other");
                    }
                    // answers must not depend on which copy is asked
                    for j in (0..n).step_by(7) {
                        let a1 = ctx.matches(p, &reals[j], ti, &uni[j]);
                        if a1 != mat[i * n + j] {
                            ctx.fail("copy-dependent-answer", &[ti, &uni[j]], "parsed copy and constructed copy of A answer `A matches B` differently");
                        }
                    }
                }
            }
            None => ctx.fail("type-text-rejected", &[ti], "Type::from_str rejects the type's own syntax"),
        }
        // least / greatest
        if !ctx.matches(&never, ri, &Ty::Never, ti) {
            ctx.fail("never-least", &[ti], "! does not match A");
        }
        if !ctx.matches(ri, &any, ti, &Ty::Any) {
            ctx.fail("any-greatest", &[ti], "A does not match any");
        }
        for j in 0..n {
            let (tj, rj) = (&uni[j], &reals[j]);
            ctx.rep.distinct_case(&("pair", ti.text(), tj.text()));
            ctx.pair_laws(ti, tj, ri, rj, mat[i * n + j]);
            // union is the least upper bound among the types of the universe
            if mat[i * n + j] {
                // transitivity over the whole universe
                for k in 0..n {
                    if mat[j * n + k] {
                        ctx.rep.count("law:transitive:premise");
                        if !mat[i * n + k] {
                            ctx.fail("transitive", &[ti, tj, &uni[k]], "A matches B and B matches C but A does not match C");
                        }
                    }
                }
            }
        }
        // (A|B) <= C  <=>  A <= C and B <= C, for B from a stride of the universe and all C
        for j in (i % 5..n).step_by(5) {
            let Ok(u) = real::guarded(|| ri.clone() | reals[j].clone()) else { continue };
            let tu = Ty::from_real(&u);
            for k in 0..n {
                let lhs = ctx.matches(&u, &reals[k], &tu, &uni[k]);
                let rhs = mat[i * n + k] && mat[j * n + k];
                ctx.rep.count("law:union-below-iff");
                if lhs != rhs {
                    ctx.fail("union-below-iff", &[ti, &uni[j], &uni[k]], &format!("(A|B) matches C is {lhs} but (A matches C and B matches C) is {rhs}"));
                }
            }
        }
        if deadline.over() {
            ctx.rep.inconclusive("budget-cut-depth1-universe");
            break;
        }
    }
    ctx.rep.sample("pair", 3, || Obj::new().s("A", &uni[n / 3].text()).s("B", &uni[n / 2].text()).b("A_matches_B", mat[(n / 3) * n + n / 2]).render());

    {
        let mut wrng = cfg.rng(1010);
        ctx.wide_unions(&mut wrng, if cfg.thorough() { 63 * 4 * 8 } else { 63 * 4 }, cfg);
    }
    // semantic soundness on the depth-1 universe: every generated value of A is a value of every B that A matches
    let mut rng = cfg.rng(10);
    let mut vals: Vec<(usize, Variable)> = Vec::new();
    {
        let mut vg = ValueGen::new(&mut rng);
        for (i, t) in uni.iter().enumerate() {
            if !cfg.owns(i as u64) {
                continue;
            }
            for _ in 0..3 {
                if let Some(v) = vg.value(t, 0) {
                    if inhabits(&v, t) {
                        vals.push((i, v));
                    } else {
                        ctx.rep.inconclusive("generated-value-not-in-its-type");
                    }
                }
            }
        }
    }
    for (i, v) in &vals {
        let tag = real::guarded(|| v.as_type()).ok();
        for j in 0..n {
            if mat[i * n + j] {
                ctx.rep.count("law:soundness:premise");
                ctx.rep.distinct_case(&("sound", canon(v), uni[j].text()));
                if let Some(why) = inhabits_why(v, &uni[j]) {
                    ctx.fail("soundness", &[&uni[*i], &uni[j]], &format!("value {} belongs to A, A matches B, but it does not belong to B: {why}", canon(v)));
                }
            }
            // runtime tag route: as_type(v) matches B => v belongs to B
            if let Some(tag) = &tag {
                let tt = Ty::from_real(tag);
                if ctx.matches(tag, &reals[j], &tt, &uni[j]) {
                    ctx.rep.count("law:tag-soundness:premise");
                    if let Some(why) = inhabits_why(v, &uni[j]) {
                        ctx.fail("tag-soundness", &[&tt, &uni[j]], &format!("runtime type of {} matches B but the value does not belong to B: {why}", canon(v)));
                    }
                }
            }
        }
    }
    ctx.rep.sample("value", 3, || {
        let (i, v) = &vals[vals.len() / 2];
        Obj::new().s("value", &canon(v)).s("generated_for", &uni[*i].text()).render()
    });

    // deeper types: chains A <= B <= C built by widening, checked through the real API
    let chains = cfg.per_shard(1_500_000, 60_000_000);
    for c in 0..chains {
        if c % 128 == 0 && deadline.over() {
            break;
        }
        let d = 1 + rng.below(3);
        let ta = gen_type(&mut rng, d);
        let tb = widen(&ta, &mut rng, d.min(2));
        let tc = widen(&tb, &mut rng, 1);
        if ta.depth() > 5 || tc.depth() > 6 {
            continue;
        }
        let (a, b, cc) = (ta.to_real(), tb.to_real(), tc.to_real());
        ctx.rep.distinct_case(&("chain", ta.text(), tb.text(), tc.text()));
        ctx.rep.shape("chain_kinds", &format!("{}/{}/{}", kind(&ta), kind(&tb), kind(&tc)));
        let ab = ctx.matches(&a, &b, &ta, &tb);
        let bc = ctx.matches(&b, &cc, &tb, &tc);
        if ab && bc {
            ctx.rep.count("law:transitive:premise");
            if !ctx.matches(&a, &cc, &ta, &tc) {
                ctx.fail("transitive", &[&ta, &tb, &tc], "A matches B and B matches C but A does not match C");
            }
        }
        if !ctx.matches(&a, &a, &ta, &ta) {
            ctx.fail("reflexive", &[&ta], "A does not match A");
        }
        if let Some(p) = ta.parse_real(c + 1) {
            if Ty::from_real(&p) == ta && !(ctx.matches(&p, &a, &ta, &ta) && ctx.matches(&a, &p, &ta, &ta)) {
                ctx.fail("reflexive-copies", &[&ta], "two separately built copies of one type do not match each other");
            }
        }
        ctx.pair_laws(&ta, &tb, &a, &b, ab);
        if rng.chance(1, 3) {
            let tz = gen_type(&mut rng, d);
            let z = tz.to_real();
            let az = ctx.matches(&a, &z, &ta, &tz);
            ctx.pair_laws(&ta, &tz, &a, &z, az);
        }
        // values of A against B and C
        if c % 4 == 0 {
            let mut vg = ValueGen::new(&mut rng);
            if let Some(v) = vg.value(&ta, 0) {
                if inhabits(&v, &ta) {
                    for (rt, tt, ok) in [(&b, &tb, ab), (&cc, &tc, ab && bc)] {
                        let _ = rt;
                        if ok {
                            ctx.rep.count("law:soundness:premise");
                            if let Some(why) = inhabits_why(&v, tt) {
                                ctx.fail("soundness", &[&ta, tt], &format!("value {} belongs to A, A matches B, but it does not belong to B: {why}", canon(&v)));
                            }
                        }
                    }
                }
            }
        }
    }
}

pub fn replay(kind: &str, payload: &str, rep: &mut Report) {
    let tys: Vec<Type> = payload.trim_end().split('\t').filter_map(|t| t.parse().ok()).collect();
    let tts: Vec<Ty> = tys.iter().map(Ty::from_real).collect();
    rep.notes.push(format!("replay {kind}: {}", tts.iter().map(Ty::text).collect::<Vec<_>>().join(" ; ")));
    let mut ctx = Ctx { rep };
    for i in 0..tys.len() {
        for j in 0..tys.len() {
            let ab = ctx.matches(&tys[i], &tys[j], &tts[i], &tts[j]);
            ctx.rep.notes.push(format!("{} matches {} = {ab}", tts[i].text(), tts[j].text()));
            ctx.pair_laws(&tts[i], &tts[j], &tys[i], &tys[j], ab);
        }
    }
    if tys.len() == 3 {
        let (ab, bc, ac) = (
            ctx.matches(&tys[0], &tys[1], &tts[0], &tts[1]),
            ctx.matches(&tys[1], &tys[2], &tts[1], &tts[2]),
            ctx.matches(&tys[0], &tys[2], &tts[0], &tts[2]),
        );
        if ab && bc && !ac {
            ctx.fail("transitive", &[&tts[0], &tts[1], &tts[2]], "A matches B and B matches C but A does not match C");
        }
    }
    let _ = Variable::Void.as_type();
}
