//! C05 determinism: repetition monitor. The same program text is parsed and run K times in one
//! process (every HashSet / HashMap instance gets fresh hash keys) and in separate processes;
//! the same type texts are built K times and every public Type API answer is compared.
use crate::ast::{Mode, PRELUDE};
use crate::genp::Profile;
use crate::oracle::{Ty, canon, gen_type, universe_depth1};
use crate::prog;
use crate::props::diff::gen_program;
use crate::real::{self, Outcome, PanicKind};
use crate::util::{Cfg, Deadline, Obj, Report, Rng, hash64, truncate};
use simplesl::variable::{ReturnType, Type};
use simplesl::{Code, Interpreter};
use std::collections::BTreeSet;
use std::io::Write;

/// canonical outcome of one parse + run: acceptance, static type, value or error variant
pub fn digest(text: &str) -> (String, String) {
    let interp = Interpreter::with_stdlib();
    let code = match real::guarded(|| Code::parse(&interp, text)) {
        Err(p) if p.kind == PanicKind::Panic => return (format!("panic-at-parse:{}", p.site()), String::new()),
        Err(_) => return ("inconclusive".into(), String::new()),
        Ok(Err(e)) => return (format!("rejected:{}", real::error_variant(&e)), String::new()),
        Ok(Ok(c)) => c,
    };
    let st = real::guarded(|| code.return_type());
    let (ty, printed) = match &st {
        Ok(t) => (Ty::from_real(t).text(), t.to_string()),
        Err(_) => ("<type unavailable>".into(), String::new()),
    };
    // run unscoped in a fresh interpreter so that the effect log (if the program has one) is part of the outcome
    let mut run_interp = Interpreter::with_stdlib();
    let r = real::guarded(|| {
        real::arm(6_000, real::DEFAULT_DEPTH);
        code.exec_unscoped(&mut run_interp)
    });
    simplesl::verif::set_fuel(u64::MAX);
    let out = match r {
        Ok(Ok(v)) => format!("value={}", canon(&v)),
        Ok(Err(e)) => format!("error={}", real::exec_err_kind(&e).map_or(format!("{e:?}"), |k| k.name().to_string())),
        Err(p) if p.kind == PanicKind::Panic => format!("panic={}", p.site()),
        Err(_) => return ("inconclusive".into(), String::new()),
    };
    let log = prog::read_log(&run_interp).map_or(String::new(), |l| format!(";log={l:?}"));
    (format!("type={ty};{out}{log}"), printed)
}

pub const TEMPLATES: &[&str] = &[
    "x := [1, 2.5, \"a\"]; x[1]",
    "f := (u: int|float|string) -> int|float|string { return u }; f(2.5)",
    "s := [struct{a := 1, b := 2}, struct{a := 1.5, b := \"x\"}]; s[0].a",
    "m := mod { a := 1; b := 2.5; c := \"s\"; f := (x: int) -> int { return x } }; (m.a, m.b, m.c)",
    "u := mut int|float|string 1; u = 2.5; u = \"s\"; *u",
    "t := [(1, \"a\"), (2.5, \"b\")]; (a, b) := t[1]; a",
    "g := (h: (int)->int | (float)->float) -> int { return 1 }; g((x: int) -> int { return x })",
    "w := [1, \"a\", 2.5, true, ()]; match w[3] { a: int => 1, b: string => 2, c: float => 3, d: bool => 4, e: () => 5, }",
    "w := [1, \"a\", 2.5][0]; if v: int|float = w { 1 } else { 2 }",
    "a := [[1], [\"a\"], [2.5]]; a[2] + a[0]",
    "p := [1, \"a\", 2.5]~ ? int|float $]; p",
    "q := [struct{a := 1}, struct{a := \"x\", b := 2}]~ @ (s: struct{a: int|string}) -> int|string { return s.a } $]; q",
    "it := [1, 2.5]~; it(); it(); it()",
    "it := [\"a\", 1, ()]~; it(); it(); it(); it()",
    "r := [1, 2.5]~ @ (x: int|float) -> int|float|string { return x } $]; r",
    "k := ([1, \"b\", 2.5]~ \\ (x: any) -> bool { return true }); k.1",
    "e := [] + [1] + [\"a\"] + [2.5]; e",
    "z := struct{a := [1, \"x\"], b := (1, 2.5), c := mut int|string 3}; (z.a, z.b)",
    "f := () -> (int, string)|(float, string) { return (1, \"a\") }; (f().0, f().1)",
    "x := [1, \"a\"][0]; y := [2.5, true][1]; [x, y]",
    // literals whose element initialisers interact: evaluation order must not depend on a hash order
    "c := mut 0; s := struct{a := c += 1, b := c *= 2, cc := c += 5, d := c *= 3, e := c -= 4}; (s.a, s.b, s.cc, s.d, s.e, *c)",
    "it := [1, 2, 3, 4, 5]~; s := struct{a := it().1, b := it().1, c := it().1, d := it().1}; (s.a, s.b, s.c, s.d)",
    "z := mut 0; s := struct{a := 1 / *z, b := [1][5], c := 1 << 64, d := [0; -1]}; s.a",
    "c := mut 1; m := mod { a := c += 1; b := c *= 5; d := c -= 3; e := c *= 7 }; (m.a, m.b, m.d, m.e, *c)",
    "c := mut 0; t := (c += 1, c *= 2, c += 5, c *= 3); a := [c += 1, c *= 2, c += 5]; (t, a)",
    "c := mut 0; f := (a: int, b: int, d: int) -> [int] { return [a, b, d] }; f(c += 1, c *= 2, c += 5)",
    "c := mut 0; s := struct{a := ti(1, c += 1), b := ti(2, c *= 2), d := ti(3, c += 5)}; (s.a, s.b, s.d)",
    // state built from constants belongs to the run, not to the parsed program
    "s := mut (0, 10); t := *s; s = (t.0 + 1, t.1); u := *s; u.0",
    "s := mut [0, 10]; s += [1]; std.len(*s)",
    "s := mut struct{n := 0}; t := *s; s = struct{n := t.n + 1}; u := *s; u.n",
    "s := mut \"a\"; s += \"b\"; *s",
    "mk := () -> int { s := mut (0, (1, 2)); t := *s; s = (t.0 + 1, t.1); u := *s; return u.0 }; (mk(), mk())",
    "it := [1, 2, 3]~; it(); it().1",
    "fs := [mut 0, mut 0]; a := fs[0]; a += 1; *fs[0] + *fs[1]",
];

fn profiles() -> Vec<Profile> {
    let mut u = Profile::mixed();
    u.name = "unions";
    u.unions = 70;
    u.modules = 15;
    u.err = 10;
    let mut m = Profile::mixed();
    m.name = "modules";
    m.modules = 30;
    m.unions = 40;
    vec![u, m, Profile::mixed()]
}

fn program(seed: u64, shard: u64, index: u64) -> String {
    if index % 50 < TEMPLATES.len() as u64 && index / 50 == 0 {
        return format!("{PRELUDE}{}", TEMPLATES[(index % 50) as usize]);
    }
    let ps = profiles();
    let profile = &ps[(index % ps.len() as u64) as usize];
    let (body, _) = gen_program(seed ^ 0xC05, shard, index, profile);
    prog::program_text(&body, if index % 2 == 0 { Mode::Literal } else { Mode::Hidden })
}

fn aspect(a: &str, b: &str) -> &'static str {
    let acc = |s: &str| !s.starts_with("rejected") && !s.starts_with("panic-at-parse");
    if acc(a) != acc(b) {
        return "acceptance";
    }
    let ty = |s: &str| s.split(';').next().unwrap_or("").to_string();
    if ty(a) != ty(b) {
        return "static-type";
    }
    if a.contains("value=") && b.contains("value=") {
        return "value";
    }
    "outcome"
}

/// everything the public Type API answers about (A, B), canonicalised
fn type_answers(a: &Type, b: &Type) -> Vec<(&'static str, String)> {
    let c = |t: Option<Type>| t.map_or("None".to_string(), |t| Ty::from_real(&t).text());
    let g = |f: &dyn Fn() -> String| real::guarded(f).unwrap_or_else(|p| format!("panic:{}", p.site()));
    vec![
        ("==", g(&|| (a == b).to_string())),
        ("matches", g(&|| a.matches(b).to_string())),
        ("matches-rev", g(&|| b.matches(a).to_string())),
        ("|", g(&|| Ty::from_real(&(a.clone() | b.clone())).text())),
        ("conjoin", g(&|| Ty::from_real(&a.conjoin(b)).text())),
        ("index_result", g(&|| c(a.index_result()))),
        ("params", g(&|| a.params().map_or("None".to_string(), |ps| ps.iter().map(|p| Ty::from_real(p).text()).collect::<Vec<_>>().join(",")))),
        ("return_type", g(&|| c(a.return_type()))),
        ("element_type", g(&|| c(a.element_type()))),
        ("mut_element_type", g(&|| c(a.mut_element_type()))),
        ("tuple_len", g(&|| format!("{:?}", a.tuple_len()))),
        ("min_tuple_len", g(&|| format!("{:?}", a.min_tuple_len()))),
        ("iter_element", g(&|| c(a.iter_element()))),
        ("tuple_element_at", g(&|| c(a.tuple_element_at(0)))),
        ("tuple_element_at(1)", g(&|| c(a.tuple_element_at(1)))),
        ("tuple_element_at(2)", g(&|| c(a.tuple_element_at(2)))),
        ("field_type", g(&|| c(a.field_type("a")))),
        ("has_field", g(&|| a.has_field("a").to_string())),
        ("flatten_tuple", g(&|| a.clone().flatten_tuple().map_or("None".to_string(), |ts| ts.iter().map(|t| Ty::from_real(t).text()).collect::<Vec<_>>().join(",")))),
        ("is_function", g(&|| a.is_function().to_string())),
        ("is_tuple", g(&|| a.is_tuple().to_string())),
        ("is_mut", g(&|| a.is_mut().to_string())),
        ("is_iterator", g(&|| a.is_iterator().to_string())),
        ("is_struct", g(&|| a.is_struct().to_string())),
        ("can_be_indexed", g(&|| a.can_be_indexed().to_string())),
    ]
}

fn top(t: &Ty) -> &'static str {
    match t {
        Ty::Arr(_) => "array",
        Ty::Tup(_) => "tuple",
        Ty::Fun(..) => "function",
        Ty::Mut(_) => "mut",
        Ty::Struct(_) => "struct",
        Ty::Union(_) => "union",
        _ => "leaf",
    }
}

fn check_types(ta: &Ty, tb: &Ty, k: u64, rep: &mut Report) {
    rep.distinct_case(&("types", ta.text(), tb.text()));
    let mut first: Option<Vec<(&'static str, String)>> = None;
    let mut builds: Vec<Type> = Vec::new();
    for r in 0..k {
        // alternate construction routes and member orders: every build has fresh hash keys
        let (a, b) = if r % 2 == 0 { (Some(ta.to_real()), Some(tb.to_real())) } else { (ta.parse_real(r), tb.parse_real(r + 7)) };
        let (Some(a), Some(b)) = (a, b) else {
            rep.violation(&format!("c05:type-text-rejected:{}", top(ta)), &format!("Type::from_str rejects {} or {}", ta.text_ord(r), tb.text_ord(r + 7)), "c05-types", &format!("{}\t{}", ta.text(), tb.text()));
            return;
        };
        rep.evaluations += 1;
        let ans = type_answers(&a, &b);
        match &first {
            None => first = Some(ans),
            Some(f) => {
                for ((name, x), (_, y)) in f.iter().zip(&ans) {
                    if x != y {
                        rep.violation(
                            &format!("c05:type-api:{name}:{}/{}", top(ta), top(tb)),
                            &format!("{name} on A = {}, B = {} answered {x} in one build and {y} in another", ta.text(), tb.text()),
                            "c05-types",
                            &format!("{}\t{}", ta.text(), tb.text()),
                        );
                    }
                }
            }
        }
        builds.push(a);
    }
    // structurally equal types always compare equal and match each other
    for i in 1..builds.len() {
        let (x, y) = (&builds[0], &builds[i]);
        let eq = real::guarded(|| x == y && y == x).unwrap_or(false);
        let m = real::guarded(|| x.matches(y) && y.matches(x)).unwrap_or(false);
        rep.count("copies-compared");
        if !eq {
            rep.violation(&format!("c05:copies-unequal:{}", top(ta)), &format!("two builds of {} compare unequal", ta.text()), "c05-types", &format!("{}\t{}", ta.text(), ta.text()));
        }
        if !m {
            rep.violation(&format!("c05:copies-not-matching:{}", top(ta)), &format!("two builds of {} do not match each other", ta.text()), "c05-types", &format!("{}\t{}", ta.text(), ta.text()));
        }
    }
}

fn check_program(text: &str, k: u64, rep: &mut Report) -> Option<String> {
    rep.distinct_case(text);
    rep.count("programs");
    let mut digests: Vec<String> = Vec::new();
    let mut prints: BTreeSet<String> = BTreeSet::new();
    for _ in 0..k {
        rep.evaluations += 1;
        let (d, printed) = digest(text);
        if d == "inconclusive" {
            rep.inconclusive("resource-or-fuel");
            return None;
        }
        prints.insert(printed);
        digests.push(d);
    }
    if prints.len() > 1 {
        rep.count("programs-with-several-print-orders-of-their-type");
    }
    for d in &digests[1..] {
        if *d != digests[0] {
            let asp = aspect(&digests[0], d);
            let payload_free = exhausted_payload_only(&digests[0], d);
            let key = if payload_free { "c05:program:value:exhausted-iterator-payload".to_string() } else { format!("c05:program:{asp}:in-process") };
            rep.violation(&key, &format!("two runs of one program differ ({asp}): {} vs {} :: {}", truncate(&digests[0], 200), truncate(d, 200), truncate(text.strip_prefix(PRELUDE).unwrap_or(text), 400)), "c05-program", text);
            return None;
        }
    }
    // one parsed program executed again (each time unscoped in a fresh interpreter): the outcome does not depend on the run
    if let Ok(Ok(code)) = real::guarded(|| Code::parse(&Interpreter::with_stdlib(), text)) {
        let mut outs: Vec<String> = Vec::new();
        for _ in 0..3 {
            let mut run_interp = Interpreter::with_stdlib();
            let r = real::guarded(|| {
                real::arm(6_000, real::DEFAULT_DEPTH);
                code.exec_unscoped(&mut run_interp)
            });
            simplesl::verif::set_fuel(u64::MAX);
            outs.push(match r {
                Ok(Ok(v)) => format!("value={}", canon(&v)),
                Ok(Err(e)) => format!("error={}", real::exec_err_kind(&e).map_or(format!("{e:?}"), |k| k.name().to_string())),
                Err(p) if p.kind == PanicKind::Panic => format!("panic={}", p.site()),
                Err(_) => {
                    outs.clear();
                    break;
                }
            });
        }
        rep.evaluations += outs.len() as u64;
        rep.count("programs-executed-again");
        if outs.len() == 3 && (outs[1] != outs[0] || outs[2] != outs[0]) && !exhausted_payload_only(&outs[0], &outs[1]) && !exhausted_payload_only(&outs[0], &outs[2]) {
            rep.violation("c05:program:value:executed-again", &format!("three executions of one parsed program differ: {} / {} / {} :: {}", truncate(&outs[0], 120), truncate(&outs[1], 120), truncate(&outs[2], 120), truncate(text.strip_prefix(PRELUDE).unwrap_or(text), 400)), "c05-program", text);
            return None;
        }
    }
    rep.sample("program", 4, || Obj::new().s("program", &truncate(text.strip_prefix(PRELUDE).unwrap_or(text), 300)).s("outcome", &truncate(&digests[0], 200)).render());
    Some(digests[0].clone())
}

/// do two digests differ only inside `(false, <payload>)` steps (the payload of an exhausted iterator)?
fn exhausted_payload_only(a: &str, b: &str) -> bool {
    fn strip(s: &str) -> String {
        // replace the second component of every `(false, X)` by `_` (X without nested parentheses)
        let mut out = String::new();
        let mut rest = s;
        while let Some(i) = rest.find("(false, ") {
            out.push_str(&rest[..i + 8]);
            let tail = &rest[i + 8..];
            let mut depth = 0i32;
            let mut end = tail.len();
            for (j, c) in tail.char_indices() {
                match c {
                    '(' | '[' | '{' => depth += 1,
                    ')' | ']' | '}' => {
                        if depth == 0 {
                            end = j;
                            break;
                        }
                        depth -= 1;
                    }
                    _ => {}
                }
            }
            out.push('_');
            rest = &tail[end..];
        }
        out.push_str(rest);
        out
    }
    a != b && strip(a) == strip(b)
}

/// the inputs of a program include the files it imports: a parse after the file changed sees the new text (same path,
/// same length, rewritten at once), whatever an earlier parse in this process saw
fn import_after_rewrite(rep: &mut Report) {
    let dir = format!("/verif/target/scratch/c05-{}", std::process::id());
    let _ = std::fs::create_dir_all(&dir);
    let path = format!("{dir}/lib.ssl");
    let interp = Interpreter::with_stdlib();
    for i in 0..40u32 {
        let (text, want) = match i % 4 {
            0 => (format!("answer := {};", i % 10), (i % 10).to_string()),
            1 => (format!("answer := {}", i % 10 + 10), (i % 10 + 10).to_string()),
            2 => ("answer := \"s\";".to_string(), "\"s\"".to_string()),
            _ => ("answer := [1];\n".to_string(), "[1]".to_string()),
        };
        if std::fs::write(&path, &text).is_err() {
            rep.inconclusive("scratch-file-not-writable");
            break;
        }
        rep.evaluations += 1;
        rep.count("import-after-rewrite");
        let src = format!("m := import \"{path}\"; m.answer");
        let got = match real::guarded(|| Code::parse(&interp, &src).map(|c| c.exec())) {
            Ok(Ok(Ok(v))) => canon(&v),
            Ok(Ok(Err(e))) => format!("error:{e:?}"),
            Ok(Err(e)) => format!("rejected:{}", real::error_variant(&e)),
            Err(p) => format!("panic:{}", p.site()),
        };
        if got != want {
            rep.violation("c05:import:stale-or-wrong-file-content", &format!("after the imported file was rewritten to `{}` the program `m := import ..; m.answer` gave {got}, expected {want}", text.trim()), "c05-import", &text);
            break;
        }
    }
    let _ = std::fs::remove_dir_all(&dir);
}

/// "... or after unrelated work gives the same outcome": a set of probe programs is judged before and after each of a
/// list of unrelated programs that *fail* in every phase (unreadable / ill-formed / ill-typed / failing imports, syntax and
/// type errors, failing constants, every run-time error, errors raised in the middle of iterator helpers), all on one
/// thread - state an error path forgets to restore (search directories, scopes, caches) shows as a changed probe outcome
fn after_unrelated_work(rep: &mut Report) {
    let dir = format!("/verif/target/scratch/c05w-{}", std::process::id());
    let _ = std::fs::create_dir_all(format!("{dir}/sub"));
    let files: [(&str, String); 9] = [
        ("good.ssl", "answer := 42;".into()),
        ("sub/good.ssl", "answer := 43;".into()),
        ("sub/other.ssl", "other := 7;".into()),
        ("syntax_bad.ssl", "x := := ;".into()),
        ("type_bad.ssl", "x := 1 + \"a\";".into()),
        ("fold_bad.ssl", "x := 1 / 0;".into()),
        ("sub/late_bad.ssl", "first := 1; second := first + \"a\";".into()),
        ("nested_bad.ssl", format!("m := import \"{dir}/sub/late_bad.ssl\";")),
        ("nested_rel.ssl", "m := import \"good.ssl\";".into()),
    ];
    for (name, text) in &files {
        if std::fs::write(format!("{dir}/{name}"), text).is_err() {
            rep.inconclusive("scratch-file-not-writable");
            return;
        }
    }
    let _ = std::fs::write(format!("{dir}/not_utf8.ssl"), [0xffu8, 0xfe, 0x00]);
    let probes: Vec<String> = vec![
        "m := import \"good.ssl\"; m.answer".into(),
        "m := import \"other.ssl\"; m.other".into(),
        "m := import \"sub/good.ssl\"; m.answer".into(),
        format!("m := import \"{dir}/good.ssl\"; m.answer"),
        format!("m := import \"{dir}/sub/good.ssl\"; m.answer"),
        format!("m := import \"{dir}/nested_rel.ssl\"; m"),
        "answer".into(),
        "first".into(),
        "x".into(),
        "res".into(),
        "x := 5; f := (y: int) -> int { return x + y }; f(1)".into(),
        "[1, 2, 3]~ @ (x: int) -> int { return x * 2 } ? (x: int) -> bool { return x > 2 } $]".into(),
        "[true, false]~ $&&".into(),
        "[1, \"a\", 2.5]~ ? int|float $]".into(),
        "c := mut 1; c += 1; *c".into(),
        "it := [1]~; it(); it()".into(),
        "m := mod { a := 1; b := 2 }; (m.a, m.b)".into(),
        "loop { break; }; 3".into(),
    ];
    let work: Vec<String> = vec![
        format!("m := import \"{dir}/syntax_bad.ssl\"; 1"),
        format!("m := import \"{dir}/type_bad.ssl\"; 1"),
        format!("m := import \"{dir}/fold_bad.ssl\"; 1"),
        format!("m := import \"{dir}/sub/late_bad.ssl\"; 1"),
        format!("m := import \"{dir}/nested_bad.ssl\"; 1"),
        format!("m := import \"{dir}/not_utf8.ssl\"; 1"),
        format!("m := import \"{dir}/missing.ssl\"; 1"),
        format!("m := import \"{dir}/sub\"; 1"),
        format!("f := () -> int {{ m := import \"{dir}/sub/late_bad.ssl\"; return 1 }}; f()"),
        format!("loop {{ m := import \"{dir}/type_bad.ssl\"; break; }}"),
        format!("m := import \"{dir}/sub/good.ssl\"; n := import \"{dir}/type_bad.ssl\"; 1"),
        "x := := ;".into(),
        "x := 1 + \"a\";".into(),
        "answer := 1; first := 2; res := 3; x := 1 / 0;".into(),
        "x := 4; y := [1][x]; y".into(),
        "hi := (v: int) -> int { return v }; x := 7; res := 8; 1 / hi(0)".into(),
        "hi := (v: int) -> int { return v }; 1 % hi(0)".into(),
        "hi := (v: int) -> int { return v }; 1 << hi(64)".into(),
        "hi := (v: int) -> int { return v }; 2 ** hi(-1)".into(),
        "hi := (v: int) -> int { return v }; [0; hi(-1)]".into(),
        "hi := (v: int) -> int { return v }; [1][hi(3)]".into(),
        "hi := (v: int) -> int { return v }; [1, 2, 0]~ @ (x: int) -> int { return 10 / x } $]".into(),
        "hi := (v: int) -> int { return v }; [1, 2, 0]~ ? (x: int) -> bool { return 10 / x > 1 } $]".into(),
        "hi := (v: int) -> int { return v }; [1, 0]~ $ 0 (a: int, x: int) -> int { return 10 / x }".into(),
        "hi := (v: int) -> int { return v }; for x in [1, 0]~ { 10 / x; }".into(),
        "hi := (v: int) -> int { return v }; m := mod { a := 1; b := 1 / hi(0) }; 1".into(),
        "hi := (v: int) -> int { return v }; f := (n: int) -> int { x := 9; return 1 / n }; f(0)".into(),
        "hi := (v: int) -> int { return v }; c := mut 1; c /= hi(0)".into(),
        "hi := (v: int) -> int { return v }; match hi(1) { 1 / hi(0) => 1, => 2, }".into(),
        "hi := (v: int) -> int { return v }; if v: int = 1 / hi(0) { 1 } else { 2 }".into(),
        "f := (x: int) -> int { return x }; f(\"a\")".into(),
        "break".into(),
        "return 1 +".into(),
        "x := [1, 2".into(),
    ];
    let mut baseline = Vec::new();
    for p in &probes {
        baseline.push(digest(p).0);
    }
    for (wi, w) in work.iter().enumerate() {
        let _ = digest(w);
        rep.count("unrelated-work-items");
        for (pi, p) in probes.iter().enumerate() {
            rep.evaluations += 1;
            rep.count("probes-after-unrelated-work");
            let now = digest(p).0;
            if now != baseline[pi] && now != "inconclusive" && baseline[pi] != "inconclusive" {
                let asp = aspect(&baseline[pi], &now);
                rep.violation(
                    &format!("c05:after-unrelated-work:{asp}"),
                    &format!("the program `{}` gave {} at first and {} after the unrelated program `{}` had been parsed and run on the same thread", truncate(&p.replace(&dir, "<dir>"), 120), truncate(&baseline[pi], 160), truncate(&now, 160), truncate(&w.replace(&dir, "<dir>"), 160)),
                    "c05-work",
                    p,
                );
                let _ = wi;
                let _ = std::fs::remove_dir_all(&dir);
                return;
            }
        }
    }
    let _ = std::fs::remove_dir_all(&dir);
}

pub fn run(cfg: &Cfg, rep: &mut Report) {
    let deadline = Deadline::new(cfg.budget_s);
    if let Some(range) = cfg.extra.get("child") {
        // child process: print the digest of programs start..start+count of the parent's shard
        let mut it = range.split(':').filter_map(|x| x.parse::<u64>().ok());
        let (start, count, order) = (it.next().unwrap_or(0), it.next().unwrap_or(0), it.next().unwrap_or(0));
        let stdout = std::io::stdout();
        let mut w = stdout.lock();
        // the programs of the batch in another order than the parent ran them (what one program leaves behind in the
        // process must not matter to the next): 0 = same order, 1 = reversed, 2 = odd indices first
        let mut idxs: Vec<u64> = (start..start + count).collect();
        match order {
            1 => idxs.reverse(),
            2 => idxs.sort_by_key(|i| (i % 2 == 0, *i)),
            _ => {}
        }
        for i in idxs {
            let (d, _) = digest(&program(cfg.seed, cfg.shard, i));
            let _ = writeln!(w, "{i}\t{:016x}\t{}", hash64(&d), d.replace(['\n', '\t'], " "));
        }
        return;
    }
    let k = if cfg.thorough() { 32 } else { 8 };
    let p = if cfg.thorough() { 8 } else { 3 };
    // ---- types
    let uni = universe_depth1();
    let mut rng = cfg.rng(5);
    let n_pairs = cfg.per_shard(12_000, 600_000);
    for i in 0..n_pairs {
        if i % 64 == 0 && deadline.over() {
            break;
        }
        let (ta, tb) = if i % 3 == 0 {
            (rng.pick(&uni).clone(), rng.pick(&uni).clone())
        } else if i % 3 == 1 && i % 2 == 0 {
            // unions whose members answer the partial API questions differently (iterator / callable / indexable / cell /
            // tuple / struct shapes with `any` and with concrete types, next to members the question does not apply to):
            // the answer is folded over the members in hash order
            let it = |t: Ty| Ty::fun(vec![], Ty::Tup(vec![Ty::Bool, t]));
            let mut st = std::collections::BTreeMap::new();
            st.insert("a".to_string(), Ty::Any);
            let mut st2 = std::collections::BTreeMap::new();
            st2.insert("a".to_string(), Ty::Int);
            let shapes: Vec<Ty> = vec![
                it(Ty::Any), it(Ty::Int), it(Ty::union([Ty::Int, Ty::Str])), Ty::fun(vec![Ty::Any], Ty::Int), Ty::fun(vec![Ty::Int], Ty::Int), Ty::fun(vec![Ty::Int], Ty::Any),
                Ty::fun(vec![Ty::Int, Ty::Any], Ty::Str), Ty::arr(Ty::Any), Ty::arr(Ty::Int), Ty::arr(Ty::Never), Ty::Str, Ty::Int, Ty::Any, Ty::Void,
                Ty::Tup(vec![Ty::Int, Ty::Any]), Ty::Tup(vec![Ty::Any, Ty::Int]), Ty::Tup(vec![Ty::Int, Ty::Int, Ty::Int]), Ty::Struct(st), Ty::Struct(st2),
                Ty::mutc(Ty::Any), Ty::mutc(Ty::Int), Ty::mutc(Ty::union([Ty::Int, Ty::Any])),
            ];
            // one kind at a time, too: three or four tuples of different lengths, iterators of different elements, ...
            let tuples: Vec<Ty> = vec![
                Ty::Tup(vec![Ty::Int, Ty::Int]), Ty::Tup(vec![Ty::Float, Ty::Float, Ty::Float]), Ty::Tup(vec![Ty::Int, Ty::Int, Ty::Int]), Ty::Tup(vec![Ty::Str, Ty::Int, Ty::Int, Ty::Int]),
                Ty::Tup(vec![Ty::Any, Ty::Str]), Ty::Tup(vec![Ty::Bool; 5]), Ty::Tup(vec![Ty::Int, Ty::Str, Ty::Float]), Ty::Tup(vec![Ty::Void, Ty::Void]),
            ];
            let pool: &Vec<Ty> = if rng.chance(1, 3) { &tuples } else { &shapes };
            let n = 2 + rng.below(3);
            let a = Ty::union((0..n).map(|_| rng.pick(pool).clone()).collect::<Vec<_>>());
            let b = if rng.chance(1, 2) { rng.pick(&shapes).clone() } else { a.clone() };
            (a, b)
        } else {
            // focus: unions of structs / functions / arrays / tuples with >= 3 members
            let d = 1 + rng.below(3);
            let a = Ty::union([gen_type(&mut rng, d), gen_type(&mut rng, d), gen_type(&mut rng, d)]);
            let b = if rng.chance(1, 2) { gen_type(&mut rng, d) } else { a.clone() };
            (a, b)
        };
        if ta.depth() > 5 || tb.depth() > 5 {
            continue;
        }
        rep.shape("type_kinds", &format!("{}/{}", top(&ta), top(&tb)));
        check_types(&ta, &tb, k.min(8), rep);
        cfg.checkpoint(rep);
    }
    if cfg.shard == 0 {
        import_after_rewrite(rep);
    }
    if cfg.shard == 1 % cfg.nshards {
        after_unrelated_work(rep);
    }
    // ---- programs: K repetitions in this process, then P further processes
    let n_prog = cfg.per_shard(8_000, 400_000);
    let batch = 200u64;
    let exe = std::env::current_exe().ok();
    let mut start = 0u64;
    while start < n_prog {
        if deadline.over() {
            break;
        }
        let count = batch.min(n_prog - start);
        let mut mine: Vec<(u64, Option<String>)> = Vec::new();
        for i in start..start + count {
            let text = program(cfg.seed, cfg.shard, i);
            mine.push((i, check_program(&text, k, rep)));
        }
        if let Some(exe) = &exe {
            for child in 0..p {
                let out = std::process::Command::new(exe)
                    .args(["C05", "--seed", &cfg.seed.to_string(), "--shard", &cfg.shard.to_string(), "--nshards", &cfg.nshards.to_string(), "--out", "/dev/null", "--opt", &format!("child={start}:{count}:{}", child % 3)])
                    .output();
                let Ok(out) = out else {
                    rep.inconclusive("child-process-failed-to-start");
                    continue;
                };
                rep.count("child-processes");
                let text = String::from_utf8_lossy(&out.stdout);
                for line in text.lines() {
                    let mut f = line.splitn(3, '\t');
                    let (Some(i), Some(_h), Some(d)) = (f.next().and_then(|x| x.parse::<u64>().ok()), f.next(), f.next()) else { continue };
                    let Some((_, Some(m))) = mine.iter().find(|(j, _)| *j == i) else { continue };
                    rep.evaluations += 1;
                    rep.count("cross-process-comparisons");
                    let m1 = m.replace(['\n', '\t'], " ");
                    if d != "inconclusive" && m1 != d {
                        let asp = aspect(&m1, d);
                        let key = if exhausted_payload_only(&m1, d) { "c05:program:value:exhausted-iterator-payload".to_string() } else { format!("c05:program:{asp}:cross-process") };
                        let ptext = program(cfg.seed, cfg.shard, i);
                        rep.violation(&key, &format!("process {child} disagrees ({asp}): {} vs {} :: {}", truncate(&m1, 200), truncate(d, 200), truncate(ptext.strip_prefix(PRELUDE).unwrap_or(&ptext), 400)), "c05-program", &ptext);
                    }
                }
            }
        }
        start += count;
        cfg.checkpoint(rep);
    }
}

pub fn replay(kind: &str, payload: &str, rep: &mut Report) {
    if kind == "c05-import" {
        import_after_rewrite(rep);
        return;
    }
    if kind == "c05-work" {
        after_unrelated_work(rep);
        return;
    }
    if kind == "c05-types" {
        let mut it = payload.trim_end().split('\t');
        let (Some(a), Some(b)) = (it.next(), it.next()) else { return };
        let (Ok(a), Ok(b)) = (a.parse::<Type>(), b.parse::<Type>()) else { return };
        check_types(&Ty::from_real(&a), &Ty::from_real(&b), 32, rep);
    } else {
        let text = if payload.starts_with(PRELUDE) { payload.to_string() } else { format!("{PRELUDE}{payload}") };
        check_program(&text, 64, rep);
    }
    let _ = Rng::new(1);
}
