//! C15 types survive printing and re-parsing; `it ? T` (which re-parses printed types internally).
use crate::oracle::{Ty, canon, gen_type, inhabits, universe_depth1};
use crate::real::{self, Outcome};
use crate::util::{Cfg, Deadline, Obj, Report, Rng};
use simplesl::variable::{Type, Variable};
use std::collections::BTreeSet;
use std::str::FromStr;

/// positions in which a union occurs inside `t`
fn union_positions(t: &Ty, pos: &str, out: &mut BTreeSet<String>) {
    if t.is_union() {
        out.insert(pos.to_string());
    }
    match t {
        Ty::Arr(e) => union_positions(e, "array-element", out),
        Ty::Mut(e) => union_positions(e, "mut-content", out),
        Ty::Tup(ts) => ts.iter().for_each(|e| union_positions(e, "tuple-element", out)),
        Ty::Fun(ps, r) => {
            ps.iter().for_each(|e| union_positions(e, "parameter", out));
            union_positions(r, "function-result", out);
        }
        Ty::Struct(fs) => fs.values().for_each(|e| union_positions(e, "struct-field", out)),
        Ty::Union(ms) => ms.iter().for_each(|e| union_positions(e, "union-member", out)),
        _ => {}
    }
}

fn top_kind(t: &Ty) -> &'static str {
    match t {
        Ty::Arr(_) => "array",
        Ty::Tup(_) => "tuple",
        Ty::Fun(..) => "function",
        Ty::Mut(_) => "mut",
        Ty::Struct(_) => "struct",
        Ty::Union(_) => "union",
        _ => "leaf",
    }
}

fn check_type(t: &Ty, reps: u64, rep: &mut Report) {
    let mut positions = BTreeSet::new();
    union_positions(t, "top", &mut positions);
    for p in &positions {
        rep.shape("union_positions", p);
    }
    rep.distinct_case(&t.text());
    let pos_tag = positions.iter().next_back().cloned().unwrap_or_else(|| "no-union".into());
    let mut texts: BTreeSet<String> = BTreeSet::new();
    for r in 0..reps {
        // a fresh build each time: every HashSet / HashMap instance inside gets new hash keys
        let built = if r % 2 == 0 { Some(t.to_real()) } else { t.parse_real(r) };
        let Some(built) = built else {
            rep.violation(&format!("c15:own-syntax-rejected:{}", top_kind(t)), &format!("Type::from_str rejects {}", t.text_ord(r)), "c15-type", &t.text());
            continue;
        };
        if Ty::from_real(&built) != *t {
            rep.violation(&format!("c15:build-differs:{}", top_kind(t)), &format!("{} built as {}", t.text_ord(r), Ty::from_real(&built).text()), "c15-type", &t.text());
            continue;
        }
        rep.evaluations += 1;
        let printed = match real::guarded(|| built.to_string()) {
            Ok(s) => s,
            Err(p) => {
                rep.violation(&format!("c15:print-panic:{}", p.site()), &format!("printing {} panicked: {}", t.text(), p.short_msg()), "c15-type", &t.text());
                continue;
            }
        };
        texts.insert(printed.clone());
        match real::guarded(|| Type::from_str(&printed)) {
            Err(p) => rep.violation(&format!("c15:parse-panic:{}", p.site()), &format!("Type::from_str({printed:?}) panicked: {}", p.short_msg()), "c15-type", &t.text()),
            Ok(Err(_)) => rep.violation(&format!("c15:roundtrip:{pos_tag}:rejected"), &format!("type {} prints as {printed:?}, which Type::from_str rejects", t.text()), "c15-type", &t.text()),
            Ok(Ok(back)) => {
                let tb = Ty::from_real(&back);
                if tb != *t {
                    rep.violation(&format!("c15:roundtrip:{pos_tag}:changed"), &format!("type {} prints as {printed:?}, which parses to {}", t.text(), tb.text()), "c15-type", &t.text());
                } else if !real::guarded(|| back == built && built == back).unwrap_or(false) {
                    rep.violation(&format!("c15:roundtrip:{pos_tag}:not-equal"), &format!("type {} prints as {printed:?}; the re-parsed type is structurally the same but the crate's == says unequal", t.text()), "c15-type", &t.text());
                }
            }
        }
    }
    if texts.len() > 1 {
        rep.count("types_seen_in_several_print_orders");
    }
    rep.add("printed_texts", texts.len() as u64);
    rep.sample("type", 6, || Obj::new().s("type", &t.text()).raw("printed_as", crate::util::json_arr(&texts.iter().map(|s| crate::util::json_str(s)).collect::<Vec<_>>())).render());
}

/// histories on one type value: print it, widen it (or a clone made after the print) through the public `|`, print
/// again - whatever was printed before, the text must read back as the value it was printed from
fn check_history(a: &Ty, b: &Ty, d: &Ty, rep: &mut Report) {
    rep.evaluations += 1;
    rep.count("print-widen-print-histories");
    let run = real::guarded(|| {
        let ra = a.to_real();
        let first = ra.to_string();
        let kept = ra.clone();
        let c = ra | b.to_real();
        let second = c.to_string();
        let mut c2 = c.clone();
        c2 |= d.to_real();
        let third = c2.to_string();
        let again = kept.to_string();
        (first, kept, c, second, c2, third, again)
    });
    let (first, kept, c, second, c2, third, again) = match run {
        Ok(x) => x,
        Err(p) => {
            rep.violation(&format!("c15:history:panic:{}", p.site()), &format!("print / widen / print of {} | {} | {} panicked: {}", a.text(), b.text(), d.text(), p.short_msg()), "c15-type", &a.text());
            return;
        }
    };
    let _ = first;
    // (the third value is widened with `|=`, whose result need not be the canonical union; only its text is judged)
    let want_c = Ty::union([a.clone(), b.clone()]);
    let want_c2 = Ty::union([a.clone(), b.clone(), d.clone()]);
    for (what, real_t, text, want) in [("a | b", &c, &second, &want_c), ("a | b | d", &c2, &third, &want_c2), ("a (printed again after its clone was widened)", &kept, &again, a)] {
        if Ty::from_real(real_t) != *want {
            // the union itself is C10's matter; here only the text is judged, against the value it was printed from
            rep.count("history:union-built-differently");
        }
        match real::guarded(|| Type::from_str(text)) {
            Ok(Ok(back)) => {
                if Ty::from_real(&back) != Ty::from_real(real_t) {
                    rep.violation(
                        "c15:history:stale-or-wrong-text",
                        &format!("{what} for a = {}, b = {}, d = {}: the value {} prints as {text:?}, which parses to {}", a.text(), b.text(), d.text(), Ty::from_real(real_t).text(), Ty::from_real(&back).text()),
                        "c15-history",
                        &format!("{}\n{}\n{}", a.text(), b.text(), d.text()),
                    );
                    return;
                }
            }
            Ok(Err(_)) => {
                rep.violation("c15:history:text-rejected", &format!("{what}: {text:?} is rejected by Type::from_str"), "c15-history", &format!("{}\n{}\n{}", a.text(), b.text(), d.text()));
                return;
            }
            Err(p) => {
                rep.violation(&format!("c15:history:parse-panic:{}", p.site()), &format!("{what}: Type::from_str({text:?}) panicked"), "c15-history", &format!("{}\n{}\n{}", a.text(), b.text(), d.text()));
                return;
            }
        }
    }
}

/// `it ? T` executed in-language: which elements pass, compared with membership judged by the harness
fn check_filter(t: &Ty, rep: &mut Report) {
    // elements with an unambiguous runtime type
    let elems = ["1", "2.5", "\"s\"", "true", "()", "[1]", "[\"a\", \"b\"]", "(1, \"a\")", "struct{a := 1}", "[1, 2.5]", "(2.5, true)"];
    let vals: Vec<Variable> = elems.iter().map(|e| match real::parse_exec(e, false) { Outcome::Value(v) => v, _ => Variable::Void }).collect();
    let src = format!("[{}]~ ? {} $]", elems.join(", "), t.text());
    rep.evaluations += 1;
    rep.count("type_filter_programs");
    let expected: Vec<String> = vals.iter().filter(|v| inhabits(v, t)).map(canon).collect();
    match real::parse_exec(&src, false) {
        Outcome::Value(Variable::Array(a)) => {
            let got: Vec<String> = a.iter().map(canon).collect();
            if got != expected {
                rep.violation(&format!("c15:type-filter:wrong-selection:{}", top_kind(t)), &format!("{src} selected [{}], expected [{}]", got.join(", "), expected.join(", ")), "c15-filter", &t.text());
            } else if !expected.is_empty() {
                rep.count("type_filter_nonempty_selection");
            }
        }
        Outcome::Panic(p) if p.kind == real::PanicKind::Panic => {
            let inhabited = if crate::oracle::ValueGen::new(&mut Rng::new(1)).expr_text(t, 0).is_some() { "inhabited" } else { "uninhabited" };
            rep.violation(&format!("c15:type-filter:panic:{}:{inhabited}", p.site()), &format!("{src} panicked at {}: {}", p.site(), p.short_msg()), "c15-filter", &t.text())
        }
        Outcome::Panic(_) => rep.inconclusive("resource-or-fuel"),
        other => rep.violation(&format!("c15:type-filter:{}", other.tag()), &format!("{src}: {}", other.tag()), "c15-filter", &t.text()),
    }
}

pub fn run(cfg: &Cfg, rep: &mut Report) {
    let deadline = Deadline::new(cfg.budget_s);
    let reps = if cfg.thorough() { 32 } else { 8 };
    let uni = universe_depth1();
    for (i, t) in uni.iter().enumerate() {
        if cfg.owns(i as u64) {
            check_type(t, reps, rep);
            check_filter(t, rep);
            let n = uni.len();
            for k in 0..4 {
                check_history(t, &uni[(i * 7 + 3 + k * 101) % n], &uni[(i * 13 + 5 + k * 211) % n], rep);
            }
        }
    }
    // deep types: the property has no depth bound (re-parsing time grows steeply with the depth on this parser, so one
    // type per depth and constructor chain; beyond 17 levels a single parse takes seconds, which is time, not the claim)
    for depth in 5..=17usize {
        if !cfg.owns(7000 + depth as u64) {
            continue;
        }
        let chains: [&dyn Fn(Ty, usize) -> Ty; 4] = [
            &|t, _| Ty::arr(t),
            &|t, k| if k % 2 == 0 { Ty::arr(t) } else { Ty::mutc(t) },
            &|t, k| if k % 3 == 0 { Ty::fun(vec![], t) } else { Ty::arr(t) },
            &|t, k| if k % 4 == 0 { let mut f = std::collections::BTreeMap::new(); f.insert("a".to_string(), t); Ty::Struct(f) } else { Ty::arr(t) },
        ];
        for (ci, chain) in chains.iter().enumerate() {
            if depth > 13 && ci > 0 && !cfg.thorough() {
                continue;
            }
            for leaf in [Ty::Int, Ty::Void, Ty::union([Ty::Int, Ty::Str])] {
                let mut t = leaf;
                for k in 0..depth {
                    t = chain(t, k);
                }
                rep.count("deep-types");
                rep.shape("type_nesting_depths", &format!("{depth}"));
                check_type(&t, 1, rep);
            }
        }
    }
    // field names: every identifier shape the grammar admits (upper / mixed case, digits, underscores, look-alikes
    // of keywords and of type names, pairs that differ only in case, long names) in every position of a type
    if cfg.shard == 1 % cfg.nshards {
        let long = "q".repeat(64);
        let names: Vec<&str> = vec![
            "A", "Z", "Name", "userId", "X1", "_", "_x", "__", "a_b", "aB", "Ab", "AB", "z9", "intx", "int_", "Int", "INT", "String", "Float", "Bool", "Any", "Mut",
            "mutable", "structure", "STRUCT", "anything", "boolean", "floaty", "stringy", "iff", "returns", "trues", "matchx", "fn_", "self", "Self", "r#a".trim_start_matches("r#"), "a0", "a00", "a_", "_a", "_0", "k", "K", &long,
            "int", "float", "string", "bool", "any", "if", "else", "match", "in", "set", "std", "import", "trueish", "falsey", "breaks", "continued", "mutx", "returnx", "loops", "whiles", "fore", "modx", "structx",
        ];
        let leaf = [Ty::Int, Ty::Str, Ty::Float, Ty::Bool, Ty::arr(Ty::Int)];
        let st_of = |ns: &[&str]| {
            let mut fs = std::collections::BTreeMap::new();
            for (k, n) in ns.iter().enumerate() {
                fs.insert(n.to_string(), leaf[k % leaf.len()].clone());
            }
            Ty::Struct(fs)
        };
        let mut structs: Vec<Ty> = names.iter().map(|n| st_of(&[n])).collect();
        for w in names.windows(2) {
            structs.push(st_of(w));
        }
        for pair in [["a", "A"], ["k", "K"], ["ab", "aB"], ["Ab", "AB"], ["int_", "Int"], ["x1", "X1"], ["_a", "_A"], ["name", "Name"]] {
            structs.push(st_of(&pair));
            let mut fs = std::collections::BTreeMap::new();
            fs.insert(pair[0].to_string(), Ty::Int);
            fs.insert(pair[1].to_string(), Ty::Str);
            fs.insert("mid".to_string(), Ty::Float);
            structs.push(Ty::Struct(fs));
        }
        structs.push(st_of(&names));
        for st in structs {
            for t in [st.clone(), Ty::arr(st.clone()), Ty::mutc(st.clone()), Ty::Tup(vec![Ty::Int, st.clone()]), Ty::fun(vec![st.clone()], Ty::arr(st.clone())), Ty::union([st.clone(), Ty::Int]), Ty::Struct([("Outer".to_string(), st.clone())].into_iter().collect())] {
                rep.count("field-name-types");
                check_type(&t, reps.min(4), rep);
            }
        }
    }
    // wide types: structs / tuples / unions / parameter lists with many members (printing must not abbreviate)
    if cfg.shard == 0 {
        let leaf = [Ty::Int, Ty::Str, Ty::Float, Ty::Bool, Ty::Void, Ty::arr(Ty::Int), Ty::mutc(Ty::Int), Ty::Tup(vec![Ty::Int, Ty::Str])];
        for n in [0usize, 1, 2, 5, 7, 8, 9, 10, 12, 16, 17, 32, 33, 64, 100] {
            let mut fs = std::collections::BTreeMap::new();
            for k in 0..n {
                fs.insert(format!("f{k}"), leaf[k % leaf.len()].clone());
            }
            let st = Ty::Struct(fs);
            let tup = Ty::Tup((0..n.max(2)).map(|k| leaf[k % leaf.len()].clone()).collect());
            let fun = Ty::fun((0..n).map(|k| leaf[k % leaf.len()].clone()).collect(), Ty::Int);
            let uni_wide = Ty::union((0..n.max(2)).map(|k| Ty::Tup(vec![leaf[k % leaf.len()].clone(); 2 + k / leaf.len()])).collect::<Vec<_>>());
            for t in [st.clone(), tup, fun, uni_wide, Ty::arr(st.clone()), Ty::mutc(st.clone()), Ty::fun(vec![st.clone()], st.clone()), Ty::union([st.clone(), Ty::Int])] {
                rep.count("wide-types");
                check_type(&t, reps.min(8), rep);
            }
            // the type filter over structs that lack exactly one of the fields
            if n > 0 && n <= 17 {
                let val = |k: usize| ["1", "\"s\"", "2.5", "true", "()", "[1]", "mut 1", "(1, \"s\")"][k % 8];
                let full: Vec<String> = (0..n).map(|k| format!("f{k} := {}", val(k))).collect();
                let mut elems = vec![format!("struct{{{}}}", full.join(", "))];
                for miss in 0..n {
                    let part: Vec<String> = (0..n).filter(|k| *k != miss).map(|k| format!("f{k} := {}", val(k))).collect();
                    elems.push(format!("struct{{{}}}", part.join(", ")));
                }
                let src = format!("std.len([{}]~ ? {} $])", elems.join(", "), st.text());
                rep.evaluations += 1;
                match real::parse_exec(&src, true) {
                    Outcome::Value(Variable::Int(1)) => rep.count("wide-struct-filter-held"),
                    other => rep.violation("c15:type-filter:wide-struct", &format!("a filter by a struct type of {n} fields over one complete struct and {n} structs each lacking one field selected {} element(s), expected 1", match &other { Outcome::Value(v) => canon(v), o => o.tag() }), "c15-type", &st.text()),
                }
            }
        }
    }
    let mut rng = cfg.rng(15);
    let n = cfg.per_shard(300_000, 12_000_000);
    for i in 0..n {
        if i % 128 == 0 && deadline.over() {
            break;
        }
        let d = 2 + rng.below(3);
        let mut t = gen_type(&mut rng, d);
        // focus: unions nested in the five positions the statement lists
        if rng.chance(1, 2) {
            let u = Ty::union([gen_type(&mut rng, 1), gen_type(&mut rng, 1), gen_type(&mut rng, 0)]);
            t = match rng.below(6) {
                0 => Ty::fun(vec![t], u),
                1 => Ty::mutc(u),
                2 => Ty::arr(u),
                3 => Ty::fun(vec![u], t),
                4 => {
                    let mut f = std::collections::BTreeMap::new();
                    f.insert("a".to_string(), u);
                    f.insert("b".to_string(), t);
                    Ty::Struct(f)
                }
                _ => Ty::union([Ty::fun(vec![], u), t]),
            };
        }
        if t.depth() > 6 {
            continue;
        }
        check_type(&t, reps.min(8), rep);
        if i % 8 == 0 {
            check_filter(&t, rep);
            let b = gen_type(&mut rng, 1);
            let d = gen_type(&mut rng, 2);
            check_history(&t, &b, &d, rep);
        }
    }
}

pub fn replay(kind: &str, payload: &str, rep: &mut Report) {
    if kind == "c15-history" {
        let ts: Vec<Ty> = payload.lines().filter_map(|l| Type::from_str(l.trim()).ok()).map(|t| Ty::from_real(&t)).collect();
        if ts.len() == 3 {
            check_history(&ts[0], &ts[1], &ts[2], rep);
        } else {
            rep.notes.push("replay: expected three type texts".into());
        }
        return;
    }
    let Ok(real_t) = Type::from_str(payload.trim()) else {
        rep.notes.push(format!("replay: cannot parse type {payload:?}"));
        return;
    };
    let t = Ty::from_real(&real_t);
    if kind == "c15-filter" {
        check_filter(&t, rep);
    } else {
        check_type(&t, 16, rep);
    }
}
