//! C18 standard library functions honour their declared signatures: signature monitor over every
//! function reachable from `std` (discovered at run time), boundary / random arguments, independent
//! expectations for the pure helpers, file-system fault states, stdin states for cgetline.
use crate::oracle::{Ty, ValueGen, canon, inhabits_why};
use crate::real::{self, Outcome, PanicKind};
use crate::util::{Cfg, Deadline, FLOAT_BOUNDARY, INT_BOUNDARY, Obj, Report, Rng, truncate};
use simplesl::variable::{Typed, Variable};
use simplesl::{Interpreter, function::Function};
use std::collections::BTreeMap;
use std::io::Write;
use std::sync::Arc;

pub const STRINGS: &[&str] = &[
    "", "a", " a b ", "héllo", "日本", "a\0b", "🦀", "AbC", "x,y,,z", "\t x \n", "١٢٣", "+5", "-0", "9223372036854775807", "9223372036854775808",
    "-9223372036854775808", "1e5", "inf", "NaN", "0x10", "  12", "12 ", "1_000", "ß", "İ", "ǅ", "\u{85}x\u{a0}", ",", "aaa", "aa", "e\u{301}", "\u{2028}", "1.5", "-1.5e-3", ".5", "5.", "\u{fffd}", "a\u{fffd}b\u{fffd}", "\u{feff}x", "\u{ffff}", "\u{10ffff}", "\u{d7ff}\u{e000}", "\u{7f}\u{80}\u{7ff}\u{800}",
    // long inputs (33, 64, 65, 129, 257, 258, 1000 characters; ASCII, multi-byte, separators, lines)
    "abcdefghijklmnopqrstuvwxyzABCDEFG", "x,x,x,x,x,x,x,x,x,x,x,x,x,x,x,x,x,x,x,x,x,x,x,x,x,x,x,x,x,x,x,x,", "ééééééééééééééééééééééééééééééééééééééééééééééééééééééééééééééééé", "a🦀a🦀a🦀a🦀a🦀a🦀a🦀a🦀a🦀a🦀a🦀a🦀a🦀a🦀a🦀a🦀a🦀a🦀a🦀a🦀a🦀a🦀a🦀a🦀a🦀a🦀a🦀a🦀a🦀a🦀a🦀a🦀a🦀a🦀a🦀a🦀a🦀a🦀a🦀a🦀a🦀a🦀a🦀a🦀a🦀a🦀a🦀a🦀a🦀a🦀a🦀a🦀a🦀a🦀a🦀a🦀a🦀a🦀a🦀a🦀a🦀a🦀a🦀a🦀b", " word word word word word word word word word word word word word word word word word word word word word word word word word word word word word word word word word word word word word word word word word word word word word word word word word word word \t", "AAAAAAAAAAAAAAAAAAAAAAAAAAAAAAAAAAAAAAAAAAAAAAAAAAAAAAAAAAAAAAAAAAAAAAAAAAAAAAAAAAAAAAAAAAAAAAAAAAAAAAAAAAAAAAAAAAAAAAAAAAAAAAAAAAAAAAAAAAAAAAAAAAAAAAAAAAAAAAAAAAAAAAAAAAAAAAAAAAAAAAAAAAAAAAAAAAAAAAAAAAAAAAAAAAAAAAAAAAAAAAAAAAAAAAAAAAAAAAAAAAAAAAAAAAAAAAAAA", "line\nline\nline\nline\nline\nline\nline\nline\nline\nline\nline\nline\nline\nline\nline\nline\nline\nline\nline\nline\nline\nline\nline\nline\nline\nline\nline\nline\nline\nline\nline\nline\nline\nline\nline\nline\nline\nline\nline\nline\nline\nline\nline\nline\nline\nline\nline\nline\nline\nline\nline\nline\nline\nline\nline\nline\nline\nline\nline\nline\nline\nline\nline\nline\nline\nline\nline\nline\nline\nline\nline\nline\nline\nline\nline\nline\nline\nline\nline\nline\nline\nline\nline\nline\nline\nline\nline\nline\nline\nline\nline\nline\nline\nline\nline\nline\nline\nline\nline\nline\nline\nline\nline\nline\nline\nline\nline\nline\nline\nline\nline\nline\nline\nline\nline\nline\nline\nline\nline\nline\nline\nline\nline\nline\nline\nline\nline\nline\nline\nline\nline\nline\nline\nline\nline\nline\nline\nline\nline\nline\nline\nline\nline\nline\nline\nline\nline\nline\nline\nline\nline\nline\nline\nline\nline\nline\nline\nline\nline\nline\nline\nline\nline\nline\nline\nline\nline\nline\nline\nline\nline\nline\nline\nline\nline\nline\nline\nline\nline\nline\nline\nline\nline\nline\nline\nline\nline\nline\nline\nline\nline\nline\nline\nline\nline\nline\nline\nline\nline\nline\n", "0123456789012345678901234567890123456789012345678901234567890123456789012345678901234567890123456789012345678901234567890123456789012345678901234567890123456789012345678901234567890123456789012345678901234567890123456789012345678901234567890123456789012345678901234567890123456789012345678901234567890123456789012345678901234567890123456789012345678901234567890123456789012345678901234567890123456789012345678901234567890123456789012345678901234567890123456789012345678901234567890123456789012345678901234567890123456789012345678901234567890123456789012345678901234567890123456789012345678901234567890123456789012345678901234567890123456789012345678901234567890123456789012345678901234567890123456789012345678901234567890123456789012345678901234567890123456789012345678901234567890123456789012345678901234567890123456789012345678901234567890123456789012345678901234567890123456789012345678901234567890123456789012345678901234567890123456789012345678901234567890123456789012345678901234567890123456789",
];

fn walk(v: &Variable, path: String, funcs: &mut Vec<(String, Arc<Function>)>, consts: &mut Vec<(String, Variable)>) {
    match v {
        Variable::Struct(s) => {
            let mut keys: Vec<_> = s.keys().cloned().collect();
            keys.sort();
            for k in keys {
                let p = if path.is_empty() { k.to_string() } else { format!("{path}.{k}") };
                walk(&s[&k], p, funcs, consts);
            }
        }
        Variable::Function(f) => funcs.push((path, f.clone())),
        other => consts.push((path, other.clone())),
    }
}

fn int_list() -> Vec<Variable> {
    INT_BOUNDARY.iter().map(|i| Variable::Int(*i)).collect()
}

fn int_list_extended() -> Vec<Variable> {
    let mut v: Vec<i64> = INT_BOUNDARY.to_vec();
    // digit and bit boundaries: 10^k - 1, 10^k, 10^k + 1 and 2^k - 1, 2^k, 2^k + 1 (where `ilog*`, conversions and formatting change length)
    let mut p: i64 = 1;
    for _ in 1..=18 {
        p *= 10;
        v.extend([p - 1, p, p + 1, -p]);
    }
    for k in [7u32, 8, 15, 16, 24, 31, 32, 33, 52, 53, 54, 62] {
        let q = 1i64 << k;
        v.extend([q - 1, q, q + 1]);
    }
    v.sort();
    v.dedup();
    v.into_iter().map(Variable::Int).collect()
}

fn byte_arrays() -> Vec<Variable> {
    let mk = |v: &[i64]| Variable::from(v.iter().map(|i| Variable::Int(*i)).collect::<Vec<_>>());
    let mut out = byte_arrays_fixed();
    // the encoding of every string of the pool (so that decoding is also judged as the inverse of `bytes`)
    for s in STRINGS {
        out.push(mk(&s.as_bytes().iter().map(|b| *b as i64).collect::<Vec<_>>()));
    }
    out
}

fn byte_arrays_fixed() -> Vec<Variable> {
    let mk = |v: &[i64]| Variable::from(v.iter().map(|i| Variable::Int(*i)).collect::<Vec<_>>());
    vec![
        mk(&[]),
        mk(&[104, 105]),
        mk(&[255]),
        mk(&[256, -1, 1 << 40]),
        mk(&[0xF0, 0x9F, 0xA6, 0x80]),
        mk(&[0xC3]),
        mk(&[0xE2, 0x82]),
        mk(&[0xE2, 0x82, 0xAC]),
        mk(&[0, 65, 0]),
        mk(&[0xED, 0xA0, 0x80]),
        mk(&[0xC0, 0x80]),
        mk(&[0xF4, 0x90, 0x80, 0x80]),
        mk(&[i64::MIN, i64::MAX, 65]),
        mk(&[0x141, 0x142]),
        // well-formed encodings of unusual characters: U+FFFD itself, non-characters, BOM, the ends of each length class
        mk(&[0xEF, 0xBF, 0xBD]),
        mk(&[65, 0xEF, 0xBF, 0xBD, 66, 0xEF, 0xBF, 0xBD]),
        mk(&[0xEF, 0xBF, 0xBE]),
        mk(&[0xEF, 0xBF, 0xBF]),
        mk(&[0xEF, 0xBB, 0xBF, 120]),
        mk(&[0xEF, 0xBF, 0xBC]),
        mk(&[0xF4, 0x8F, 0xBF, 0xBF]),
        mk(&[0xED, 0x9F, 0xBF, 0xEE, 0x80, 0x80]),
        mk(&[0x7F, 0xC2, 0x80, 0xDF, 0xBF, 0xE0, 0xA0, 0x80]),
        mk(&[0xF0, 0x90, 0x80, 0x80]),
        // ill-formed neighbours of those
        mk(&[0xE0, 0x80, 0x80]),
        mk(&[0xE0, 0x9F, 0xBF]),
        mk(&[0xF0, 0x80, 0x80, 0x80]),
        mk(&[0xF0, 0x8F, 0xBF, 0xBF]),
        mk(&[0xEF, 0xBF]),
        mk(&[0xEF, 0xBF, 0xBD, 0xFF]),
        mk(&[0x80]),
        mk(&[0xC1, 0xBF]),
        mk(&[0xF5, 0x80, 0x80, 0x80]),
        mk(&[0xF8, 0x88, 0x80, 0x80, 0x80]),
    ]
}

/// boundary values of a parameter type
fn boundary(t: &Ty, rng: &mut Rng, ext: bool) -> Vec<Variable> {
    match t {
        Ty::Int => if ext { int_list_extended() } else { int_list() },
        Ty::Float => FLOAT_BOUNDARY.iter().map(|f| Variable::Float(*f)).collect(),
        Ty::Str => STRINGS.iter().map(|s| Variable::String(Arc::from(*s))).collect(),
        Ty::Arr(e) if **e == Ty::Int => byte_arrays(),
        Ty::Union(ms) => ms.iter().flat_map(|m| boundary(m, rng, false).into_iter().take(12)).collect(),
        other => {
            let mut vg = ValueGen::new(rng);
            (0..8).filter_map(|_| vg.value(other, 0)).collect()
        }
    }
}

// ---- independent expectations ---------------------------------------------------------------

fn bits(i: i64) -> Vec<bool> {
    (0..64).map(|k| (i as u64 >> k) & 1 == 1).collect()
}

fn ilog_ref(num: i64, base: i64) -> Option<i64> {
    if num <= 0 || base < 2 {
        return None;
    }
    let (mut n, mut r) = (num as i128, 0);
    while n >= base as i128 {
        n /= base as i128;
        r += 1;
    }
    Some(r)
}

fn parse_int_ref(s: &str) -> Option<i64> {
    // Rust's i64::from_str: optional sign, then at least one ASCII digit, nothing else, must fit
    let (neg, digits) = match s.as_bytes().first() {
        Some(b'-') => (true, &s[1..]),
        Some(b'+') => (false, &s[1..]),
        _ => (false, s),
    };
    if digits.is_empty() || !digits.bytes().all(|b| b.is_ascii_digit()) {
        return None;
    }
    let mut v: i128 = 0;
    for b in digits.bytes() {
        v = v * 10 + (b - b'0') as i128;
        if v > 1 << 70 {
            return None;
        }
    }
    let v = if neg { -v } else { v };
    (v >= i64::MIN as i128 && v <= i64::MAX as i128).then_some(v as i64)
}

fn split_ref(s: &str, pat: &str) -> Vec<String> {
    let (sc, pc): (Vec<char>, Vec<char>) = (s.chars().collect(), pat.chars().collect());
    if pc.is_empty() {
        // Rust: "" pattern matches between every char and at both ends
        let mut out = vec![String::new()];
        out.extend(sc.iter().map(|c| c.to_string()));
        out.push(String::new());
        return out;
    }
    let mut out = Vec::new();
    let mut cur = String::new();
    let mut i = 0;
    while i < sc.len() {
        if i + pc.len() <= sc.len() && sc[i..i + pc.len()] == pc[..] {
            out.push(std::mem::take(&mut cur));
            i += pc.len();
        } else {
            cur.push(sc[i]);
            i += 1;
        }
    }
    out.push(cur);
    out
}

fn utf8_ref(bytes: &[u8]) -> Option<String> {
    // hand-rolled decoder (well-formed UTF-8 per the Unicode standard, table 3-7)
    let mut out = String::new();
    let mut i = 0;
    while i < bytes.len() {
        let b = bytes[i];
        let (len, min, init) = match b {
            0x00..=0x7F => (1, 0, b as u32),
            0xC2..=0xDF => (2, 0x80, (b & 0x1F) as u32),
            0xE0..=0xEF => (3, 0x800, (b & 0x0F) as u32),
            0xF0..=0xF4 => (4, 0x10000, (b & 0x07) as u32),
            _ => return None,
        };
        if i + len > bytes.len() {
            return None;
        }
        let mut cp = init;
        for k in 1..len {
            let c = bytes[i + k];
            if c & 0xC0 != 0x80 {
                return None;
            }
            cp = (cp << 6) | (c & 0x3F) as u32;
        }
        if cp < min || cp > 0x10FFFF || (0xD800..=0xDFFF).contains(&cp) {
            return None;
        }
        out.push(char::from_u32(cp)?);
        i += len;
    }
    Some(out)
}

fn s(v: &Variable) -> &str {
    match v {
        Variable::String(x) => x,
        _ => "",
    }
}
fn i(v: &Variable) -> i64 {
    match v {
        Variable::Int(x) => *x,
        _ => 0,
    }
}
fn f(v: &Variable) -> f64 {
    match v {
        Variable::Float(x) => *x,
        _ => 0.0,
    }
}
fn strs(v: Vec<String>) -> Variable {
    Variable::from(v.into_iter().map(|x| Variable::String(Arc::from(x))).collect::<Vec<_>>())
}
fn opt_int(o: Option<i64>) -> Variable {
    o.map_or(Variable::Void, Variable::Int)
}

/// independent expectation for the documented pure helpers (None = only the signature is judged)
/// float rounding / transcendental functions: the property only requires their signature, so a value that differs
/// from the host's f64 method is recorded as a note
fn advisory(path: &str) -> bool {
    const EXACT: [&str; 30] = [
        "floor", "ceil", "round", "round_ties_even", "trunc", "fract", "ln", "log", "log2", "log10", "sin", "cos", "tan", "asin", "acos", "atan",
        "atan2", "exp_m1", "ln_1p", "sinh", "cosh", "tanh", "asinh", "acosh", "atanh", "is_normal", "is_subnormal", "exp", "exp2", "sqrt",
    ];
    path.strip_prefix("math.").is_some_and(|f| EXACT.contains(&f))
}

fn expected(path: &str, a: &[Variable]) -> Option<Variable> {
    Some(match path {
        "len" => match &a[0] {
            Variable::Array(x) => Variable::Int(x.len() as i64),
            Variable::String(x) => Variable::Int(x.chars().count() as i64),
            _ => return None,
        },
        "math.count_ones" => Variable::Int(bits(i(&a[0])).iter().filter(|b| **b).count() as i64),
        "math.count_zeros" => Variable::Int(bits(i(&a[0])).iter().filter(|b| !**b).count() as i64),
        "math.leading_zeroes" => Variable::Int(bits(i(&a[0])).iter().rev().take_while(|b| !**b).count() as i64),
        "math.trailing_zeroes" => Variable::Int(bits(i(&a[0])).iter().take_while(|b| !**b).count() as i64),
        "math.leading_ones" => Variable::Int(bits(i(&a[0])).iter().rev().take_while(|b| **b).count() as i64),
        "math.trailing_ones" => Variable::Int(bits(i(&a[0])).iter().take_while(|b| **b).count() as i64),
        "math.reverse_bits" => {
            let b = bits(i(&a[0]));
            let mut r: u64 = 0;
            for k in 0..64 {
                if b[k] {
                    r |= 1 << (63 - k);
                }
            }
            Variable::Int(r as i64)
        }
        "math.swap_bytes" => {
            let x = i(&a[0]) as u64;
            let mut r: u64 = 0;
            for k in 0..8 {
                r |= ((x >> (8 * k)) & 0xFF) << (8 * (7 - k));
            }
            Variable::Int(r as i64)
        }
        "math.ilog" => opt_int(ilog_ref(i(&a[0]), i(&a[1]))),
        "math.ilog2" => opt_int(ilog_ref(i(&a[0]), 2)),
        "math.ilog10" => opt_int(ilog_ref(i(&a[0]), 10)),
        "math.is_nan" => Variable::Bool(f(&a[0]) != f(&a[0])),
        "math.is_infinite" => Variable::Bool(f(&a[0]).abs() == f64::INFINITY),
        "math.is_finite" => Variable::Bool(f(&a[0]).abs() < f64::INFINITY),
        "math.is_sign_negative" => Variable::Bool(f(&a[0]).to_bits() >> 63 == 1),
        "math.is_sign_positive" => Variable::Bool(f(&a[0]).to_bits() >> 63 == 0),
        "math.to_bits" => Variable::Int(f(&a[0]).to_bits() as i64),
        "math.from_bits" => {
            let r = f64::from_bits(i(&a[0]) as u64);
            if r.is_nan() {
                return None; // NaN payloads: compared as "is NaN" by canon anyway
            }
            Variable::Float(r)
        }
        "convert.to_float" => match &a[0] {
            Variable::Int(x) => Variable::Float(*x as f64),
            Variable::Float(x) => Variable::Float(*x),
            _ => return None,
        },
        "convert.to_int" => match &a[0] {
            Variable::Int(x) => Variable::Int(*x),
            Variable::Float(x) => {
                // saturating conversion, NaN -> 0
                let x = *x;
                Variable::Int(if x.is_nan() {
                    0
                } else if x >= 9.223372036854775807e18 {
                    i64::MAX
                } else if x <= -9.223372036854775808e18 {
                    i64::MIN
                } else {
                    x.trunc() as i64
                })
            }
            _ => return None,
        },
        "convert.parse_int" => opt_int(parse_int_ref(s(&a[0]))),
        "string.split" => strs(split_ref(s(&a[0]), s(&a[1]))),
        "string.replace" => {
            if s(&a[1]).is_empty() {
                return None; // empty pattern: insertion between all chars, left to the signature check
            }
            Variable::String(Arc::from(split_ref(s(&a[0]), s(&a[1])).join(s(&a[2]))))
        }
        "string.contains" => Variable::Bool(s(&a[1]).is_empty() || split_ref(s(&a[0]), s(&a[1])).len() > 1),
        "string.starts_with" => {
            let (x, p): (Vec<char>, Vec<char>) = (s(&a[0]).chars().collect(), s(&a[1]).chars().collect());
            Variable::Bool(x.len() >= p.len() && x[..p.len()] == p[..])
        }
        "string.ends_with" => {
            let (x, p): (Vec<char>, Vec<char>) = (s(&a[0]).chars().collect(), s(&a[1]).chars().collect());
            Variable::Bool(x.len() >= p.len() && x[x.len() - p.len()..] == p[..])
        }
        "string.chars" => strs(s(&a[0]).chars().map(|c| c.to_string()).collect()),
        "string.bytes" => Variable::from(s(&a[0]).as_bytes().iter().map(|b| Variable::Int(*b as i64)).collect::<Vec<_>>()),
        "string.str_from_utf8" => {
            let Variable::Array(arr) = &a[0] else { return None };
            // documented for arrays of bytes; values outside 0..=255 are left to the signature check
            if arr.iter().any(|v| !(0..=255).contains(&i(v))) {
                return None;
            }
            let bytes: Vec<u8> = arr.iter().map(|v| i(v) as u8).collect();
            utf8_ref(&bytes).map_or(Variable::Void, |x| Variable::String(Arc::from(x)))
        }
        "string.trim" | "string.trim_start" | "string.trim_end" => {
            let cs: Vec<char> = s(&a[0]).chars().collect();
            let (mut lo, mut hi) = (0, cs.len());
            if path != "string.trim_end" {
                while lo < hi && cs[lo].is_whitespace() {
                    lo += 1;
                }
            }
            if path != "string.trim_start" {
                while hi > lo && cs[hi - 1].is_whitespace() {
                    hi -= 1;
                }
            }
            Variable::String(Arc::from(cs[lo..hi].iter().collect::<String>()))
        }
        // the documentation defines these by reference to the host language's equivalents
        "string.to_lowercase" => Variable::String(Arc::from(s(&a[0]).to_lowercase())),
        "string.to_uppercase" => Variable::String(Arc::from(s(&a[0]).to_uppercase())),
        "string.str_from_utf8_lossy" => {
            let Variable::Array(arr) = &a[0] else { return None };
            if arr.iter().any(|v| !(0..=255).contains(&i(v))) {
                return None;
            }
            let bytes: Vec<u8> = arr.iter().map(|v| i(v) as u8).collect();
            Variable::String(Arc::from(String::from_utf8_lossy(&bytes).to_string()))
        }
        "convert.parse_float" => s(&a[0]).parse::<f64>().ok().map_or(Variable::Void, Variable::Float),
        "math.floor" => Variable::Float(f(&a[0]).floor()),
        "math.ceil" => Variable::Float(f(&a[0]).ceil()),
        "math.round" => Variable::Float(f(&a[0]).round()),
        "math.round_ties_even" => Variable::Float(f(&a[0]).round_ties_even()),
        "math.trunc" => Variable::Float(f(&a[0]).trunc()),
        "math.fract" => Variable::Float(f(&a[0]).fract()),
        "math.ln" => Variable::Float(f(&a[0]).ln()),
        "math.log" => Variable::Float(f(&a[0]).log(f(&a[1]))),
        "math.log2" => Variable::Float(f(&a[0]).log2()),
        "math.log10" => Variable::Float(f(&a[0]).log10()),
        "math.sin" => Variable::Float(f(&a[0]).sin()),
        "math.cos" => Variable::Float(f(&a[0]).cos()),
        "math.tan" => Variable::Float(f(&a[0]).tan()),
        "math.asin" => Variable::Float(f(&a[0]).asin()),
        "math.acos" => Variable::Float(f(&a[0]).acos()),
        "math.atan" => Variable::Float(f(&a[0]).atan()),
        "math.atan2" => Variable::Float(f(&a[0]).atan2(f(&a[1]))),
        "math.exp_m1" => Variable::Float(f(&a[0]).exp_m1()),
        "math.ln_1p" => Variable::Float(f(&a[0]).ln_1p()),
        "math.sinh" => Variable::Float(f(&a[0]).sinh()),
        "math.cosh" => Variable::Float(f(&a[0]).cosh()),
        "math.tanh" => Variable::Float(f(&a[0]).tanh()),
        "math.asinh" => Variable::Float(f(&a[0]).asinh()),
        "math.acosh" => Variable::Float(f(&a[0]).acosh()),
        "math.atanh" => Variable::Float(f(&a[0]).atanh()),
        "math.is_normal" => Variable::Bool(f(&a[0]).is_normal()),
        "math.is_subnormal" => Variable::Bool(f(&a[0]).is_subnormal()),
        "convert.to_string" => match &a[0] {
            Variable::Int(x) => Variable::String(Arc::from(x.to_string())),
            Variable::Bool(x) => Variable::String(Arc::from(x.to_string())),
            Variable::String(x) => Variable::String(x.clone()),
            Variable::Void => Variable::String(Arc::from("()")),
            _ => return None,
        },
        _ => return None,
    })
}

fn error_struct() -> Ty {
    let mut m = BTreeMap::new();
    m.insert("error_code".to_string(), Ty::Int);
    m.insert("msg".to_string(), Ty::Str);
    Ty::Struct(m)
}

struct Ctx<'a> {
    rep: &'a mut Report,
    interp: Interpreter<'static>,
}

impl Ctx<'_> {
    /// one host call; returns the value
    fn call(&mut self, path: &str, fun: &Arc<Function>, args: &[Variable], judge_expectation: bool) -> Option<Variable> {
        self.rep.evaluations += 1;
        self.rep.count("calls");
        self.rep.shape("functions_called", path);
        let declared = match Ty::from_real(&fun.as_type()) {
            Ty::Fun(_, r) => *r,
            _ => return None,
        };
        let shown = format!("std.{path}({})", args.iter().map(|a| truncate(&canon(a), 80)).collect::<Vec<_>>().join(", "));
        self.rep.distinct_case(&shown);
        let code = match real::guarded(|| fun.clone().create_call(args.to_vec())) {
            Err(p) => {
                if p.kind == PanicKind::Panic {
                    self.rep.violation(&format!("c18:{path}:create_call-panic:{}", p.site()), &format!("{shown}: create_call panicked: {}", p.short_msg()), "c18", &shown);
                }
                return None;
            }
            Ok(Err(e)) => {
                self.rep.violation(&format!("c18:{path}:admissible-arguments-rejected"), &format!("{shown}: arguments of the declared types are rejected ({})", real::error_variant(&e)), "c18", &shown);
                return None;
            }
            Ok(Ok(c)) => c,
        };
        match real::exec_code(&code, 3_000) {
            Outcome::Value(v) => {
                if let Some(why) = inhabits_why(&v, &declared) {
                    self.rep.violation(&format!("c18:{path}:result-type"), &format!("{shown} returned {} which is not a {}: {why}", truncate(&canon(&v), 200), declared.text()), "c18", &shown);
                } else if !real::guarded(|| v.as_type().matches(&fun.as_type().return_type().unwrap())).unwrap_or(true) {
                    self.rep.violation(&format!("c18:{path}:result-tag"), &format!("{shown} returned {} whose runtime type {} does not match {}", truncate(&canon(&v), 200), Ty::from_real(&v.as_type()).text(), declared.text()), "c18", &shown);
                }
                if judge_expectation {
                    if let Some(e) = expected(path, args) {
                        self.rep.count("calls-with-independent-expectation");
                        if canon(&e) != canon(&v) && advisory(path) {
                            // outside the helper families the property names: noted in the evidence, never a verdict
                            self.rep.count("advisory-float-math-doc-mismatch");
                            self.rep.sample("advisory-mismatch", 6, || Obj::new().s("call", &shown).s("result", &truncate(&canon(&v), 120)).s("host-equivalent", &truncate(&canon(&e), 120)).render());
                        } else if canon(&e) != canon(&v) {
                            self.rep.violation(&format!("c18:{path}:wrong-result"), &format!("{shown} returned {}, documented result {}", truncate(&canon(&v), 200), truncate(&canon(&e), 200)), "c18", &shown);
                        }
                    }
                }
                self.rep.sample(path.split('.').next().unwrap_or(""), 2, || Obj::new().s("call", &shown).s("result", &truncate(&canon(&v), 120)).render());
                Some(v)
            }
            Outcome::Panic(p) if p.kind == PanicKind::Panic => {
                self.rep.violation(&format!("c18:{path}:panic:{}", p.site()), &format!("{shown} panicked at {}: {}", p.site(), p.short_msg()), "c18", &shown);
                None
            }
            Outcome::Panic(_) => {
                self.rep.inconclusive("fuel-or-resource");
                None
            }
            Outcome::ExecErr(k, n) => {
                // library functions are total on their declared domain; the operators module may legitimately
                // surface an error raised by a user iterator, which we do not pass here
                self.rep.violation(&format!("c18:{path}:runtime-error"), &format!("{shown} failed with {}", k.map_or(n.as_str(), |k| k.name())), "c18", &shown);
                None
            }
            Outcome::Rejected(..) => None,
        }
    }

    /// the same call written as SimpleSL text must give the same result
    fn text_route(&mut self, path: &str, args: &[Variable], host: &Variable) {
        fn printable(v: &Variable) -> bool {
            match v {
                Variable::Float(x) => x.is_finite(),
                Variable::Int(x) => *x != i64::MIN,
                Variable::Array(a) => a.iter().all(printable),
                Variable::Tuple(t) => t.iter().all(printable),
                Variable::Function(_) | Variable::Mut(_) | Variable::Struct(_) => false,
                _ => true,
            }
        }
        if !args.iter().all(printable) {
            return;
        }
        let src = format!("std.{path}({})", args.iter().map(|a| format!("{a:?}")).collect::<Vec<_>>().join(", "));
        self.rep.evaluations += 1;
        self.rep.count("text-route-calls");
        match real::parse_exec_in(&self.interp, &src, 3_000).0 {
            Outcome::Value(v) => {
                if canon(&v) != canon(host) {
                    self.rep.violation(&format!("c18:{path}:text-route-differs"), &format!("`{}` gives {} but the host call gives {}", truncate(&src, 200), truncate(&canon(&v), 150), truncate(&canon(host), 150)), "c18", &src);
                }
            }
            Outcome::Panic(p) if p.kind == PanicKind::Panic => {
                self.rep.violation(&format!("c18:{path}:text-route-panic:{}", p.site()), &format!("`{}` panicked: {}", truncate(&src, 200), p.short_msg()), "c18", &src);
            }
            Outcome::Panic(_) => self.rep.inconclusive("fuel-or-resource"),
            other => {
                self.rep.violation(&format!("c18:{path}:text-route:{}", other.tag()), &format!("`{}`: {} although the host call returned {}", truncate(&src, 200), other.tag(), truncate(&canon(host), 100)), "c18", &src);
            }
        }
    }
}

fn fs_scenarios(ctx: &mut Ctx, funcs: &BTreeMap<String, Arc<Function>>, cfg: &Cfg) {
    let root = std::path::PathBuf::from(format!("/verif/target/scratch/c18-{}-{}", std::process::id(), cfg.shard));
    let _ = std::fs::remove_dir_all(&root);
    let _ = std::fs::create_dir_all(&root);
    let p = |name: &str| root.join(name).to_string_lossy().to_string();
    let sv = |x: &str| Variable::String(Arc::from(x));
    let reset = |root: &std::path::Path| {
        let _ = std::fs::remove_dir_all(root);
        let _ = std::fs::create_dir_all(root.join("dir_nonempty/sub"));
        let _ = std::fs::create_dir_all(root.join("dir_empty"));
        let _ = std::fs::write(root.join("file.txt"), "hello");
        let _ = std::fs::write(root.join("dir_nonempty/inner.txt"), "inner");
        let _ = std::fs::write(root.join("bin.dat"), [0xffu8, 0xfe, 0x00]);
    };
    let long = "x".repeat(300);
    // (function, args, must_succeed, effect check)
    type Check = Box<dyn Fn(&std::path::Path, &Variable) -> Option<String>>;
    let exists = |rel: &'static str, want: bool| -> Check { Box::new(move |r: &std::path::Path, _v: &Variable| (r.join(rel).exists() != want).then(|| format!("{rel} should {}exist afterwards", if want { "" } else { "not " }))) };
    let none: fn() -> Check = || Box::new(|_r: &std::path::Path, _v: &Variable| None);
    let mut cases: Vec<(&str, Vec<Variable>, bool, Check)> = vec![
        ("fs.file_read_to_string", vec![sv(&p("file.txt"))], true, Box::new(|_r, v| (canon(v) != "\"hello\"").then(|| format!("content read as {}", canon(v))))),
        ("fs.file_read_to_string", vec![sv(&p("missing.txt"))], false, none()),
        // files whose size as reported by the file system is not the number of bytes a read delivers (procfs reports 0,
        // sysfs a page): the documented result is the contents the operating system delivers
        ("fs.file_read_to_string", vec![sv("/proc/version")], true, Box::new(|_r, v| { let want = std::fs::read_to_string("/proc/version").unwrap_or_default(); (canon(v) != canon(&Variable::String(Arc::from(want.as_str())))).then(|| format!("/proc/version read as {}", truncate(&canon(v), 80))) })),
        ("fs.file_read_to_string", vec![sv("/proc/sys/kernel/ostype")], true, Box::new(|_r, v| { let want = std::fs::read_to_string("/proc/sys/kernel/ostype").unwrap_or_default(); (canon(v) != canon(&Variable::String(Arc::from(want.as_str())))).then(|| format!("/proc/sys/kernel/ostype read as {}", truncate(&canon(v), 80))) })),
        ("fs.file_read_to_string", vec![sv("/proc/self/comm")], true, Box::new(|_r, v| { let want = std::fs::read_to_string("/proc/self/comm").unwrap_or_default(); (canon(v) != canon(&Variable::String(Arc::from(want.as_str())))).then(|| format!("/proc/self/comm read as {}", truncate(&canon(v), 80))) })),
        ("fs.file_read_to_string", vec![sv("/sys/kernel/mm/transparent_hugepage/enabled")], std::fs::read_to_string("/sys/kernel/mm/transparent_hugepage/enabled").is_ok(), Box::new(|_r, v| { match std::fs::read_to_string("/sys/kernel/mm/transparent_hugepage/enabled") { Ok(want) => (canon(v) != canon(&Variable::String(Arc::from(want.as_str())))).then(|| format!("sysfs attribute read as {}", truncate(&canon(v), 80))), Err(_) => None } })),
        ("fs.copy_file", vec![sv("/proc/version"), sv(&p("version_copy.txt"))], true, Box::new(|r, _| (std::fs::read(r.join("version_copy.txt")).ok() != std::fs::read("/proc/version").ok()).then(|| "the copy of /proc/version differs from what a read of it delivers".to_string()))),
        ("fs.file_read_to_string", vec![sv(&p("dir_empty"))], false, none()),
        ("fs.file_read_to_string", vec![sv(&p("bin.dat"))], false, none()),
        ("fs.file_read_to_string", vec![sv(&p("file.txt/under_file"))], false, none()),
        ("fs.file_read_to_string", vec![sv(&p(&long))], false, none()),
        ("fs.file_read_to_string", vec![sv("")], false, none()),
        ("fs.file_read_to_string", vec![sv(&format!("{}\0x", p("file.txt")))], false, none()),
        ("fs.write_to_file", vec![sv(&p("new.txt")), sv("data")], true, Box::new(|r, _| (std::fs::read_to_string(r.join("new.txt")).ok().as_deref() != Some("data")).then(|| "new.txt does not hold the written contents".to_string()))),
        ("fs.write_to_file", vec![sv(&p("file.txt")), sv("")], true, Box::new(|r, _| (std::fs::read_to_string(r.join("file.txt")).ok().as_deref() != Some("")).then(|| "file.txt was not truncated".to_string()))),
        ("fs.write_to_file", vec![sv(&p("dir_empty")), sv("x")], false, none()),
        ("fs.write_to_file", vec![sv(&p("no_parent/new.txt")), sv("x")], false, none()),
        ("fs.write_to_file", vec![sv(&p("file.txt/x")), sv("x")], false, none()),
        ("fs.write_to_file", vec![sv("/proc/self/does_not_exist/x"), sv("x")], false, none()),
        ("fs.write_to_file", vec![sv(&p(&long)), sv("x")], false, none()),
        ("fs.copy_file", vec![sv(&p("file.txt")), sv(&p("copy.txt"))], true, exists("copy.txt", true)),
        ("fs.copy_file", vec![sv(&p("missing.txt")), sv(&p("copy.txt"))], false, exists("copy.txt", false)),
        // source and destination name the same path (spelled alike or not): what the operating system says still decides
        ("fs.copy_file", vec![sv(&p("missing.txt")), sv(&p("missing.txt"))], false, exists("missing.txt", false)),
        ("fs.copy_file", vec![sv(&p("dir_empty")), sv(&p("dir_empty"))], false, exists("dir_empty", true)),
        ("fs.copy_file", vec![sv(&p("dir_nonempty/./missing.txt")), sv(&p("dir_nonempty/missing.txt"))], false, exists("dir_nonempty/missing.txt", false)),
        ("fs.copy_file", vec![sv(&p("no_parent/a.txt")), sv(&p("no_parent/a.txt"))], false, none()),
        ("fs.copy_file", vec![sv(""), sv("")], false, none()),
        ("fs.rename", vec![sv(&p("missing.txt")), sv(&p("missing.txt"))], false, exists("missing.txt", false)),
        ("fs.rename", vec![sv(&p("file.txt")), sv(&p("file.txt"))], true, Box::new(|r, _| (std::fs::read_to_string(r.join("file.txt")).ok().as_deref() != Some("hello")).then(|| "renaming a file onto itself changed it".to_string()))),
        ("fs.rename", vec![sv(&p("no_parent/a")), sv(&p("no_parent/a"))], false, none()),
        ("fs.copy_file", vec![sv(&p("dir_empty")), sv(&p("copy.txt"))], false, none()),
        ("fs.copy_file", vec![sv(&p("file.txt")), sv(&p("dir_empty"))], false, none()),
        ("fs.copy_file", vec![sv(&p("file.txt")), sv(&p("no_parent/copy.txt"))], false, none()),
        ("fs.remove_file", vec![sv(&p("file.txt"))], true, exists("file.txt", false)),
        ("fs.remove_file", vec![sv(&p("missing.txt"))], false, none()),
        ("fs.remove_file", vec![sv(&p("dir_empty"))], false, exists("dir_empty", true)),
        ("fs.remove_dir", vec![sv(&p("dir_empty"))], true, exists("dir_empty", false)),
        ("fs.remove_dir", vec![sv(&p("dir_nonempty"))], false, exists("dir_nonempty", true)),
        ("fs.remove_dir", vec![sv(&p("file.txt"))], false, exists("file.txt", true)),
        ("fs.remove_dir", vec![sv(&p("missing"))], false, none()),
        ("fs.remove_dir_all", vec![sv(&p("dir_nonempty"))], true, exists("dir_nonempty", false)),
        ("fs.remove_dir_all", vec![sv(&p("missing"))], false, none()),
        ("fs.remove_dir_all", vec![sv(&p("file.txt/x"))], false, exists("file.txt", true)),
        ("fs.create_dir", vec![sv(&p("newdir"))], true, exists("newdir", true)),
        ("fs.create_dir", vec![sv(&p("dir_empty"))], false, none()),
        ("fs.create_dir", vec![sv(&p("a/b/c"))], false, exists("a", false)),
        ("fs.create_dir", vec![sv(&p("file.txt/d"))], false, none()),
        ("fs.create_dir_all", vec![sv(&p("a/b/c"))], true, exists("a/b/c", true)),
        ("fs.create_dir_all", vec![sv(&p("dir_empty"))], true, exists("dir_empty", true)),
        ("fs.create_dir_all", vec![sv(&p("file.txt/d/e"))], false, none()),
        ("fs.rename", vec![sv(&p("file.txt")), sv(&p("renamed.txt"))], true, exists("renamed.txt", true)),
        ("fs.rename", vec![sv(&p("missing.txt")), sv(&p("renamed.txt"))], false, exists("renamed.txt", false)),
        ("fs.rename", vec![sv(&p("dir_empty")), sv(&p("dir_nonempty"))], false, exists("dir_empty", true)),
        ("fs.rename", vec![sv(&p("file.txt")), sv(&p("dir_empty"))], false, exists("file.txt", true)),
        ("fs.rename", vec![sv(&p("file.txt")), sv(&p("no_parent/x"))], false, exists("file.txt", true)),
        // an existing target: replaced by a successful rename / copy, left alone by a failing one
        ("fs.rename", vec![sv(&p("file.txt")), sv(&p("bin.dat"))], true, Box::new(|r, _| (std::fs::read(r.join("bin.dat")).ok().as_deref() != Some(b"hello".as_slice()) || r.join("file.txt").exists()).then(|| "bin.dat should now hold file.txt's contents and file.txt be gone".to_string()))),
        ("fs.rename", vec![sv(&p("missing.txt")), sv(&p("file.txt"))], false, none()),
        ("fs.rename", vec![sv(&p("dir_empty")), sv(&p("file.txt"))], false, none()),
        ("fs.rename", vec![sv(&p("dir_nonempty")), sv(&p("file.txt"))], false, none()),
        ("fs.rename", vec![sv(&p("file.txt")), sv(&p("file.txt"))], true, Box::new(|r, _| (std::fs::read_to_string(r.join("file.txt")).ok().as_deref() != Some("hello")).then(|| "renaming a file onto itself changed it".to_string()))),
        ("fs.copy_file", vec![sv(&p("file.txt")), sv(&p("bin.dat"))], true, Box::new(|r, _| (std::fs::read(r.join("bin.dat")).ok().as_deref() != Some(b"hello".as_slice()) || !r.join("file.txt").exists()).then(|| "bin.dat should now hold a copy of file.txt".to_string()))),
        ("fs.copy_file", vec![sv(&p("missing.txt")), sv(&p("file.txt"))], false, none()),
        ("fs.copy_file", vec![sv(&p("bin.dat")), sv(&p("bin_copy.dat"))], true, Box::new(|r, _| (std::fs::read(r.join("bin_copy.dat")).ok().as_deref() != Some([0xffu8, 0xfe, 0x00].as_slice())).then(|| "bin_copy.dat should hold the three bytes of bin.dat".to_string()))),
        ("fs.rename", vec![sv(&p("bin.dat")), sv(&p("bin_moved.dat"))], true, Box::new(|r, _| (std::fs::read(r.join("bin_moved.dat")).ok().as_deref() != Some([0xffu8, 0xfe, 0x00].as_slice())).then(|| "bin_moved.dat should hold the three bytes of bin.dat".to_string()))),
        ("fs.remove_file", vec![sv(&p("bin.dat"))], true, exists("bin.dat", false)),
        ("fs.copy_file", vec![sv(&p("dir_empty")), sv(&p("file.txt"))], false, none()),
        ("fs.create_dir", vec![sv(&p("file.txt"))], false, none()),
        ("fs.create_dir_all", vec![sv(&p("file.txt"))], false, none()),
        ("fs.remove_dir_all", vec![sv(&p("file.txt"))], false, none()),
        ("fs.remove_file", vec![sv(&p("dir_nonempty"))], false, none()),
    ];
    // a target that opens but refuses the data (device full): the refusal must be reported whatever the size of the contents.
    // Only where the host sees the same refusal (the expectation is the operating system's, observed just now).
    if std::fs::write("/dev/full", "x").is_err() {
        for n in [1usize, 100, 8191, 8192, 8193, 70_000] {
            cases.push(("fs.write_to_file", vec![sv("/dev/full"), sv(&"y".repeat(n))], false, none()));
        }
        cases.push(("fs.copy_file", vec![sv(&p("file.txt")), sv("/dev/full")], false, none()));
    }
    if std::fs::write("/dev/null", "x").is_ok() {
        cases.push(("fs.write_to_file", vec![sv("/dev/null"), sv("discarded")], true, none()));
        cases.push(("fs.file_read_to_string", vec![sv("/dev/null")], true, Box::new(|_r, v| (canon(v) != "\"\"").then(|| format!("/dev/null read as {}", canon(v))))));
    }
    // contents around and above the usual buffer sizes arrive whole
    for n in [8191usize, 8192, 8193, 65_536, 300_001] {
        let data: String = (0..n).map(|k| char::from(b'a' + (k % 23) as u8)).collect();
        let want = data.clone();
        cases.push(("fs.write_to_file", vec![sv(&p("big.txt")), sv(&data)], true, Box::new(move |r, _| (std::fs::read_to_string(r.join("big.txt")).ok().as_deref() != Some(want.as_str())).then(|| format!("big.txt does not hold the {} bytes written", want.len())))));
    }
    // the scratch tree as (relative path, contents or "<dir>"), to see that a call reporting failure changed nothing
    fn tree(root: &std::path::Path) -> Vec<(String, Vec<u8>)> {
        fn walk(dir: &std::path::Path, root: &std::path::Path, out: &mut Vec<(String, Vec<u8>)>) {
            let Ok(rd) = std::fs::read_dir(dir) else { return };
            for e in rd.flatten() {
                let path = e.path();
                let rel = path.strip_prefix(root).map(|p| p.to_string_lossy().to_string()).unwrap_or_default();
                if path.is_dir() {
                    out.push((rel, b"<dir>".to_vec()));
                    walk(&path, root, out);
                } else {
                    out.push((rel, std::fs::read(&path).unwrap_or_default()));
                }
            }
        }
        let mut out = Vec::new();
        walk(root, root, &mut out);
        out.sort();
        out
    }
    let err_ty = error_struct();
    for (path, args, must_succeed, effect) in cases {
        let Some(fun) = funcs.get(path) else {
            ctx.rep.notes.push(format!("std.{path} not found"));
            continue;
        };
        reset(&root);
        let before = tree(&root);
        let Some(v) = ctx.call(path, fun, &args, false) else { continue };
        ctx.rep.count("fs-fault-states");
        ctx.rep.shape("fs_scenarios", &format!("{path}:{}", if must_succeed { "success" } else { "failure" }));
        let is_err = inhabits_why(&v, &err_ty).is_none() && matches!(v, Variable::Struct(_));
        let shown = format!("std.{path}({})", args.iter().map(|a| truncate(&canon(a), 60)).collect::<Vec<_>>().join(", "));
        if must_succeed && is_err {
            ctx.rep.violation(&format!("c18:{path}:unexpected-failure"), &format!("{shown} should succeed but returned {}", truncate(&canon(&v), 200)), "c18", &shown);
        } else if !must_succeed && !is_err {
            ctx.rep.violation(&format!("c18:{path}:failure-not-reported"), &format!("{shown}: the operating system refuses this, but the call returned {} instead of struct{{error_code, msg}}", truncate(&canon(&v), 200)), "c18", &shown);
        } else if let Some(why) = effect(&root, &v) {
            ctx.rep.violation(&format!("c18:{path}:file-system-effect"), &format!("{shown}: {why}"), "c18", &shown);
        } else if !must_succeed && tree(&root) != before {
            let after = tree(&root);
            let gone: Vec<&String> = before.iter().filter(|e| !after.contains(e)).map(|(p, _)| p).collect();
            let new: Vec<&String> = after.iter().filter(|e| !before.contains(e)).map(|(p, _)| p).collect();
            ctx.rep.violation(&format!("c18:{path}:failed-call-changed-the-file-system"), &format!("{shown} reported a failure but changed the scratch tree (gone or altered: {gone:?}; new or altered: {new:?})"), "c18", &shown);
        }
    }
    let _ = std::fs::remove_dir_all(&root);
}

fn cgetline_scenarios(ctx: &mut Ctx) {
    let Ok(exe) = std::env::current_exe() else { return };
    // several lines written at once, read by three successive calls
    for (name, input, want) in [
        ("three-lines", b"alpha\nbeta\ngamma\n".to_vec(), "\"alpha\" | \"beta\" | \"gamma\""),
        ("three-lines-last-unterminated", b"alpha\n\ngamma".to_vec(), "\"alpha\" | \"\" | \"gamma\""),
        ("one-line-then-end", b"only\n".to_vec(), "\"only\" | \"\" | \"\""),
        ("long-lines", [vec![b'x'; 9000], vec![b'\n'], vec![b'y'; 9000], vec![b'\n'], vec![b'z'; 10]].concat(), ""),
    ] {
        let child = std::process::Command::new(&exe)
            .args(["C18", "--out", "/dev/null", "--opt", "child=cgetline3"])
            .stdin(std::process::Stdio::piped())
            .stdout(std::process::Stdio::piped())
            .stderr(std::process::Stdio::null())
            .spawn();
        let Ok(mut child) = child else {
            ctx.rep.inconclusive("cgetline-child-failed-to-start");
            continue;
        };
        if let Some(mut stdin) = child.stdin.take() {
            let _ = stdin.write_all(&input);
        }
        let Ok(out) = child.wait_with_output() else { continue };
        let text = String::from_utf8_lossy(&out.stdout).trim().to_string();
        ctx.rep.evaluations += 1;
        ctx.rep.count("cgetline-successive-calls");
        let want = if name == "long-lines" { format!("\"{}\" | \"{}\" | \"{}\"", "x".repeat(9000), "y".repeat(9000), "z".repeat(10)) } else { want.to_string() };
        if text != want {
            ctx.rep.violation(&format!("c18:io.cgetline:successive:{name}"), &format!("three successive cgetline calls on stdin `{name}` returned {}, documented {}", truncate(&text, 200), truncate(&want, 200)), "c18", name);
        }
    }
    let cases: Vec<(&str, Vec<u8>, Option<&str>)> = vec![
        ("empty", vec![], Some("\"\"")),
        ("one-line", b"hello\nworld\n".to_vec(), Some("\"hello\"")),
        ("no-newline", b"abc".to_vec(), Some("\"abc\"")),
        ("crlf", b"abc\r\nx".to_vec(), Some("\"abc\\r\"")),
        ("unicode", "héé 日本\n".as_bytes().to_vec(), Some("\"héé 日本\"")),
        ("invalid-utf8", vec![0x61, 0xff, 0xfe, 0x0a], None),
        ("nul", b"a\0b\n".to_vec(), Some("\"a\\0b\"")),
    ];
    for (name, input, want) in cases {
        let child = std::process::Command::new(&exe)
            .args(["C18", "--out", "/dev/null", "--opt", "child=cgetline"])
            .stdin(std::process::Stdio::piped())
            .stdout(std::process::Stdio::piped())
            .stderr(std::process::Stdio::null())
            .spawn();
        let Ok(mut child) = child else {
            ctx.rep.inconclusive("cgetline-child-failed-to-start");
            continue;
        };
        if let Some(mut stdin) = child.stdin.take() {
            let _ = stdin.write_all(&input);
        }
        let Ok(out) = child.wait_with_output() else { continue };
        let text = String::from_utf8_lossy(&out.stdout).trim().to_string();
        ctx.rep.evaluations += 1;
        ctx.rep.count("cgetline-stdin-states");
        ctx.rep.shape("cgetline_states", name);
        let key = format!("c18:io.cgetline:{name}");
        if !out.status.success() || text.starts_with("PANIC") {
            ctx.rep.violation(&format!("{key}:panic"), &format!("cgetline with stdin `{name}` did not return: {text}"), "c18", name);
        } else {
            match want {
                Some(w) if text != w => ctx.rep.violation(&format!("{key}:wrong-result"), &format!("cgetline with stdin `{name}` returned {text}, documented {w}"), "c18", name),
                None if !text.starts_with("struct{error_code=") => ctx.rep.violation(&format!("{key}:failure-not-reported"), &format!("cgetline on invalid UTF-8 returned {text}"), "c18", name),
                _ => {}
            }
        }
    }
}

pub fn run(cfg: &Cfg, rep: &mut Report) {
    let interp: Interpreter<'static> = Interpreter::with_stdlib();
    if cfg.extra.get("child").map(String::as_str) == Some("cgetline") {
        // child: call std.io.cgetline() once on the inherited stdin and print the canonical result
        let Some(Variable::Struct(stdv)) = interp.get_variable("std").cloned() else { return };
        let Some(Variable::Struct(io)) = stdv.get("io").cloned() else { return };
        let Some(Variable::Function(fun)) = io.get("cgetline").cloned() else { return };
        let r = real::guarded(|| fun.clone().create_call(vec![]).map(|c| c.exec()));
        match r {
            Ok(Ok(Ok(v))) => println!("{}", canon(&v)),
            Ok(other) => println!("ERR {other:?}"),
            Err(p) => println!("PANIC {} {}", p.site(), p.msg),
        }
        return;
    }
    if cfg.extra.get("child").map(String::as_str) == Some("cgetline3") {
        // child: three successive calls on the inherited stdin (all of it may already be waiting in the pipe)
        let Some(Variable::Struct(stdv)) = interp.get_variable("std").cloned() else { return };
        let Some(Variable::Struct(io)) = stdv.get("io").cloned() else { return };
        let Some(Variable::Function(fun)) = io.get("cgetline").cloned() else { return };
        let mut parts = Vec::new();
        for _ in 0..3 {
            match real::guarded(|| fun.clone().create_call(vec![]).map(|c| c.exec())) {
                Ok(Ok(Ok(v))) => parts.push(canon(&v)),
                Ok(other) => parts.push(format!("ERR {other:?}")),
                Err(p) => parts.push(format!("PANIC {} {}", p.site(), p.msg)),
            }
        }
        println!("{}", parts.join(" | "));
        return;
    }
    let deadline = Deadline::new(cfg.budget_s);
    let std_value = interp.get_variable("std").cloned().expect("std");
    let mut funcs = Vec::new();
    let mut consts = Vec::new();
    walk(&std_value, String::new(), &mut funcs, &mut consts);
    rep.add("functions_discovered", if cfg.shard == 0 { funcs.len() as u64 } else { 0 });
    rep.add("constants_discovered", if cfg.shard == 0 { consts.len() as u64 } else { 0 });
    let by_name: BTreeMap<String, Arc<Function>> = funcs.iter().cloned().collect();
    let mut ctx = Ctx { rep, interp };
    let mut rng = cfg.rng(18);
    // constants have their declared types: the type of `std` itself says what each field is
    if cfg.shard == 0 {
        let std_ty = Ty::from_real(&std_value.as_type());
        for (path, v) in &consts {
            ctx.rep.evaluations += 1;
            let mut t = &std_ty;
            let mut ok = true;
            for seg in path.split('.') {
                match t {
                    Ty::Struct(fs) if fs.contains_key(seg) => t = &fs[seg],
                    _ => ok = false,
                }
            }
            if !ok {
                continue;
            }
            ctx.rep.count("constants-judged");
            if let Some(why) = inhabits_why(v, t) {
                ctx.rep.violation(&format!("c18:const:{path}"), &format!("std.{path} = {} is not a {}: {why}", canon(v), t.text()), "c18", path);
            }
            let want = match path.as_str() {
                "math.MIN_INT" => Some(Variable::Int(i64::MIN)),
                "math.MAX_INT" => Some(Variable::Int(i64::MAX)),
                "math.PI" => Some(Variable::Float(3.141592653589793)),
                "math.E" => Some(Variable::Float(2.718281828459045)),
                _ => None,
            };
            if let Some(w) = want {
                if canon(&w) != canon(v) {
                    ctx.rep.violation(&format!("c18:const-value:{path}"), &format!("std.{path} = {}, documented {}", canon(v), canon(&w)), "c18", path);
                }
            }
        }
        fs_scenarios(&mut ctx, &by_name, cfg);
        cgetline_scenarios(&mut ctx);
    }
    let io_fs = |p: &str| p.starts_with("fs.") || p == "io.cgetline";
    let per_fn = if cfg.thorough() { 20000 } else { 1500 };
    for (k, (path, fun)) in funcs.iter().enumerate() {
        if !cfg.owns(k as u64) || io_fs(path) {
            continue;
        }
        let Ty::Fun(ps, _) = Ty::from_real(&fun.as_type()) else { continue };
        // boundary product (capped), then random draws
        let lists0: Vec<Vec<Variable>> = ps.iter().map(|p| boundary(p, &mut rng, false)).collect();
        if lists0.iter().any(Vec::is_empty) {
            ctx.rep.notes.push(format!("no argument values for std.{path}"));
            continue;
        }
        // second pass: the same product over the extended int pool (digit and bit boundaries), boundary part only
        let lists1: Vec<Vec<Variable>> = ps.iter().map(|p| boundary(p, &mut rng, true)).collect();
        let has_int = ps.iter().any(|p| *p == Ty::Int);
        let quiet_io = path.starts_with("io.print");
        for (pass, lists) in [lists0, lists1].into_iter().enumerate() {
        if pass == 1 && !has_int {
            continue;
        }
        let total: usize = lists.iter().map(Vec::len).product::<usize>().max(1);
        let n_calls = if ps.is_empty() { 2 } else if pass == 1 { per_fn * 2 / 3 } else { per_fn };
        for c in 0..n_calls.min(if quiet_io { 60 } else { usize::MAX }) {
            if c % 64 == 0 && deadline.over() {
                break;
            }
            let mut args = Vec::new();
            if pass == 1 && c >= total {
                break;
            }
            if pass == 1 {
                ctx.rep.count("extended-int-pool-calls");
            }
            if pass == 1 || c < total.min(n_calls * 2 / 3) {
                // enumerate the boundary product in mixed-radix order with a stride that covers it evenly
                let span = if pass == 1 { total.min(n_calls) } else { total.min(n_calls * 2 / 3) };
                let mut idx = (c as u128 * total as u128 / span as u128) as usize;
                for l in &lists {
                    args.push(l[idx % l.len()].clone());
                    idx /= l.len();
                }
            } else {
                let mut vg = ValueGen::new(&mut rng);
                for p in &ps {
                    match vg.value(p, 0) {
                        Some(v) => args.push(v),
                        None => break,
                    }
                }
                if args.len() != ps.len() {
                    continue;
                }
            }
            if let Some(v) = ctx.call(path, fun, &args, true) {
                if !quiet_io && c % 3 == 0 {
                    ctx.text_route(path, &args, &v);
                }
            }
        }
        }
        cfg.checkpoint(ctx.rep);
    }
}

/// C02: every pure library function called from program text with the boundary product of its parameter types (both int
/// pools): whatever it returns, an accepted call must not panic
pub fn panic_sweep(cfg: &Cfg, rep: &mut Report) {
    let interp = Interpreter::with_stdlib();
    let Some(std_value) = interp.get_variable("std").cloned() else { return };
    let mut funcs = Vec::new();
    let mut consts = Vec::new();
    walk(&std_value, String::new(), &mut funcs, &mut consts);
    let mut rng = cfg.rng(1802);
    let printable = |v: &Variable| match v {
        Variable::Float(x) => x.is_finite(),
        Variable::Int(x) => *x != i64::MIN,
        Variable::Function(_) | Variable::Mut(_) | Variable::Struct(_) | Variable::Array(_) | Variable::Tuple(_) => false,
        _ => true,
    };
    for (k, (path, fun)) in funcs.iter().enumerate() {
        if !cfg.owns(k as u64) || path.starts_with("fs.") || path.starts_with("io.") {
            continue;
        }
        let Ty::Fun(ps, _) = Ty::from_real(&fun.as_type()) else { continue };
        if ps.is_empty() {
            continue;
        }
        for ext in [false, true] {
            let lists: Vec<Vec<Variable>> = ps.iter().map(|p| boundary(p, &mut rng, ext).into_iter().filter(|v| printable(v)).collect()).collect();
            if lists.iter().any(Vec::is_empty) {
                continue;
            }
            let total: usize = lists.iter().map(Vec::len).product::<usize>().max(1);
            let n = total.min(if cfg.thorough() { 6000 } else { 500 });
            for c in 0..n {
                let mut idx = (c as u128 * total as u128 / n as u128) as usize;
                let mut args = Vec::new();
                for l in &lists {
                    args.push(l[idx % l.len()].clone());
                    idx /= l.len();
                }
                let src = format!("std.{path}({})", args.iter().map(|a| format!("{a:?}")).collect::<Vec<_>>().join(", "));
                rep.evaluations += 1;
                rep.count("stdlib-sweep-calls");
                rep.shape("stdlib_functions_swept", path);
                match real::parse_exec_in(&interp, &src, 3_000).0 {
                    Outcome::Panic(p) if p.kind == PanicKind::Panic => {
                        rep.violation(&format!("c02:stdlib-call-panicked:{path}:{}", p.site()), &format!("`{}` is accepted and panicked: {}", truncate(&src, 200), p.short_msg()), "program-text", &src);
                    }
                    Outcome::Panic(_) => rep.inconclusive("stdlib-sweep:fuel-or-resource"),
                    _ => {}
                }
            }
        }
    }
}

pub fn replay(payload: &str, rep: &mut Report) {
    rep.notes.push(format!("replay of `{}`: the whole library is cheap to re-run, so the full quick workload runs", truncate(payload.trim(), 200)));
    let cfg = Cfg { prop: "C18".into(), tier: "quick".into(), seed: 1, shard: 0, nshards: 1, out: String::new(), replay: None, budget_s: 120.0, extra: Default::default() };
    run(&cfg, rep);
}
