//! C11 value-level family: every iterator operator over explicit element lists (ints incl. wrapping values, floats whose
//! sums round or overflow, strings, bools, mixed values) compared with the fold the documentation gives, computed here
//! directly (left to right, one operation per element, IEEE / wrapping arithmetic). The generated-program monitor of
//! diff.rs decides laziness and exactly-once pulling through effect logs; this family pins the *values* down bit for bit.
use crate::ast::{float_text, int_text, str_text};
use crate::oracle::{Ty, canon, inhabits};
use crate::real::{self, Outcome};
use crate::util::{Cfg, Report, Rng, truncate};
use simplesl::variable::{Type, Variable};
use std::str::FromStr;
use std::sync::Arc;

fn arr(v: Vec<Variable>) -> Variable {
    Variable::from(v)
}
fn tup(v: Vec<Variable>) -> Variable {
    Variable::Tuple(Arc::from(v))
}
fn s(x: &str) -> Variable {
    Variable::String(Arc::from(x))
}

struct Fam<'a> {
    rep: &'a mut Report,
}

impl Fam<'_> {
    /// run `src` (stdlib available) and compare with `want`
    fn judge(&mut self, label: &str, src: &str, want: &Variable) {
        self.rep.evaluations += 1;
        self.rep.count("seqdef-cases");
        self.rep.shape("seqdef_operators", label);
        self.rep.distinct_case(&src);
        let want_c = canon(want);
        let out = real::parse_exec(src, true);
        if let Outcome::Panic(p) = &out {
            if p.kind != real::PanicKind::Panic {
                self.rep.inconclusive("seqdef:resource-or-fuel");
                return;
            }
        }
        let got = match out {
            Outcome::Value(v) => canon(&v),
            other => other.tag(),
        };
        if got != want_c {
            self.rep.violation(
                &format!("c11:sequence-definition:{label}"),
                &format!("`{}` gave {}, the sequence definition gives {}", truncate(src, 400), truncate(&got, 200), truncate(&want_c, 200)),
                "diff",
                &format!("#template {want_c}\n{src}\n"),
            );
        }
    }

    /// the ways an element list reaches the operator (a named self-calling iterator was added in round 11): written in place (the folding pass sees it), as an argument
    /// of a function (run time), through a user-written iterator over a cell (neither an array iterator nor constant)
    fn forms(&mut self, label: &str, ety: &str, lit: &str, tail: &str, want: &Variable) {
        let dflt = match ety {
            "int" => "0",
            "float" => "0.0",
            "string" => "\"\"",
            _ => "false",
        };
        self.judge(label, &format!("{lit}~ {tail}"), want);
        self.judge(label, &format!("f := (a: [{ety}]) -> any {{ return a~ {tail} }}; f({lit})"), want);
        self.judge(
            label,
            &format!(
                "mk := (a: [{ety}]) -> () -> (bool, {ety}) {{ i := mut 0; return () -> (bool, {ety}) {{ if *i < std.len(a) {{ i += 1; return (true, a[*i - 1]) }} return (false, {dflt}) }} }}; f := (a: [{ety}]) -> any {{ return mk(a) {tail} }}; f({lit})"
            ),
            want,
        );
        // a named iterator that calls itself (every other pull is a recursive one), at top level and inside a function
        let rec = format!("i := mut 0; skip := mut false; it := () -> (bool, {ety}) {{ if *i >= std.len(a) {{ return (false, {dflt}) }} if *skip {{ skip = false; i += 1; return (true, a[*i - 1]) }} skip = true; return it() }}; ");
        self.judge(label, &format!("a := {lit}; {rec}it {tail}"), want);
        self.judge(label, &format!("f := (a: [{ety}]) -> any {{ {rec}return it {tail} }}; f({lit})"), want);
    }

    fn ints(&mut self, l: &[i64]) {
        let lit = format!("[{}]", l.iter().map(|v| int_text(*v)).collect::<Vec<_>>().join(", "));
        let iv = |v: i64| Variable::Int(v);
        let all = |f: &dyn Fn(i64) -> i64| l.iter().map(|x| f(*x)).collect::<Vec<_>>();
        let f = |x: i64| x.wrapping_mul(2).wrapping_add(1);
        let p = |x: i64| x % 2 == 0;
        self.forms("collect", "int", &lit, "$]", &arr(l.iter().map(|v| iv(*v)).collect()));
        self.forms("sum:int", "int", &lit, "$+", &iv(l.iter().fold(0i64, |a, x| a.wrapping_add(*x))));
        self.forms("product:int", "int", &lit, "$*", &iv(l.iter().fold(1i64, |a, x| a.wrapping_mul(*x))));
        self.forms("bitand", "int", &lit, "$&", &iv(l.iter().fold(-1i64, |a, x| a & *x)));
        self.forms("bitor", "int", &lit, "$|", &iv(l.iter().fold(0i64, |a, x| a | *x)));
        self.forms("map", "int", &lit, "@ (x: int) -> int { return x * 2 + 1 } $]", &arr(all(&f).into_iter().map(iv).collect()));
        self.forms("filter", "int", &lit, "? (x: int) -> bool { return x % 2 == 0 } $]", &arr(l.iter().filter(|x| p(**x)).map(|x| iv(*x)).collect()));
        if !l.is_empty() {
            // (the parts of an empty partition carry the known untyped-empty-array question; values only for non-empty lists)
            let yes: Vec<Variable> = l.iter().filter(|x| p(**x)).map(|x| iv(*x)).collect();
            let no: Vec<Variable> = l.iter().filter(|x| !p(**x)).map(|x| iv(*x)).collect();
            self.forms("partition", "int", &lit, "\\ (x: int) -> bool { return x % 2 == 0 }", &tup(vec![arr(yes), arr(no)]));
        }
        self.forms("reduce", "int", &lit, "$ 7 (acc: int, x: int) -> int { return acc * 3 + x }", &iv(l.iter().fold(7i64, |a, x| a.wrapping_mul(3).wrapping_add(*x))));
        self.forms("map-filter-sum", "int", &lit, "@ (x: int) -> int { return x * 2 + 1 } ? (x: int) -> bool { return x % 3 != 0 } $+",
            &iv(l.iter().map(|x| f(*x)).filter(|x| x % 3 != 0).fold(0i64, |a, x| a.wrapping_add(x))));
        self.forms("filter-map-product", "int", &lit, "? (x: int) -> bool { return x % 2 == 0 } @ (x: int) -> int { return x * 2 + 1 } $*",
            &iv(l.iter().filter(|x| p(**x)).map(|x| f(*x)).fold(1i64, |a, x| a.wrapping_mul(x))));
        // for visits x1..xn; a~ enumerates a (n + 0 pulls, each a step (true, xi))
        let want = iv(l.iter().fold(7i64, |a, x| a.wrapping_mul(3).wrapping_add(*x)));
        self.judge("for", &format!("c := mut 7; for x in {lit}~ {{ c = *c * 3 + x; }}; *c"), &want);
        self.judge("for", &format!("f := (a: [int]) -> int {{ c := mut 7; for x in a~ {{ c = *c * 3 + x; }}; return *c }}; f({lit})"), &want);
        if !l.is_empty() && l.len() <= 6 {
            let pulls = (0..l.len()).map(|_| "it()").collect::<Vec<_>>().join(", ");
            let want = if l.len() == 1 { tup(vec![Variable::Bool(true), iv(l[0])]) } else { tup(l.iter().map(|x| tup(vec![Variable::Bool(true), iv(*x)])).collect()) };
            let body = if l.len() == 1 { "it()".to_string() } else { format!("({pulls})") };
            self.judge("enumerate", &format!("it := {lit}~; {body}"), &want);
            self.judge("enumerate", &format!("f := (a: [int]) -> any {{ it := a~; return {body} }}; f({lit})"), &want);
        }
    }

    fn floats(&mut self, l: &[f64]) {
        if l.is_empty() {
            return;
        }
        let lit = format!("[{}]", l.iter().map(|v| float_text(*v)).collect::<Vec<_>>().join(", "));
        let fv = |v: f64| Variable::Float(v);
        self.forms("collect", "float", &lit, "$]", &arr(l.iter().map(|v| fv(*v)).collect()));
        self.forms("sum:float", "float", &lit, "$+", &fv(l.iter().fold(0.0f64, |a, x| a + *x)));
        self.forms("product:float", "float", &lit, "$*", &fv(l.iter().fold(1.0f64, |a, x| a * *x)));
        self.forms("map", "float", &lit, "@ (x: float) -> float { return x * 0.5 + 0.1 } $]", &arr(l.iter().map(|x| fv(*x * 0.5 + 0.1)).collect()));
        self.forms("filter", "float", &lit, "? (x: float) -> bool { return x > 0.5 } $]", &arr(l.iter().filter(|x| **x > 0.5).map(|x| fv(*x)).collect()));
        self.forms("reduce", "float", &lit, "$ 0.25 (acc: float, x: float) -> float { return acc / 2.0 + x }", &fv(l.iter().fold(0.25f64, |a, x| a / 2.0 + *x)));
        self.forms("map-sum", "float", &lit, "@ (x: float) -> float { return x * 0.5 + 0.1 } $+", &fv(l.iter().map(|x| *x * 0.5 + 0.1).fold(0.0f64, |a, x| a + x)));
        let want = fv(l.iter().fold(0.0f64, |a, x| a + *x));
        self.judge("for", &format!("c := mut 0.0; for x in {lit}~ {{ c += x; }}; *c"), &want);
    }

    fn strings(&mut self, l: &[&str]) {
        if l.is_empty() {
            return;
        }
        let lit = format!("[{}]", l.iter().map(|v| str_text(v)).collect::<Vec<_>>().join(", "));
        self.forms("collect", "string", &lit, "$]", &arr(l.iter().map(|v| s(v)).collect()));
        self.forms("sum:string", "string", &lit, "$+", &s(&l.concat()));
        self.forms("map", "string", &lit, "@ (x: string) -> string { return x + \"!\" } $]", &arr(l.iter().map(|x| s(&format!("{x}!"))).collect()));
        self.forms("filter", "string", &lit, "? (x: string) -> bool { return std.len(x) > 1 } $]", &arr(l.iter().filter(|x| x.chars().count() > 1).map(|x| s(x)).collect()));
        self.forms("reduce", "string", &lit, "$ \"<\" (acc: string, x: string) -> string { return acc + x + \"|\" }", &s(&l.iter().fold("<".to_string(), |a, x| format!("{a}{x}|"))));
        self.forms("map-sum", "string", &lit, "@ (x: string) -> string { return x + \"!\" } $+", &s(&l.iter().map(|x| format!("{x}!")).collect::<String>()));
    }

    fn bools(&mut self, l: &[bool]) {
        let lit = format!("[{}]", l.iter().map(|v| v.to_string()).collect::<Vec<_>>().join(", "));
        self.forms("all", "bool", &lit, "$&&", &Variable::Bool(l.iter().all(|x| *x)));
        self.forms("any", "bool", &lit, "$||", &Variable::Bool(l.iter().any(|x| *x)));
        if !l.is_empty() {
            self.forms("map", "bool", &lit, "@ (x: bool) -> bool { return !x } $]", &arr(l.iter().map(|x| Variable::Bool(!*x)).collect()));
            self.forms("map-all", "bool", &lit, "@ (x: bool) -> bool { return !x } $&&", &Variable::Bool(l.iter().all(|x| !*x)));
        }
    }

    /// iterator operators running *inside* the function of another operator (a mapper that collects, a predicate that
    /// folds, a source that collects on every pull): the inner run must not disturb the outer one
    fn nested(&mut self) {
        let rows = "[[1, 2], [3, 4], [5]]";
        let cases: [(&str, &str, &str); 16] = [
            ("collect-in-map", "ROWS~ @ (r: [int]) -> [int] { return r~ @ (x: int) -> int { return x * 10 } $] } $]", "[[10, 20], [30, 40], [50]]"),
            ("sum-in-map", "ROWS~ @ (r: [int]) -> int { return r~ $+ } $]", "[3, 7, 5]"),
            ("product-in-map", "ROWS~ @ (r: [int]) -> int { return r~ $* } $]", "[2, 12, 5]"),
            ("reduce-in-map", "ROWS~ @ (r: [int]) -> int { return r~ $ 100 (a: int, x: int) -> int { return a - x } } $]", "[97, 93, 95]"),
            ("collect-in-filter", "ROWS~ ? (r: [int]) -> bool { return std.len(r~ ? (x: int) -> bool { return x > 2 } $]) > 0 } $]", "[[3, 4], [5]]"),
            ("all-in-filter", "ROWS~ ? (r: [int]) -> bool { return r~ @ (x: int) -> bool { return x < 5 } $&& } $]", "[[1, 2], [3, 4]]"),
            ("any-in-filter", "ROWS~ ? (r: [int]) -> bool { return r~ @ (x: int) -> bool { return x == 4 } $|| } $]", "[[3, 4]]"),
            ("collect-in-reduce", "ROWS~ $ [0] (acc: [int], r: [int]) -> [int] { return acc + (r~ @ (x: int) -> int { return x + 1 } $]) }", "[0, 2, 3, 4, 5, 6]"),
            ("collect-in-partition", "ROWS~ \\ (r: [int]) -> bool { return std.len(r~ $]) == 2 }", "([[1, 2], [3, 4]], [[5]])"),
            ("bitor-in-map", "ROWS~ @ (r: [int]) -> int { return r~ $| } $]", "[3, 7, 5]"),
            ("bitand-in-map", "ROWS~ @ (r: [int]) -> int { return r~ $& } $]", "[0, 0, 5]"),
            ("type-filter-in-map", "[[1, \"a\"], [\"b\", 2, 3]]~ @ (r: [int|string]) -> [int] { return r~ ? int $] } $]", "[[1], [2, 3]]"),
            ("collect-in-source", "src := (a: [int]) -> () -> (bool, int) { i := mut 0; return () -> (bool, int) { seen := a~ $]; if *i < std.len(seen) { i += 1; return (true, seen[*i - 1] * seen[*i - 1]) } return (false, 0) } }; src([1, 2, 3, 4]) $]", "[1, 4, 9, 16]"),
            ("for-in-map", "ROWS~ @ (r: [int]) -> int { c := mut 0; for x in r~ { c += x; } return *c } $]", "[3, 7, 5]"),
            ("collect-of-collect", "(ROWS~ @ (r: [int]) -> [int] { return r~ $] } $])~ @ (r: [int]) -> int { return std.len(r~ $]) } $]", "[2, 2, 1]"),
            ("two-levels", "[ROWS, ROWS]~ @ (m: [[int]]) -> [int] { return m~ @ (r: [int]) -> int { return r~ $+ } $] } $]", "[[3, 7, 5], [3, 7, 5]]"),
        ];
        for (label, tail, want) in cases {
            for (form, src) in [
                ("literal", tail.replace("ROWS", rows)),
                ("run-time", format!("f := (rows: [[int]]) -> any {{ return {} }}; f({rows})", tail.replace("ROWS", "rows"))),
            ] {
                if form == "run-time" && tail.contains(":= (a") {
                    continue;
                }
                self.rep.evaluations += 1;
                self.rep.count("seqdef-nested-cases");
                self.rep.shape("seqdef_operators", &format!("nested:{label}"));
                let got = match real::parse_exec(&src, true) {
                    Outcome::Value(v) => canon(&v),
                    other => other.tag(),
                };
                if got != want {
                    self.rep.violation(&format!("c11:sequence-definition:nested:{label}"), &format!("`{}` ({form}) gave {}, the sequence definitions give {want}", truncate(&src, 400), truncate(&got, 200)), "diff", &format!("#template {want}\n{src}\n"));
                }
            }
        }
    }

    /// `it ? T` over sources of a *declared* element type E (not only `any`): the selection is exactly the elements whose
    /// value belongs to T (harness membership on the actual contents), whatever E and T have to do with each other
    fn typed_filters(&mut self, cfg: &Cfg) {
        for (idx, case) in crate::optyping::typed_filter_cases().iter().enumerate() {
            if !cfg.owns(idx as u64) || !case.comparable {
                continue;
            }
            let Ok(t_real) = Type::from_str(&case.filter) else { continue };
            let t = Ty::from_real(&t_real);
            let mut selected = Vec::new();
            let mut ok = true;
            for e in &case.elements {
                match real::parse_exec(e, false) {
                    Outcome::Value(v) => {
                        if inhabits(&v, &t) {
                            selected.push(e.clone());
                        }
                    }
                    _ => ok = false,
                }
            }
            if !ok {
                self.rep.inconclusive("typed-filter-element-not-evaluated");
                continue;
            }
            let want = match real::parse_exec(&format!("[{}]", selected.join(", ")), false) {
                Outcome::Value(v) => v,
                _ => {
                    self.rep.inconclusive("typed-filter-expectation-not-evaluated");
                    continue;
                }
            };
            for prog in &case.collect_programs {
                // a refusal is not judged here (C11 is about what the operator yields)
                if matches!(real::parse_exec(prog, true), Outcome::Rejected(..)) {
                    self.rep.count("typed-filter-rejected");
                    continue;
                }
                self.rep.count("typed-filter-judged");
                self.judge("type-filter:typed-source", prog, &want);
            }
        }
    }
}

pub fn run(cfg: &Cfg, rep: &mut Report) {
    let mut fam = Fam { rep };
    let mut rng: Rng = cfg.rng(1100);
    let mut cell = 0u64;
    let mut own = |cell: &mut u64| {
        *cell += 1;
        cfg.owns(*cell)
    };
    let int_lists: Vec<Vec<i64>> = vec![
        vec![], vec![5], vec![1, 2, 3], vec![i64::MAX, 1], vec![i64::MIN, -1], vec![-1, 0, 7, 7], vec![6, 3, 12, 9], vec![2; 70], vec![3; 45],
        vec![0, 0], vec![-1], vec![i64::MIN, i64::MIN], vec![4, -6, 8, -10, 12], vec![1, 1, 2, 3, 5, 8, 13, 21], vec![255, 15, 60],
        // long enough for anything that switches algorithm with the size (sorting, chunking, buffering)
        (0..33).collect(), (0..40).map(|i| (i * 7) % 11).collect(), (0..64).map(|i| i * i - 50).collect(), (0..100).map(|i| (i * 37) % 101 - 50).collect(), (0..257).map(|i| i % 5).collect(),
    ];
    for l in &int_lists {
        if own(&mut cell) {
            fam.ints(l);
        }
    }
    let float_lists: Vec<Vec<f64>> = vec![
        vec![0.1, 0.2, 0.3], vec![1e16, 1.0, 1.0, 1.0, 1.0], vec![1e308, 1e308, 1.0], vec![1e308, 1e308, -1e308], vec![0.5], vec![-0.0], vec![-0.0, -0.0],
        vec![3.0, 1e-17, 1e-17, 1e-17], vec![1.0, 1e100, 1.0, -1e100], vec![f64::MAX, f64::MAX], vec![5e-324, 5e-324], vec![f64::NAN, 1.0], vec![0.1; 10],
        vec![1e-320, 1e-320, 1.0, -1.0], vec![2.5, -2.5, 1e-300], vec![0.7, 0.1, 0.2, 0.3, 0.4, 0.5, 0.6], vec![f64::INFINITY, 1.0], vec![f64::INFINITY, f64::NEG_INFINITY],
        vec![1.1, 2.2, 3.3, 4.4], vec![1e15, 0.3, -1e15, 0.3],
    ];
    for l in &float_lists {
        if own(&mut cell) {
            fam.floats(l);
        }
    }
    for l in [vec!["a", "b", "c"], vec![""], vec!["é", "日本"], vec!["ab", "", "cde", "f"], vec!["x"], vec!["🦀", "a🦀"]] {
        if own(&mut cell) {
            fam.strings(&l);
        }
    }
    for n in 0..4usize {
        for bits in 0..(1u32 << n) {
            if own(&mut cell) {
                let l: Vec<bool> = (0..n).map(|i| bits >> i & 1 == 1).collect();
                fam.bools(&l);
            }
        }
    }
    // seeded random lists
    for _ in 0..cfg.per_shard(12, 400) {
        let n = 1 + rng.below(8) as usize;
        if rng.chance(1, 2) {
            let l: Vec<i64> = (0..n).map(|_| if rng.chance(1, 4) { rng.int() } else { rng.range(-9, 9) }).collect();
            fam.ints(&l);
        } else {
            let l: Vec<f64> = (0..n)
                .map(|_| {
                    let m = rng.range(-999, 999) as f64 / 100.0;
                    let e = *rng.pick(&[0i32, 0, 0, 1, -1, 15, 16, -16, 300, -300]);
                    m * 10f64.powi(e)
                })
                .collect();
            fam.floats(&l);
        }
    }
    if cfg.shard == 0 {
        fam.nested();
    }
    fam.typed_filters(cfg);
}
