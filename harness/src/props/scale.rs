//! Scale family (C07, C12): every N-ary construct at sizes around the thresholds implementations like to special-case
//! (1, 2, 3, 7..9, 15..17, 31..33, 63..65, 127..129, 255..257, 1000), with effectful parts that log their evaluation and
//! values given in closed form: whatever the size, parts are evaluated left to right, each exactly once, and the construct
//! denotes what the small cases denote.
use crate::oracle::canon;
use crate::real::{self, Outcome};
use crate::util::{Cfg, Report, truncate};

const SIZES: [usize; 22] = [1, 2, 3, 7, 8, 9, 15, 16, 17, 31, 32, 33, 63, 64, 65, 127, 128, 129, 255, 256, 257, 1000];
const PRE: &str = "lg := mut [int] []; t := (k: int) -> int { lg += [k]; return k }; tb := (k: int, v: bool) -> bool { lg += [k]; return v }; hi := (v: int) -> int { return v }; ";

fn seq(n: usize) -> String {
    format!("[{}]", (1..=n).map(|k| k.to_string()).collect::<Vec<_>>().join(", "))
}

pub fn run(cfg: &Cfg, rep: &mut Report, prop: &str) {
    let mut idx = 0u64;
    for n in SIZES {
        let sum = (n * (n + 1) / 2) as i64;
        let list = |f: &dyn Fn(usize) -> String, sep: &str| (1..=n).map(f).collect::<Vec<_>>().join(sep);
        let log = seq(n);
        let mut cases: Vec<(&str, String, String)> = vec![
            ("array-literal", format!("{PRE}a := [{}]; (std.len(a), a~ $+, a[0], a[{}], *lg)", list(&|k| format!("t({k})"), ", "), n - 1), format!("({n}, {sum}, 1, {n}, {log})")),
            ("array-literal-constant", format!("a := [{}]; (std.len(a), a~ $+, a[{}], a[-1])", list(&|k| k.to_string(), ", "), n / 2), format!("({n}, {sum}, {}, {n})", n / 2 + 1)),
            ("sum-chain", format!("{PRE}r := {}; (r, *lg)", list(&|k| format!("t({k})"), " + ")), format!("({sum}, {log})")),
            ("sum-chain-constant", format!("r := {}; r", list(&|k| k.to_string(), " + ")), format!("{sum}")),
            ("and-chain", format!("{PRE}r := {}; (r, *lg)", list(&|k| format!("tb({k}, true)"), " && ")), format!("(true, {log})")),
            ("or-chain", format!("{PRE}r := {}; (r, *lg)", list(&|k| format!("tb({k}, false)"), " || ")), format!("(false, {log})")),
            ("and-chain-stops", format!("{PRE}r := {}; (r, *lg)", list(&|k| format!("tb({k}, {})", k != (n + 1) / 2), " && ")), format!("(false, {})", seq((n + 1) / 2))),
            ("concat-chain", format!("{PRE}a := {}; (std.len(a), a[{}], *lg)", list(&|k| format!("[t({k})]"), " + "), n - 1), format!("({n}, {n}, {log})")),
            ("statements", format!("{PRE}v0 := 0; {} (v{n}, *lg)", list(&|k| format!("v{k} := v{} + t({k});", k - 1), " ")), format!("({sum}, {log})")),
            ("captured-locals", format!("{PRE}{} f := () -> int {{ return {} }}; f()", list(&|k| format!("v{k} := hi({k});"), " "), list(&|k| format!("v{k}"), " + ")), format!("{sum}")),
            ("match-value-arms", format!("f := (x: int) -> int {{ return match x {{ {} => 0, }} }}; (f(1), f({}), f({n}), f({}))", list(&|k| format!("{k} => {},", k * 10), " "), (n + 1) / 2, n + 1), format!("(10, {}, {}, 0)", (n + 1) / 2 * 10, n * 10)),
            ("match-value-arms-constant-scrutinee", format!("x := {n}; r := match x {{ {} => 0, }}; r", list(&|k| format!("{k} => {},", k * 10), " ")), format!("{}", n * 10)),
            ("match-many-candidates", format!("{PRE}f := (x: int) -> int {{ return match x {{ {} => 1, => 0, }} }}; r := (f({n}), f(0)); (r, std.len(*lg))", list(&|k| format!("t({k})"), ", ")), format!("((1, 0), {})", 2 * n)),
            ("repeat", format!("{PRE}a := [t(7); {n}]; (std.len(a), a[{}], a~ $+, *lg)", n - 1), format!("({n}, 7, {}, [7])", 7 * n)),
            ("for-loop", format!("c := mut 0; out := mut [int] []; for x in {}~ {{ c += x; out += [x]; }}; (*c, std.len(*out), *out == {})", seq(n), seq(n)), format!("({sum}, {n}, true)")),
            ("while-loop", format!("i := mut 0; s := mut 0; while *i < {n} {{ i += 1; s += *i; }}; (*i, *s)"), format!("({n}, {sum})")),
            ("map-filter-collect", format!("{PRE}a := {}~ @ (x: int) -> int {{ return t(x) * 2 }} ? (x: int) -> bool {{ return x % 4 == 0 }} $]; (std.len(a), std.len(*lg), *lg == {})", seq(n), seq(n)), format!("({}, {n}, true)", n / 2)),
            ("partition", format!("p := {}~ \\ (x: int) -> bool {{ return x % 3 == 0 }}; (std.len(p.0), std.len(p.1), p.0 == ({}~ ? (x: int) -> bool {{ return x % 3 == 0 }} $]), p.1 == ({}~ ? (x: int) -> bool {{ return x % 3 != 0 }} $]))", seq(n), seq(n), seq(n)), format!("({}, {}, true, true)", n / 3, n - n / 3)),
            ("string", format!("s := \"{}\"; (std.len(s), s[{}], std.len(s[1:]), s[-1])", "ab".repeat(n), 2 * n - 1), format!("({}, \"b\", {}, \"b\")", 2 * n, 2 * n - 1)),
            ("cell-appends", format!("{PRE}c := mut [int] []; {} (std.len(*c), *c == *lg)", list(&|k| format!("c += [t({k})];"), " ")), format!("({n}, true)")),
        ];
        if n >= 2 {
            cases.push(("tuple-literal", format!("{PRE}a := ({}); (a.0, a.{}, *lg)", list(&|k| format!("t({k})"), ", "), n - 1), format!("(1, {n}, {log})")));
        }
        if n <= 257 {
            cases.push(("struct-literal", format!("{PRE}s := struct{{{}}}; (s.f1, s.f{n}, *lg)", list(&|k| format!("f{k} := t({k})"), ", ")), format!("(1, {n}, {log})")));
            cases.push(("parameters", format!("{PRE}f := ({}) -> int {{ return {} }}; r := f({}); (r, *lg)", list(&|k| format!("p{k}: int"), ", "), list(&|k| format!("p{k}"), " + "), list(&|k| format!("t({k})"), ", ")), format!("({sum}, {log})")));
            cases.push(("union-type", format!("f := (x: {}) -> int {{ return 1 }}; (f(1), f(struct{{f{n} := 2}}))", {
                let mut ts = vec!["int".to_string()];
                for k in 1..=n {
                    ts.push(format!("struct{{f{k}: int}}"));
                }
                ts.join("|")
            }), "(1, 1)".to_string()));
        }
        // (nesting: this parser backtracks exponentially in the depth, so nested forms stay small)
        if n <= 9 {
            cases.push(("nested-blocks", format!("{PRE}r := {}t(5){}; (r, *lg)", "{ ".repeat(n), " }".repeat(n)), "(5, [5])".to_string()));
            cases.push(("nested-ifs", format!("{PRE}r := {}t(5){}; (r, *lg)", "if tb(1, true) { ".repeat(n), " } else { 0 }".repeat(n)), format!("(5, [{}5])", "1, ".repeat(n))));
            cases.push(("nested-calls", format!("f := (x: int) -> int {{ return x + 1 }}; {}0{}", "f(".repeat(n), ")".repeat(n)), format!("{n}")));
            cases.push(("nested-closures", format!("f0 := (x: int) -> int {{ return x }}; {} f{n}(0)", list(&|k| format!("f{k} := (x: int) -> int {{ return f{}(x) + 1 }};", k - 1), " ")), format!("{n}")));
        }
        for (label, src, want) in cases {
            idx += 1;
            if !cfg.owns(idx) {
                continue;
            }
            rep.evaluations += 1;
            rep.count("scale-cases");
            rep.shape("scale_family", &format!("{label}:{}", if n <= 3 { "1-3" } else if n <= 17 { "7-17" } else if n <= 65 { "31-65" } else if n <= 257 { "127-257" } else { "1000" }));
            let out = real::parse_exec(&src, true);
            if let Outcome::Panic(p) = &out {
                if p.kind != real::PanicKind::Panic {
                    rep.inconclusive("scale:resource-or-fuel");
                    continue;
                }
            }
            let got = match &out {
                Outcome::Value(v) => canon(v),
                other => other.tag(),
            };
            if want == "<any>" && matches!(out, Outcome::Value(_) | Outcome::Rejected(..)) {
                continue;
            }
            if got != want {
                rep.violation(
                    &format!("{}:scale:{label}", prop.to_lowercase()),
                    &format!("size {n}: `{}` gave {}, expected {}", truncate(&src, 300), truncate(&got, 160), truncate(&want, 160)),
                    "diff",
                    &format!("#template {want}\n{src}\n"),
                );
            }
        }
    }
}
