//! C16 thread safety: schedule stress monitor. Scenarios run in child processes (so a deadlock can
//! be inspected with gdb and killed); each child runs T threads over shared Code / Function values
//! with and without a shared cell and checks per-operation histories.
use crate::oracle::canon;
use crate::props::c08::{Exp, int_oracle};
use crate::real::{self, Outcome};
use crate::util::{Cfg, Deadline, Obj, Report, Rng, truncate};
use simplesl::variable::{Mut, Type, Variable};
use simplesl::{Code, Interpreter, function::Function, verif};
use std::sync::{Arc, Barrier, RwLock};

/// (operator, start value, operand for step k of thread t, N steps bound)
#[derive(Clone, Copy)]
struct OpSpec {
    op: &'static str,
    start: i64,
    max_total: usize,
}

const OPS: [OpSpec; 12] = [
    OpSpec { op: "+=", start: 5, max_total: 100_000 },
    OpSpec { op: "-=", start: -7, max_total: 100_000 },
    OpSpec { op: "*=", start: 1, max_total: 100_000 },
    OpSpec { op: "^=", start: 0, max_total: 60 },
    OpSpec { op: "|=", start: 0, max_total: 60 },
    OpSpec { op: "&=", start: -1, max_total: 60 },
    OpSpec { op: "<<=", start: 1, max_total: 62 },
    OpSpec { op: ">>=", start: 1 << 62, max_total: 62 },
    OpSpec { op: "/=", start: 4052555153018976267, max_total: 39 },
    OpSpec { op: "**=", start: 3, max_total: 100_000 },
    OpSpec { op: "%=", start: 1_000_000_007, max_total: 100_000 },
    OpSpec { op: "=", start: 0, max_total: 100_000 },
];

fn operand(spec: &OpSpec, global_index: usize) -> i64 {
    match spec.op {
        "+=" | "-=" => 1,
        "*=" | "**=" | "/=" => 3,
        "^=" | "|=" => 1 << global_index,
        "&=" => !(1 << global_index),
        "<<=" | ">>=" => 1,
        "%=" => 1_000_003,
        _ => 1000 + global_index as i64,
    }
}

/// the function every thread runs: applies `ops` (one per element of the argument array) to the shared cell
/// and returns the values the assignments yielded
fn worker_source(op: &str) -> String {
    format!(
        "(c: mut int, xs: [int]) -> [int] {{ out := mut [int] []; for x in xs~ {{ out += [c {op} x]; }} return *out }}"
    )
}

fn parse_function(src: &str) -> Option<Arc<Function>> {
    match real::parse_exec(src, true) {
        Outcome::Value(Variable::Function(f)) => Some(f),
        _ => None,
    }
}

fn apply(op: &str, cur: i64, x: i64) -> i64 {
    if op == "=" {
        return x;
    }
    match int_oracle(&op[..op.len() - 1], cur, x) {
        Exp::Int(v) => v,
        _ => cur,
    }
}

/// shared-cell scenario: returns Err(description) on a violation
fn shared_cell(spec: &OpSpec, threads: usize, per_thread: usize, seed: u64, yield_every: u64) -> Result<(u64, String), String> {
    let per_thread = per_thread.min(spec.max_total / threads).max(1);
    let total = threads * per_thread;
    let f = parse_function(&worker_source(spec.op)).ok_or("worker function rejected")?;
    let cell = Arc::new(Mut { var_type: Type::Int, variable: RwLock::new(Variable::Int(spec.start)) });
    let barrier = Arc::new(Barrier::new(threads));
    let mut handles = Vec::new();
    for t in 0..threads {
        let (f, cell, barrier) = (f.clone(), cell.clone(), barrier.clone());
        let xs: Vec<Variable> = (0..per_thread).map(|k| Variable::Int(operand(spec, t * per_thread + k))).collect();
        handles.push(std::thread::Builder::new().stack_size(64 << 20).spawn(move || {
            verif::set_yield_every(if yield_every == 0 { 0 } else { yield_every + (t as u64 % 3) });
            let _ = seed;
            let code = f.create_call(vec![Variable::Mut(cell), Variable::from(xs)]).map_err(|e| format!("create_call: {e}"))?;
            barrier.wait();
            let r = real::guarded(|| code.exec());
            match r {
                Ok(Ok(Variable::Array(a))) => Ok(a.iter().filter_map(|v| v.as_int().copied()).collect::<Vec<i64>>()),
                Ok(Ok(other)) => Err(format!("worker returned {}", canon(&other))),
                Ok(Err(e)) => Err(format!("worker failed with {e:?}")),
                Err(p) => Err(format!("worker panicked at {}: {}", p.site(), p.short_msg())),
            }
        }).map_err(|e| format!("spawn: {e}"))?);
    }
    let mut yielded: Vec<i64> = Vec::new();
    for h in handles {
        match h.join() {
            Ok(Ok(v)) => yielded.extend(v),
            Ok(Err(e)) => return Err(e),
            Err(_) => return Err("worker thread died".into()),
        }
    }
    let final_value = match cell.variable.read() {
        Ok(g) => g.as_int().copied().unwrap_or(0),
        Err(_) => return Err("the cell's lock is poisoned".into()),
    };
    if yielded.len() != total {
        return Err(format!("{} yielded values for {total} updates", yielded.len()));
    }
    // expected: the sequential chain (all these updates commute, so every serial order visits the same values)
    let desc = format!("{threads} threads x {per_thread} `c {} x`", spec.op);
    match spec.op {
        "=" => {
            let assigned: Vec<i64> = (0..total).map(|g| operand(spec, g)).collect();
            if !assigned.contains(&final_value) {
                return Err(format!("{desc}: final content {final_value} was never assigned"));
            }
            let mut y = yielded.clone();
            y.sort();
            let mut a = assigned.clone();
            a.sort();
            if y != a {
                return Err(format!("{desc}: the assignments did not yield exactly the assigned values"));
            }
        }
        "%=" => {
            let want = apply(spec.op, spec.start, operand(spec, 0));
            if final_value != want || yielded.iter().any(|v| *v != want) {
                return Err(format!("{desc}: expected every update to yield {want}, final {final_value}"));
            }
        }
        "^=" => {
            // not monotone: judge the final value and that all yielded values are distinct
            let mut want = spec.start;
            for g in 0..total {
                want = apply(spec.op, want, operand(spec, g));
            }
            let mut y = yielded.clone();
            y.sort();
            y.dedup();
            if final_value != want {
                return Err(format!("{desc}: final content {final_value}, expected {want} (an update was lost)"));
            }
            if y.len() != total {
                return Err(format!("{desc}: two updates yielded the same value (an update was not atomic)"));
            }
        }
        _ => {
            let mut chain = Vec::with_capacity(total);
            let mut cur = spec.start;
            for g in 0..total {
                // operands are equal per step for the chain operators, or commute for the bit operators
                cur = apply(spec.op, cur, operand(spec, g));
                chain.push(cur);
            }
            let want_final = cur;
            if final_value != want_final {
                return Err(format!("{desc}: final content {final_value}, expected {want_final} (an update was lost)"));
            }
            if matches!(spec.op, "|=" | "&=") {
                // each update sets / clears its own bit: yielded popcounts must be all different
                let mut pc: Vec<u32> = yielded.iter().map(|v| v.count_ones()).collect();
                pc.sort();
                pc.dedup();
                if pc.len() != total {
                    return Err(format!("{desc}: two updates observed the same content (an update was not atomic)"));
                }
            } else {
                let mut y = yielded.clone();
                y.sort();
                chain.sort();
                if y != chain {
                    return Err(format!("{desc}: the multiset of yielded values is not the sequential chain (an update was not atomic)"));
                }
            }
        }
    }
    Ok((total as u64, format!("{desc}: final {final_value}")))
}

const ISOLATED: &[&str] = &[
    "(n: int) -> int { s := mut 0; i := mut 0; while *i < n { i += 1; s += *i * *i; } return *s }",
    "(n: int) -> [int] { return [n, n + 1, n + 2]~ @ (x: int) -> int { return x * x } ? (x: int) -> bool { return x % 2 == 0 } $] }",
    "(n: int) -> int { f := (k: int) -> int { if k <= 1 { return 1 } return k * f(k - 1) }; return f(n % 12) }",
    "(n: int) -> string { return std.convert.to_string([n, n * 2]) + std.string.to_uppercase(\"ab\") }",
    "(n: int) -> int { return [1, \"a\", n, 2.5]~ ? int $+ }",
    "(n: int) -> (int, [int]) { p := [n, 1, 2, 3]~ \\ (x: int) -> bool { return x > 1 }; return (std.len(p.0), p.1) }",
    "(n: int) -> int { u := mut int|string n; if v: int = *u { u = \"s\"; return v + 1 } return 0 }",
    "(n: int) -> int { return [n, 2, 3]~ $ 0 (a: int, x: int) -> int { return a * 31 + x } }",
    "(n: int) -> bool { return [n > 0, true]~ $&& || [false]~ $|| }",
    "(n: int) -> int { m := mod { a := n; f := (x: int) -> int { return x + a } }; return m.f(1) + [n, n]~ $& + [n, 1]~ $| + [n, 2]~ $* }",
    // state created while running (default cell of an exhausted `? mut int`, closure counters, iterator positions)
    // belongs to the run, not to the parsed function
    "(n: int) -> int { it := [mut 1, 2]~ ? mut int; it(); d := it().1; d += n; return *d }",
    "(n: int) -> int { c := mut n; g := () -> int { c += 1; return *c }; g(); return g() }",
    "(n: int) -> [int] { it := [n, 2, 3]~; it(); return it $] }",
    "(n: int) -> [int] { out := mut [int] []; for x in [n, 1]~ { out += [x]; } for x in [n, 1]~ { out += [x]; } return *out }",
    "(n: int) -> int { cs := [mut 1, mut 2]~ ? mut int $]; cs[0] += n; return *cs[0] + *cs[1] }",
];

/// no shared cell: every thread's result equals the sequential result; helpers are first touched concurrently
fn isolated(threads: usize, rounds: usize, yield_every: u64) -> Result<(u64, String), String> {
    let funcs: Vec<Arc<Function>> = ISOLATED.iter().filter_map(|s| parse_function(s)).collect();
    if funcs.len() != ISOLATED.len() {
        return Err("an isolated-workload function was rejected".into());
    }
    let funcs = Arc::new(funcs);
    let barrier = Arc::new(Barrier::new(threads));
    let mut handles = Vec::new();
    for t in 0..threads {
        let (funcs, barrier) = (funcs.clone(), barrier.clone());
        handles.push(std::thread::Builder::new().stack_size(64 << 20).spawn(move || {
            verif::set_yield_every(if yield_every == 0 { 0 } else { yield_every + t as u64 % 2 });
            barrier.wait();
            let mut out = Vec::new();
            for r in 0..rounds {
                for (k, f) in funcs.iter().enumerate() {
                    let n = (r * 7 + k) as i64 % 10;
                    let res = real::guarded(|| f.clone().create_call(vec![Variable::Int(n)]).map(|c| c.exec()));
                    out.push(match res {
                        Ok(Ok(Ok(v))) => canon(&v),
                        Ok(other) => format!("ERR {other:?}"),
                        Err(p) => format!("PANIC {} {}", p.site(), p.short_msg()),
                    });
                }
            }
            out
        }).map_err(|e| format!("spawn: {e}"))?);
    }
    let mut results: Vec<Vec<String>> = Vec::new();
    for h in handles {
        results.push(h.join().map_err(|_| "worker thread died".to_string())?);
    }
    // sequential reference, computed afterwards on this thread
    let mut seq = Vec::new();
    for r in 0..rounds {
        for (k, f) in funcs.iter().enumerate() {
            let n = (r * 7 + k) as i64 % 10;
            seq.push(match f.clone().create_call(vec![Variable::Int(n)]).map(|c| c.exec()) {
                Ok(Ok(v)) => canon(&v),
                other => format!("ERR {other:?}"),
            });
        }
    }
    for (t, res) in results.iter().enumerate() {
        for (i, (a, b)) in res.iter().zip(&seq).enumerate() {
            if a != b {
                return Err(format!("thread {t}: `{}` gave {} concurrently but {} sequentially", truncate(ISOLATED[i % ISOLATED.len()], 120), truncate(a, 120), truncate(b, 120)));
            }
        }
    }
    Ok(((threads * rounds * ISOLATED.len()) as u64, format!("{threads} threads x {rounds} rounds x {} functions agree with the sequential run", ISOLATED.len())))
}

/// plain stores racing compound assignments on one cell: one thread stores k * 10^9 for k = 1, 2, .. and reads the cell back
/// right after each store, the others apply `+= 1` / `^= 0` / `|= 0` / `*= 1`. Every update being atomic, what the storing
/// thread reads lies in [k * 10^9, (k + 1) * 10^9) - a store that a concurrent compound assignment overwrites with a
/// result computed from the older content shows as a value of an earlier epoch.
fn mixed_stores(threads: usize, rounds: usize, yield_every: u64) -> Result<(u64, String), String> {
    let rounds = rounds.min(8);
    let per = 20_000usize;
    let cell = Arc::new(Mut { var_type: Type::Int, variable: RwLock::new(Variable::Int(0)) });
    let storer = parse_function("(c: mut int, n: int) -> int { k := mut 0; bad := mut 0; while *k < n { k += 1; c = *k * 1000000000; r := *c; if r < *k * 1000000000 || r >= (*k + 1) * 1000000000 { bad += 1; } } return *bad }").ok_or("storer rejected")?;
    let bumper = parse_function("(c: mut int, n: int) -> int { i := mut 0; while *i < n { i += 1; c += 1; c ^= 0; c |= 0; c *= 1; } return *i }").ok_or("bumper rejected")?;
    let barrier = Arc::new(Barrier::new(threads));
    let mut handles = Vec::new();
    for t in 0..threads {
        let (f, cell, barrier) = (if t == 0 { storer.clone() } else { bumper.clone() }, cell.clone(), barrier.clone());
        let n = if t == 0 { rounds * 1000 } else { per };
        handles.push(std::thread::Builder::new().stack_size(64 << 20).spawn(move || -> Result<i64, String> {
            verif::set_yield_every(if yield_every == 0 { 0 } else { yield_every + t as u64 % 2 });
            let code = f.create_call(vec![Variable::Mut(cell), Variable::Int(n as i64)]).map_err(|e| format!("{e}"))?;
            barrier.wait();
            match real::guarded(|| code.exec()) {
                Ok(Ok(Variable::Int(v))) => Ok(v),
                Ok(other) => Err(format!("worker got {other:?}")),
                Err(p) => Err(format!("worker panicked at {}: {}", p.site(), p.short_msg())),
            }
        }).map_err(|e| format!("spawn: {e}"))?);
    }
    let mut bad = 0;
    for (t, h) in handles.into_iter().enumerate() {
        let v = h.join().map_err(|_| "worker thread died".to_string())??;
        if t == 0 {
            bad = v;
        }
    }
    if bad != 0 {
        return Err(format!("{bad} of {} plain stores `c = k * 10^9` were not there when the storing thread read the cell back (a concurrent compound assignment wrote a result computed from older content: not atomic)", rounds * 1000));
    }
    let fin = cell.variable.read().map_err(|_| "poisoned".to_string())?.as_int().copied().unwrap_or(-1);
    let last = (rounds * 1000) as i64 * 1_000_000_000;
    if fin < last || fin >= last + 1_000_000_000 {
        return Err(format!("after the last store of {last} and at most {} increments the cell holds {fin} (a lost or torn update)", (threads - 1) * per));
    }
    Ok(((rounds * 1000 + (threads - 1) * per * 4) as u64, format!("1 storing thread x {} stores read back, {} threads x {per} x 4 compound assignments: every store was seen", rounds * 1000, threads - 1)))
}

/// a loop polling a cell that another thread stores to: once the storing thread has finished, the loop sees the store at
/// its next condition test. No clock is involved: the loop counts its iterations in a host-built cell, the main thread
/// notes that count right after the store completed, and the loop may run at most a small slack beyond it (it is bounded
/// by `big` iterations anyway, so a loop that never sees the store ends with exactly `big`).
fn polling(variant: usize, yield_every: u64) -> Result<(u64, String), String> {
    let big: i64 = 3_000_000;
    let (flag_ty, zero, one, cond) = [
        (Type::Float, Variable::Float(0.0), "1.0", "*flag == 0.0"),
        (Type::Bool, Variable::Bool(false), "true", "*flag == false"),
        (Type::String, Variable::String(Arc::from("")), "\"go\"", "*flag == \"\""),
        (Type::Float, Variable::Float(0.0), "1.0", "0.0 >= *flag"),
    ][variant % 4]
        .clone();
    let tname = flag_ty.to_string();
    let waiter = parse_function(&format!("(flag: mut {tname}, k: mut int, big: int) -> int {{ while {cond} {{ k += 1; if *k >= big {{ break }} }} return *k }}")).ok_or("waiter rejected")?;
    let setter = parse_function(&format!("(flag: mut {tname}) -> int {{ flag = {one}; return 1 }}")).ok_or("setter rejected")?;
    let flag = Arc::new(Mut { var_type: flag_ty, variable: RwLock::new(zero) });
    let k = Arc::new(Mut { var_type: Type::Int, variable: RwLock::new(Variable::Int(0)) });
    let (f2, k2) = (flag.clone(), k.clone());
    let a = std::thread::Builder::new().stack_size(64 << 20).spawn(move || -> Result<i64, String> {
        verif::set_yield_every(yield_every);
        let code = waiter.create_call(vec![Variable::Mut(f2), Variable::Mut(k2), Variable::Int(big)]).map_err(|e| format!("{e}"))?;
        match real::guarded(|| code.exec()) {
            Ok(Ok(Variable::Int(v))) => Ok(v),
            Ok(other) => Err(format!("waiter got {other:?}")),
            Err(p) => Err(format!("waiter panicked at {}: {}", p.site(), p.short_msg())),
        }
    }).map_err(|e| format!("spawn: {e}"))?;
    // wait (in iterations of the waiter, not in time) until the waiter is inside its loop
    let read_k = |k: &Arc<Mut>| k.variable.read().map(|g| g.as_int().copied().unwrap_or(0)).unwrap_or(0);
    while read_k(&k) < 1000 && !a.is_finished() {
        std::thread::yield_now();
    }
    let code = setter.create_call(vec![Variable::Mut(flag.clone())]).map_err(|e| format!("{e}"))?;
    real::guarded(|| code.exec()).map_err(|p| format!("setter panicked: {}", p.short_msg()))?.map_err(|e| format!("setter failed: {e:?}"))?;
    let at_store = read_k(&k);
    let fin = a.join().map_err(|_| "waiter thread died".to_string())??;
    if at_store < big - 500_000 && fin > at_store + 500_000 {
        return Err(format!("a loop polling `{cond}` went on for {} iterations after another thread's store `flag = {one}` had completed (it had made {at_store} iterations then, {fin} at its end{}): the store never became visible to it", fin - at_store, if fin == big { ", stopped only by its iteration bound" } else { "" }));
    }
    Ok((fin as u64 + 1, format!("a loop polling `{cond}` saw another thread's store {} iterations after it completed", fin - at_store.min(fin))))
}

/// runs that share no cell - each thread writes, reads back and removes files of its own in one shared directory through the
/// standard library: every call gives what it gives sequentially
fn own_files(threads: usize, rounds: usize, yield_every: u64) -> Result<(u64, String), String> {
    let dir = format!("/verif/target/scratch/c16-files-{}", std::process::id());
    std::fs::create_dir_all(&dir).map_err(|e| format!("scratch directory: {e}"))?;
    let save = parse_function("(path: string, text: string) -> bool { w := std.fs.write_to_file(path, text); back := std.fs.file_read_to_string(path); return w == () && back == text }").ok_or("save rejected")?;
    let barrier = Arc::new(Barrier::new(threads));
    let mut handles = Vec::new();
    for t in 0..threads {
        let (save, barrier, dir) = (save.clone(), barrier.clone(), dir.clone());
        handles.push(std::thread::Builder::new().stack_size(64 << 20).spawn(move || -> Result<usize, String> {
            verif::set_yield_every(yield_every);
            barrier.wait();
            let mut bad = 0;
            for r in 0..rounds {
                let path = format!("{dir}/own-{t}.txt");
                let text = format!("thread {t} round {r} {}", "x".repeat(r % 50));
                let code = save.clone().create_call(vec![Variable::String(Arc::from(path.as_str())), Variable::String(Arc::from(text.as_str()))]).map_err(|e| format!("{e}"))?;
                match real::guarded(|| code.exec()) {
                    Ok(Ok(Variable::Bool(true))) => {}
                    Ok(Ok(_)) => bad += 1,
                    Ok(Err(e)) => return Err(format!("save failed with {e:?}")),
                    Err(p) => return Err(format!("save panicked at {}: {}", p.site(), p.short_msg())),
                }
            }
            Ok(bad)
        }).map_err(|e| format!("spawn: {e}"))?);
    }
    let mut bad = 0;
    for h in handles {
        bad += h.join().map_err(|_| "worker thread died".to_string())??;
    }
    let left: Vec<String> = std::fs::read_dir(&dir).map(|rd| rd.flatten().map(|e| e.file_name().to_string_lossy().to_string()).filter(|n| !n.starts_with("own-")).collect()).unwrap_or_default();
    let _ = std::fs::remove_dir_all(&dir);
    if bad != 0 {
        return Err(format!("{bad} of {} calls that write a file of the thread's own and read it back did not get their text back although no other thread touches that file (result differs from the sequential run)", threads * rounds));
    }
    if !left.is_empty() {
        return Err(format!("files nobody asked for are left in the directory: {left:?} (result differs from the sequential run)"));
    }
    Ok(((threads * rounds) as u64, format!("{threads} threads x {rounds} write / read-back calls on files of their own in one directory agree with the sequential run")))
}

/// runs that share no cell but one standard output: every thread prints rows of its own through the standard library
/// (`print_array` of W equal tags, `print` of one long string); the parent process reads the output and accepts only whole
/// rows - a line no sequential run prints (two rows spliced, half a row) means a call's output was not written as one piece
fn stdout_rows(threads: usize, width: usize, yield_every: u64) -> Result<(u64, String), String> {
    let rows = 60usize;
    let f = parse_function("(tag: string, w: int, n: int) -> int { row := [tag; w]; long := row~ $+; i := mut 0; while *i < n { std.io.print_array(row, \",\"); std.io.print(long); i += 1; } return *i }").ok_or("printer rejected")?;
    let barrier = Arc::new(Barrier::new(threads));
    let mut handles = Vec::new();
    for t in 0..threads {
        let (f, barrier) = (f.clone(), barrier.clone());
        handles.push(std::thread::Builder::new().stack_size(64 << 20).spawn(move || -> Result<(), String> {
            verif::set_yield_every(yield_every);
            let tag = format!("t{t}");
            let code = f.create_call(vec![Variable::String(Arc::from(tag.as_str())), Variable::Int(width as i64), Variable::Int(rows as i64)]).map_err(|e| format!("{e}"))?;
            barrier.wait();
            match real::guarded(|| code.exec()) {
                Ok(Ok(Variable::Int(n))) if n == rows as i64 => Ok(()),
                Ok(other) => Err(format!("printing thread got {other:?}")),
                Err(p) => Err(format!("printing thread panicked at {}: {}", p.site(), p.short_msg())),
            }
        }).map_err(|e| format!("spawn: {e}"))?);
    }
    for h in handles {
        h.join().map_err(|_| "worker thread died".to_string())??;
    }
    Ok(((threads * rows * 2) as u64, format!("{threads} threads x {rows} x 2 rows of width {width} printed to one standard output")))
}

/// parent side of the *stdout* scenario: every line before the final one must be a whole row
fn judge_stdout_rows(out: &str, threads: usize, width: usize) -> Result<usize, String> {
    let lines: Vec<&str> = out.lines().collect();
    let body = &lines[..lines.len().saturating_sub(1)];
    let mut per_thread = std::collections::HashMap::new();
    for l in body {
        let toks: Vec<&str> = if l.contains(',') { l.split(',').collect() } else { vec![l] };
        let tag: String = toks[0].chars().take(1).chain(toks[0].chars().skip(1).take_while(|c| c.is_ascii_digit())).collect();
        let whole = if l.contains(',') { toks.len() == width && toks.iter().all(|x| *x == tag) } else { *l == tag.repeat(width) };
        if !whole || !tag.starts_with('t') || tag.len() < 2 {
            return Err(format!("standard output holds the line {:?}, which no sequential run prints (rows are {width} equal tags): a call's output was not written as one piece (result differs from the sequential run)", truncate(l, 200)));
        }
        *per_thread.entry(tag).or_insert(0usize) += 1;
    }
    if per_thread.len() != threads || per_thread.values().any(|n| *n != 120) {
        return Err(format!("standard output holds {} whole rows from {} tags, expected 120 from each of {threads} (result differs from the sequential run)", body.len(), per_thread.len()));
    }
    Ok(body.len())
}

/// one shared function value whose *sites* (type tests, type arms, value arms, type filters, operators over unions) see
/// values of a different runtime type from every thread at the same time: anything an implementation remembers per
/// site (inline caches, memoised verdicts) must not leak between threads. Each call's result is compared with the
/// sequential result for the same argument.
fn shared_sites(threads: usize, rounds: usize, yield_every: u64) -> Result<(u64, String), String> {
    let f = parse_function(
        "(v: int|float|string|[int]|(int, int)|bool, n: int) -> [int] { \
            a := mut 0; b := mut 0; c := mut 0; d := mut 0; e := mut 0; i := mut 0; \
            while *i < n { i += 1; \
                if x: int = v { a += 1; } \
                if s: string|[int] = v { b += 1; } else { b += 100; } \
                m1 := match v { p: int|float => 1, q: string => 2, r: [int] => 3, t: (int, int) => 4, u: bool => 5, }; c += m1; \
                m2 := match v { 1, 2.5, \"s\" => 7, [1], (1, 2), true => 8, => 9, }; d += m2; \
                e += std.len([v, 1, \"x\", 2.5]~ ? int|string $]) + std.len([v]~ ? (int, int)|[int] $]); \
                w := mut 0; while y: float|bool = v { w += 1; if *w > 1 { break } } e += *w * 1000; \
            } \
            return [*a, *b, *c, *d, *e] }",
    )
    .ok_or("shared-sites function rejected")?;
    let args: Vec<Variable> = vec![
        Variable::Int(1), Variable::Float(2.5), Variable::String(Arc::from("s")), Variable::from(vec![Variable::Int(1)]),
        Variable::Tuple(Arc::from([Variable::Int(1), Variable::Int(2)])), Variable::Bool(true), Variable::Int(7), Variable::String(Arc::from("other")),
        Variable::from(Vec::<Variable>::new()), Variable::Float(0.5), Variable::Bool(false), Variable::Tuple(Arc::from([Variable::Int(3), Variable::Int(4)])),
    ];
    let run = |f: &Arc<Function>, v: &Variable, n: usize| -> String {
        match real::guarded(|| f.clone().create_call(vec![v.clone(), Variable::Int(n as i64)]).map(|c| c.exec())) {
            Ok(Ok(Ok(v))) => canon(&v),
            Ok(other) => format!("ERR {other:?}"),
            Err(p) => format!("PANIC {} {}", p.site(), p.short_msg()),
        }
    };
    let seq: Vec<String> = args.iter().map(|v| run(&f, v, rounds)).collect();
    let barrier = Arc::new(Barrier::new(threads));
    let args = Arc::new(args);
    let mut handles = Vec::new();
    for t in 0..threads {
        let (f, args, barrier) = (f.clone(), args.clone(), barrier.clone());
        handles.push(std::thread::Builder::new().stack_size(64 << 20).spawn(move || {
            verif::set_yield_every(if yield_every == 0 { 0 } else { yield_every + t as u64 % 2 });
            barrier.wait();
            // every thread sticks to "its" argument for a whole call, so the sites see interleaved types
            (0..3).map(|k| { let i = (t + k * 5) % args.len(); (i, run(&f, &args[i], rounds)) }).collect::<Vec<_>>()
        }).map_err(|e| format!("spawn: {e}"))?);
    }
    for (t, h) in handles.into_iter().enumerate() {
        for (i, got) in h.join().map_err(|_| "worker thread died".to_string())? {
            if got != seq[i] {
                return Err(format!("thread {t}: the shared function called with {} gave {} while other threads ran it with other arguments, {} when run alone", canon(&args[i]), truncate(&got, 120), truncate(&seq[i], 120)));
            }
        }
    }
    Ok(((threads * 3 * rounds) as u64, format!("{threads} threads x 3 calls x {rounds} passes through 7 shared type-test / match / filter sites with {} kinds of argument agree with the sequential run", args.len())))
}

/// some threads increment a shared cell, others apply compound assignments that *fail* (division by zero, shift out
/// of range, negative exponent): every failing assignment must report its documented error and leave the cell as it
/// was, so the final content is start + number of increments and nobody ever sees a non-int
fn failing_writers(threads: usize, rounds: usize, yield_every: u64) -> Result<(u64, String), String> {
    const FAILING: [(&str, i64, &str); 5] = [("/=", 0, "ZeroDivision"), ("%=", 0, "ZeroModulo"), ("<<=", 64, "OverflowShift"), (">>=", -1, "OverflowShift"), ("**=", -1, "NegativeExponent")];
    let inc = parse_function("(c: mut int, n: int) -> int { i := mut 0; while *i < n { i += 1; c += 1; } return *c }").ok_or("incrementer rejected")?;
    let failers: Vec<Arc<Function>> = FAILING.iter().filter_map(|(op, _, _)| parse_function(&format!("(c: mut int, x: int) -> int {{ return c {op} x }}"))).collect();
    if failers.len() != FAILING.len() {
        return Err("a failing-assignment function was rejected".into());
    }
    let reader = parse_function("(c: mut int, n: int) -> int { i := mut 0; t := mut 0; while *i < n { i += 1; t += *c * 0; } return *t }").ok_or("reader rejected")?;
    let start = 100i64;
    let cell = Arc::new(Mut { var_type: Type::Int, variable: RwLock::new(Variable::Int(start)) });
    let barrier = Arc::new(Barrier::new(threads));
    let failers = Arc::new(failers);
    let mut handles = Vec::new();
    for t in 0..threads {
        let (inc, reader, failers, cell, barrier) = (inc.clone(), reader.clone(), failers.clone(), cell.clone(), barrier.clone());
        handles.push(std::thread::Builder::new().stack_size(64 << 20).spawn(move || -> Result<u64, String> {
            verif::set_yield_every(if yield_every == 0 { 0 } else { yield_every + t as u64 % 2 });
            barrier.wait();
            match t % 3 {
                0 => {
                    let code = inc.create_call(vec![Variable::Mut(cell), Variable::Int(rounds as i64)]).map_err(|e| format!("{e}"))?;
                    match real::guarded(|| code.exec()) {
                        Ok(Ok(_)) => Ok(rounds as u64),
                        Ok(Err(e)) => Err(format!("incrementing thread failed with {e:?}")),
                        Err(p) => Err(format!("incrementing thread panicked at {}: {}", p.site(), p.short_msg())),
                    }
                }
                1 => {
                    for r in 0..rounds {
                        let k = (r + t) % FAILING.len();
                        let code = failers[k].clone().create_call(vec![Variable::Mut(cell.clone()), Variable::Int(FAILING[k].1)]).map_err(|e| format!("{e}"))?;
                        match real::guarded(|| code.exec()) {
                            Ok(Err(e)) if format!("{e:?}").starts_with(FAILING[k].2) => {}
                            Ok(other) => return Err(format!("`c {} {}` gave {other:?}, documented error {}", FAILING[k].0, FAILING[k].1, FAILING[k].2)),
                            Err(p) => return Err(format!("failing assignment panicked at {}: {}", p.site(), p.short_msg())),
                        }
                    }
                    Ok(0)
                }
                _ => {
                    let code = reader.create_call(vec![Variable::Mut(cell), Variable::Int(rounds as i64)]).map_err(|e| format!("{e}"))?;
                    match real::guarded(|| code.exec()) {
                        Ok(Ok(Variable::Int(0))) => Ok(0),
                        Ok(other) => Err(format!("reading thread got {other:?}")),
                        Err(p) => Err(format!("reading thread panicked at {}: {}", p.site(), p.short_msg())),
                    }
                }
            }
        }).map_err(|e| format!("spawn: {e}"))?);
    }
    let mut increments = 0u64;
    for h in handles {
        increments += h.join().map_err(|_| "worker thread died".to_string())??;
    }
    let final_value = match cell.variable.read() {
        Ok(g) => g.clone(),
        Err(_) => return Err("the cell's lock is poisoned".into()),
    };
    if final_value != Variable::Int(start + increments as i64) {
        return Err(format!("after {increments} increments and failing assignments the cell holds {}, expected {}", canon(&final_value), start + increments as i64));
    }
    Ok(((threads * rounds) as u64, format!("{threads} threads (increment / failing op= / read) x {rounds}: cell holds {}", canon(&final_value))))
}

/// `log += open + close` on a shared string / array cell is ONE assignment: what each thread appends stays in one piece
fn appends(threads: usize, per_thread: usize, yield_every: u64) -> Result<(u64, String), String> {
    let interp = Interpreter::with_stdlib();
    let Outcome::Value(Variable::Tuple(cells)) = real::parse_exec_in(&interp, "(mut \"\", mut [int] [])", 10_000).0 else { return Err("setup rejected".into()) };
    let worker = parse_function(
        "(s: mut string, a: mut [int], open: string, close: string, id: int, n: int) -> int { i := mut 0; while *i < n { i += 1; s += open + close; pair := [id, 0 - id]; first := [id]; second := [0 - id]; a += first + second; } return *i }",
    )
    .ok_or("append worker rejected")?;
    let barrier = Arc::new(Barrier::new(threads));
    let mut handles = Vec::new();
    for t in 0..threads {
        let (f, cells, barrier) = (worker.clone(), cells.clone(), barrier.clone());
        handles.push(std::thread::Builder::new().stack_size(64 << 20).spawn(move || -> Result<(), String> {
            verif::set_yield_every(if yield_every == 0 { 0 } else { yield_every });
            let id = t as i64 + 1;
            let code = f
                .create_call(vec![cells[0].clone(), cells[1].clone(), Variable::String(Arc::from(format!("<{id}"))), Variable::String(Arc::from(format!("{id}>"))), Variable::Int(id), Variable::Int(per_thread as i64)])
                .map_err(|e| format!("{e}"))?;
            barrier.wait();
            match real::guarded(|| code.exec()) {
                Ok(Ok(_)) => Ok(()),
                Ok(Err(e)) => Err(format!("failed with {e:?}")),
                Err(p) => Err(format!("panicked at {}: {}", p.site(), p.short_msg())),
            }
        }).map_err(|e| format!("spawn: {e}"))?);
    }
    for h in handles {
        h.join().map_err(|_| "worker thread died".to_string())??;
    }
    let (Variable::Mut(sc), Variable::Mut(ac)) = (&cells[0], &cells[1]) else { return Err("cells expected".into()) };
    let text = match &*sc.variable.read().map_err(|_| "poisoned")? {
        Variable::String(s) => s.to_string(),
        other => return Err(format!("string cell holds {}", canon(other))),
    };
    // the string is a sequence of records `<k k>`
    let mut rest = text.as_str();
    let mut records = 0usize;
    while !rest.is_empty() {
        let ok = (1..=threads).any(|k| {
            let rec = format!("<{k}{k}>");
            if rest.starts_with(&rec) {
                rest = &rest[rec.len()..];
                true
            } else {
                false
            }
        });
        if !ok {
            return Err(format!("`s += open + close` from {threads} threads left a torn record at ...{}", truncate(rest, 30)));
        }
        records += 1;
    }
    if records != threads * per_thread {
        return Err(format!("{records} records in the string cell, expected {}", threads * per_thread));
    }
    let arr: Vec<i64> = match &*ac.variable.read().map_err(|_| "poisoned")? {
        Variable::Array(a) => a.iter().filter_map(|v| v.as_int().copied()).collect(),
        other => return Err(format!("array cell holds {}", canon(other))),
    };
    if arr.len() != 2 * threads * per_thread || arr.chunks(2).any(|c| c.len() != 2 || c[0] <= 0 || c[1] != -c[0]) {
        return Err(format!("`a += first + second` from {threads} threads left pairs that are not adjacent (length {})", arr.len()));
    }
    Ok(((threads * per_thread) as u64, format!("{threads} threads x {per_thread} two-part appends to a string cell and an array cell: all records whole")))
}

/// an expression that reads a shared cell once (`*c ** 2`, `*c * *d` with d constant ...) yields a value computed from
/// ONE content of the cell, whatever another thread writes meanwhile
fn single_reads(threads: usize, rounds: usize, yield_every: u64) -> Result<(u64, String), String> {
    let cell = Arc::new(Mut { var_type: Type::Int, variable: RwLock::new(Variable::Int(3)) });
    let writer = parse_function("(c: mut int, n: int) -> int { i := mut 0; while *i < n { i += 1; c = 5; c = 3; } return *i }").ok_or("writer rejected")?;
    let exprs = ["*c ** 2", "*c * 1 + 0", "-(*c)", "!(*c)", "[*c; 2][1]", "(*c, 1).0", "*c << 1", "*c % 7", "(*c + 1) * 2", "*c | 0"];
    let reader = parse_function(&format!(
        "(c: mut int, n: int) -> [[int]] {{ out := mut [[int]] []; i := mut 0; while *i < n {{ i += 1; out += [[{}]]; }} return *out }}",
        exprs.join(", ")
    ))
    .ok_or("reader rejected")?;
    let f = |v: i64| -> Vec<i64> { vec![v * v, v, -v, !v, v, v, v << 1, v % 7, (v + 1) * 2, v] };
    let allowed = [f(3), f(5)];
    let barrier = Arc::new(Barrier::new(threads));
    let mut handles = Vec::new();
    for t in 0..threads {
        let (g, cell, barrier) = (if t == 0 { writer.clone() } else { reader.clone() }, cell.clone(), barrier.clone());
        handles.push(std::thread::Builder::new().stack_size(64 << 20).spawn(move || -> Result<Vec<Vec<i64>>, String> {
            verif::set_yield_every(if yield_every == 0 { 0 } else { yield_every });
            let code = g.create_call(vec![Variable::Mut(cell), Variable::Int(rounds as i64 * if t == 0 { 4 } else { 1 })]).map_err(|e| format!("{e}"))?;
            barrier.wait();
            match real::guarded(|| code.exec()) {
                Ok(Ok(Variable::Array(rows))) => Ok(rows.iter().filter_map(|r| match r { Variable::Array(xs) => Some(xs.iter().filter_map(|v| v.as_int().copied()).collect()), _ => None }).collect()),
                Ok(Ok(_)) => Ok(Vec::new()),
                Ok(Err(e)) => Err(format!("failed with {e:?}")),
                Err(p) => Err(format!("panicked at {}: {}", p.site(), p.short_msg())),
            }
        }).map_err(|e| format!("spawn: {e}"))?);
    }
    let mut rows = 0u64;
    for h in handles {
        for row in h.join().map_err(|_| "worker thread died".to_string())?? {
            rows += 1;
            for (k, got) in row.iter().enumerate() {
                if !allowed.iter().any(|a| a[k] == *got) {
                    return Err(format!("`{}` evaluated while another thread stores 5 and 3 gave {got}: no single content of the cell gives that (expected {} or {})", exprs[k], allowed[0][k], allowed[1][k]));
                }
            }
        }
    }
    Ok((rows * exprs.len() as u64, format!("{} reader threads x {rounds} rounds x {} single-read expressions against one writer: every value comes from one content", threads - 1, exprs.len())))
}

/// several cells updated from each other: thread t applies `x[t % k] op= *x[(t + 1) % k]` (and other operand shapes that
/// read a second cell) in a loop, so every pair of cells is used in both directions at once. Whatever an implementation
/// locks while it evaluates the operand, no interleaving may deadlock; with `|=` over disjoint start bits every cell ends
/// as a union of start values that contains its own, with `=` as one of the start values.
fn cross_cells(variant: usize, threads: usize, rounds: usize, yield_every: u64) -> Result<(u64, String), String> {
    let k = 2 + variant % 2; // two cells or a ring of three
    let (op, shape) = [("|=", "*b"), ("=", "*b"), ("|=", "(*b | 0)"), ("|=", "[*b][0]"), ("+=", "*b * 0"), ("|=", "*b | *a")][(variant / 2) % 6];
    let f = parse_function(&format!("(a: mut int, b: mut int, n: int) -> int {{ i := mut 0; while *i < n {{ a {op} {shape}; i += 1; }} return *a }}")).ok_or("worker rejected")?;
    let cells: Vec<Arc<Mut>> = (0..k).map(|i| Arc::new(Mut { var_type: Type::Int, variable: RwLock::new(Variable::Int(1 << i)) })).collect();
    let barrier = Arc::new(Barrier::new(threads));
    let mut handles = Vec::new();
    for t in 0..threads {
        let (f, barrier) = (f.clone(), barrier.clone());
        let (a, b) = (cells[t % k].clone(), cells[(t + 1) % k].clone());
        handles.push(std::thread::Builder::new().stack_size(64 << 20).spawn(move || -> Result<i64, String> {
            verif::set_yield_every(if yield_every == 0 { 0 } else { yield_every + t as u64 % 2 });
            let code = f.create_call(vec![Variable::Mut(a), Variable::Mut(b), Variable::Int(rounds as i64)]).map_err(|e| format!("{e}"))?;
            barrier.wait();
            match real::guarded(|| code.exec()) {
                Ok(Ok(Variable::Int(n))) => Ok(n),
                Ok(other) => Err(format!("worker got {other:?}")),
                Err(p) => Err(format!("worker panicked at {}: {}", p.site(), p.short_msg())),
            }
        }).map_err(|e| format!("spawn: {e}"))?);
    }
    for h in handles {
        h.join().map_err(|_| "worker thread died".to_string())??;
    }
    let all = (1i64 << k) - 1;
    for (i, c) in cells.iter().enumerate() {
        let v = match c.variable.read() {
            Ok(g) => g.as_int().copied().unwrap_or(-1),
            Err(_) => return Err("a cell's lock is poisoned".into()),
        };
        let ok = match op {
            "|=" => v & !all == 0 && v & (1 << i) != 0,
            "=" => (0..k).any(|j| v == 1 << j),
            _ => v == 1 << i,
        };
        if !ok {
            return Err(format!("cell {i} of {k} ends as {v} after `a {op} {shape}` between the cells: not a content any serial order of atomic updates produces (lost or torn update)"));
        }
    }
    Ok(((threads * rounds) as u64, format!("{threads} threads x {rounds} `a {op} {shape}` over {k} cells updated from each other in both directions: no stall, contents consistent")))
}

/// one iterator value (`a~`) pulled from several threads: its position cell is advanced by the interpreter's own
/// `i += 1`, so after T x K pulls the cursor stands at T x K (which elements each pull saw is not specified)
fn shared_iterator(threads: usize, per_thread: usize, yield_every: u64) -> Result<(u64, String), String> {
    let total = threads * per_thread;
    let interp = Interpreter::with_stdlib();
    let setup = format!("a := [0; {}]; i := mut 0; b := mut [int] []; it := ((() -> [int] {{ out := mut [int] []; k := mut 0; while *k < {} {{ out += [*k]; k += 1; }} return *out }})())~; it", total + 8, total + 8);
    let Outcome::Value(it) = real::parse_exec_in(&interp, &setup, 50_000_000).0 else { return Err("iterator setup rejected".into()) };
    let puller = parse_function("(it: () -> (bool, int), n: int) -> int { k := mut 0; seen := mut 0; while *k < n { k += 1; if it().0 { seen += 1; } } return *seen }").ok_or("puller rejected")?;
    let barrier = Arc::new(Barrier::new(threads));
    let mut handles = Vec::new();
    for t in 0..threads {
        let (f, it, barrier) = (puller.clone(), it.clone(), barrier.clone());
        handles.push(std::thread::Builder::new().stack_size(64 << 20).spawn(move || -> Result<i64, String> {
            verif::set_yield_every(if yield_every == 0 { 0 } else { yield_every + t as u64 % 2 });
            let code = f.create_call(vec![it, Variable::Int(per_thread as i64)]).map_err(|e| format!("{e}"))?;
            barrier.wait();
            match real::guarded(|| code.exec()) {
                Ok(Ok(Variable::Int(n))) => Ok(n),
                Ok(other) => Err(format!("pulling thread got {other:?}")),
                Err(p) => Err(format!("pulling thread panicked at {}: {}", p.site(), p.short_msg())),
            }
        }).map_err(|e| format!("spawn: {e}"))?);
    }
    let mut seen = 0i64;
    for h in handles {
        seen += h.join().map_err(|_| "worker thread died".to_string())??;
    }
    if seen != total as i64 {
        return Err(format!("{threads} threads x {per_thread} pulls of one shared iterator over {} elements: {seen} pulls reported an element, expected {total}", total + 8));
    }
    // the next pull continues at position `total`
    let Variable::Function(itf) = &it else { return Err("iterator is not a function".into()) };
    let next = itf.clone().create_call(vec![]).map_err(|e| format!("{e}"))?.exec().map_err(|e| format!("{e:?}"))?;
    let want = format!("(true, {total})");
    if canon(&next) != want {
        return Err(format!("after {total} pulls from {threads} threads the shared iterator's next step is {}, expected {want} (its cursor lost or gained an advance)", canon(&next)));
    }
    Ok((total as u64, format!("{threads} threads x {per_thread} pulls of one shared iterator: cursor at {total}")))
}

/// threads print values that contain a cell (cell of cell, cell in an array / tuple / struct) while others update the
/// inner cell: every printed text shows a content the inner cell held at some time - never a placeholder
fn printing_nested(threads: usize, rounds: usize, yield_every: u64) -> Result<(u64, String), String> {
    let interp = Interpreter::with_stdlib();
    let Outcome::Value(Variable::Tuple(vals)) = real::parse_exec_in(&interp, "inner := mut 5; outer := mut inner; (inner, outer, [inner, 1], (inner, \"x\"), struct{f := inner})", 10_000).0 else { return Err("setup rejected".into()) };
    let writer = parse_function("(c: mut int, n: int) -> int { i := mut 0; while *i < n { i += 1; c += 1; } return *c }").ok_or("writer rejected")?;
    let reader = parse_function("(v: any, n: int) -> [string] { out := mut [string] []; i := mut 0; while *i < n { i += 1; out += [std.convert.to_string(v)]; } return *out }").ok_or("reader rejected")?;
    let barrier = Arc::new(Barrier::new(threads));
    let mut handles = Vec::new();
    for t in 0..threads {
        let (writer, reader, vals, barrier) = (writer.clone(), reader.clone(), vals.clone(), barrier.clone());
        handles.push(std::thread::Builder::new().stack_size(64 << 20).spawn(move || -> Result<Vec<String>, String> {
            verif::set_yield_every(if yield_every == 0 { 0 } else { yield_every });
            let code = if t % 2 == 0 {
                writer.create_call(vec![vals[0].clone(), Variable::Int(rounds as i64)])
            } else {
                reader.create_call(vec![vals[1 + (t / 2) % 4].clone(), Variable::Int(rounds as i64)])
            }
            .map_err(|e| format!("{e}"))?;
            barrier.wait();
            match real::guarded(|| code.exec()) {
                Ok(Ok(Variable::Array(a))) => Ok(a.iter().map(|v| match v { Variable::String(s) => s.to_string(), other => canon(other) }).collect()),
                Ok(Ok(_)) => Ok(Vec::new()),
                Ok(Err(e)) => Err(format!("failed with {e:?}")),
                Err(p) => Err(format!("panicked at {}: {}", p.site(), p.short_msg())),
            }
        }).map_err(|e| format!("spawn: {e}"))?);
    }
    let writers = threads.div_ceil(2);
    let max = 5 + (writers * rounds) as i64;
    let mut texts = 0u64;
    for h in handles {
        for text in h.join().map_err(|_| "worker thread died".to_string())?? {
            texts += 1;
            // the inner cell's part of the text: `mut int <n>` with 5 <= n <= max
            let Some(pos) = text.rfind("mut int ") else { return Err(format!("printed text {text:?} does not show the inner cell")) };
            let digits: String = text[pos + 8..].chars().take_while(|c| c.is_ascii_digit() || *c == '-').collect();
            match digits.parse::<i64>() {
                Ok(n) if (5..=max).contains(&n) => {}
                _ => return Err(format!("printed text {text:?} does not show a content the inner cell ever held (5..={max})")),
            }
        }
    }
    Ok(((threads * rounds) as u64, format!("{threads} threads ({writers} updating the inner cell, {} printing values that contain it) x {rounds}: {texts} texts, all showing a held content", threads / 2)))
}

/// readers print cells (incl. a cell that contains itself) while writers assign
fn readers_writers(kind: usize, threads: usize, rounds: usize, yield_every: u64) -> Result<(u64, String), String> {
    let interp = Interpreter::with_stdlib();
    // a cell that contains itself through an array / a tuple / a struct / another cell, plus a cell nested in a cell
    let (first, again) = match kind % 4 {
        0 => ("c = [c, 1]", "c = [c, *i]"),
        1 => ("c = (c, 1)", "c = (c, *i)"),
        2 => ("c = struct{me := c, n := 1}", "c = struct{me := c, n := *i}"),
        _ => ("c = mut any c", "c = mut any [c, *i]"),
    };
    let setup = format!("c := mut any 0; {first}; d := mut mut int mut 5; (c, d)");
    let setup = setup.as_str();
    let Outcome::Value(Variable::Tuple(cells)) = real::parse_exec_in(&interp, setup, 10_000).0 else { return Err("setup rejected".into()) };
    let reader = parse_function("(c: mut any, d: mut mut int, n: int) -> int { i := mut 0; t := mut 0; while *i < n { i += 1; t += std.len(std.convert.to_string(c)) + std.len(std.convert.to_string(d)); } return *t }").ok_or("reader rejected")?;
    let writer = parse_function(&"(c: mut any, d: mut mut int, n: int) -> int { i := mut 0; while *i < n { i += 1; AGAIN; d = mut *i; } return *i }".replace("AGAIN", again).as_str()).ok_or("writer rejected")?;
    let barrier = Arc::new(Barrier::new(threads));
    let mut handles = Vec::new();
    for t in 0..threads {
        let (f, cells, barrier) = (if t % 2 == 0 { reader.clone() } else { writer.clone() }, cells.clone(), barrier.clone());
        handles.push(std::thread::Builder::new().stack_size(64 << 20).spawn(move || {
            verif::set_yield_every(if yield_every == 0 { 0 } else { yield_every });
            let code = f.create_call(vec![cells[0].clone(), cells[1].clone(), Variable::Int(rounds as i64)]).map_err(|e| format!("{e}"))?;
            barrier.wait();
            match real::guarded(|| code.exec()) {
                Ok(Ok(_)) => Ok(()),
                Ok(Err(e)) => Err(format!("failed with {e:?}")),
                Err(p) => Err(format!("panicked at {}: {}", p.site(), p.short_msg())),
            }
        }).map_err(|e| format!("spawn: {e}"))?);
    }
    for h in handles {
        h.join().map_err(|_| "worker thread died".to_string())??;
    }
    Ok(((threads * rounds) as u64, format!("{threads} threads ({} printing, {} assigning) x {rounds} rounds on a cell containing itself through {} and a nested cell", threads.div_ceil(2), threads / 2, ["an array", "a tuple", "a struct", "a cell"][kind % 4])))
}

/// the same parsed Code executed from several threads (fresh state per exec)
fn shared_code(threads: usize, rounds: usize) -> Result<(u64, String), String> {
    let interp = Interpreter::with_stdlib();
    let src = "c := mut 0; f := (k: int) -> int { c += k; return *c }; xs := [1, 2, 3]~ @ f $]; (xs, *c, std.len(std.convert.to_string(xs)))";
    let code = Arc::new(Code::parse(&interp, src).map_err(|e| format!("rejected: {e}"))?);
    let want = code.exec().map(|v| canon(&v)).map_err(|e| format!("{e:?}"))?;
    let barrier = Arc::new(Barrier::new(threads));
    let mut handles = Vec::new();
    for _ in 0..threads {
        let (code, barrier, want) = (code.clone(), barrier.clone(), want.clone());
        handles.push(std::thread::spawn(move || {
            barrier.wait();
            for _ in 0..rounds {
                match real::guarded(|| code.exec()) {
                    Ok(Ok(v)) if canon(&v) == want => {}
                    Ok(Ok(v)) => return Err(format!("shared Code gave {} on a thread, {want} sequentially", canon(&v))),
                    Ok(Err(e)) => return Err(format!("failed with {e:?}")),
                    Err(p) => return Err(format!("panicked at {}: {}", p.site(), p.short_msg())),
                }
            }
            Ok(())
        }));
    }
    for h in handles {
        h.join().map_err(|_| "worker thread died".to_string())??;
    }
    Ok(((threads * rounds) as u64, format!("{threads} threads x {rounds} executions of one parsed Code")))
}

/// child entry: `scenario:threads:size:yield`; prints `OK <ops> <description>` or `VIOLATION <description>`
pub fn child(spec: &str) {
    let parts: Vec<&str> = spec.split(':').collect();
    let num = |i: usize| parts.get(i).and_then(|x| x.parse::<usize>().ok()).unwrap_or(2);
    let (threads, size, yld) = (num(1), num(2), num(3) as u64);
    let scenario = parts.first().copied().unwrap_or("");
    let r = if let Some(opn) = scenario.strip_prefix("cell") {
        let k: usize = opn.parse().unwrap_or(0);
        shared_cell(&OPS[k % OPS.len()], threads, size, 1, yld)
    } else {
        match scenario {
            "isolated" => isolated(threads, size, yld),
            r if r.starts_with("readers") => readers_writers(r[7..].parse().unwrap_or(0), threads, size, yld),
            "code" => shared_code(threads, size),
            "failing" => failing_writers(threads.max(3), size, yld),
            "iterator" => shared_iterator(threads, size, yld),
            "appends" => appends(threads, size, yld),
            "reads" => single_reads(threads.max(2), size, yld),
            "printing" => printing_nested(threads.max(2), size, yld),
            "sites" => shared_sites(threads.max(2), size, yld),
            "mixed" => mixed_stores(threads.max(2), size, yld),
            "polling" => polling(size, yld),
            "files" => own_files(threads.max(2), size, yld),
            "stdout" => stdout_rows(threads.max(2), size.max(2), yld),
            r if r.starts_with("cross") => cross_cells(r[5..].parse().unwrap_or(0), threads.max(2), size, yld),
            other => Err(format!("unknown scenario {other}")),
        }
    };
    match r {
        Ok((ops, d)) => println!("OK {ops} {d}"),
        Err(e) => println!("VIOLATION {e}"),
    }
}

fn gdb_dump(pid: u32) -> String {
    let out = std::process::Command::new("gdb").args(["-p", &pid.to_string(), "-batch", "-ex", "thread apply all bt 12"]).output();
    match out {
        Ok(o) => String::from_utf8_lossy(&o.stdout).to_string(),
        Err(e) => format!("gdb failed: {e}"),
    }
}

pub fn run(cfg: &Cfg, rep: &mut Report) {
    if let Some(spec) = cfg.extra.get("child") {
        child(spec);
        return;
    }
    let deadline = Deadline::new(cfg.budget_s);
    let Ok(exe) = std::env::current_exe() else { return };
    let mut rng = cfg.rng(16);
    let runs = cfg.per_shard(2_400, 120_000);
    for r in 0..runs {
        if deadline.over() {
            break;
        }
        let threads = *rng.pick(&[2usize, 2, 3, 4, 4, 8, 16]);
        let yld = *rng.pick(&[0usize, 0, 1, 2, 5]);
        let (scenario, size) = match rng.below(31) {
            29 | 30 => ("stdout".to_string(), *rng.pick(&[3usize, 16, 17, 40, 100])),
            28 => ("files".to_string(), *rng.pick(&[20usize, 100, 300])),
            26 | 27 => ("polling".to_string(), rng.below(4)),
            24 | 25 => ("mixed".to_string(), *rng.pick(&[1usize, 4, 8])),
            22 | 23 => ("sites".to_string(), *rng.pick(&[100usize, 1000, 4000])),
            20 | 21 => (format!("cross{}", rng.below(12)), *rng.pick(&[50usize, 500, 5000])),
            16 | 17 => ("appends".to_string(), *rng.pick(&[20usize, 100, 400])),
            18 => ("reads".to_string(), *rng.pick(&[50usize, 300, 1000])),
            19 => (format!("cross{}", rng.below(12)), *rng.pick(&[50usize, 500, 5000])),
            12 | 13 => ("iterator".to_string(), *rng.pick(&[50usize, 200, 800])),
            14 | 15 => ("printing".to_string(), *rng.pick(&[20usize, 100, 400])),
            0..=5 => (format!("cell{}", rng.below(OPS.len())), *rng.pick(&[3usize, 10, 50, 200, 1000])),
            6 | 7 => ("isolated".to_string(), *rng.pick(&[1usize, 3, 10])),
            8 => (format!("readers{}", rng.below(4)), *rng.pick(&[5usize, 30, 100])),
            9 | 10 => ("failing".to_string(), *rng.pick(&[5usize, 40, 200])),
            _ => ("code".to_string(), *rng.pick(&[5usize, 50])),
        };
        let spec = format!("{scenario}:{threads}:{size}:{yld}");
        rep.evaluations += 1;
        rep.count("runs");
        rep.shape("scenarios", &format!("{} x{threads} yield{yld}", scenario.trim_end_matches(char::is_numeric)));
        if let Some(k) = scenario.strip_prefix("cell") {
            rep.shape("assignment_operators", OPS[k.parse::<usize>().unwrap_or(0)].op);
        }
        rep.distinct_case(&(spec.clone(), r));
        let child = std::process::Command::new(&exe)
            .args(["C16", "--out", "/dev/null", "--opt", &format!("child={spec}")])
            .stdin(std::process::Stdio::null())
            .stdout(std::process::Stdio::piped())
            .stderr(std::process::Stdio::piped())
            .spawn();
        let Ok(mut child) = child else {
            rep.inconclusive("child-failed-to-start");
            continue;
        };
        // read the child's output while it runs (a scenario may print more than a pipe holds)
        let reader = child.stdout.take().map(|mut o| {
            std::thread::spawn(move || {
                use std::io::Read;
                let mut out = String::new();
                let _ = o.read_to_string(&mut out);
                out
            })
        });
        // wait with a generous stall threshold: the verdict on a stall comes from the thread dump, not from the clock
        let started = std::time::Instant::now();
        let status = loop {
            match child.try_wait() {
                Ok(Some(s)) => break Some(s),
                Ok(None) => {
                    if started.elapsed().as_secs() > 20 {
                        break None;
                    }
                    std::thread::sleep(std::time::Duration::from_millis(2));
                }
                Err(_) => break None,
            }
        };
        match status {
            None => {
                let dump = gdb_dump(child.id());
                let _ = child.kill();
                let _ = child.wait();
                // threads executing interpreter code, and how many of them are parked in RwLock acquisition
                let blocks: Vec<&str> = dump.split("\nThread ").skip(1).collect();
                let workers: Vec<&&str> = blocks.iter().filter(|b| b.contains("simplesl::")).collect();
                let parked = workers.iter().filter(|b| b.contains("RwLock::read_contended") || b.contains("RwLock::write_contended") || b.contains("rwlock::futex")).count();
                let threads_seen = blocks.len().max(1);
                rep.add("stalls-inspected-with-gdb", 1);
                if !workers.is_empty() && parked == workers.len() {
                    rep.violation(
                        &format!("c16:deadlock:{}", scenario.trim_end_matches(char::is_numeric)),
                        &format!("scenario {spec} made no progress; {threads_seen} threads, thread dump shows threads parked in RwLock acquisition: {}", truncate(&dump.replace('\n', " | "), 1500)),
                        "c16",
                        &spec,
                    );
                } else {
                    rep.inconclusive("stalled-without-lock-evidence");
                }
            }
            Some(st) => {
                let out = reader.and_then(|h| h.join().ok()).unwrap_or_default();
                let mut line = out.lines().last().unwrap_or("").to_string();
                if scenario == "stdout" && line.starts_with("OK ") {
                    match judge_stdout_rows(&out, threads.max(2), size.max(2)) {
                        Ok(n) => rep.add("stdout-rows-read", n as u64),
                        Err(why) => line = format!("VIOLATION {why}"),
                    }
                }
                if let Some(rest) = line.strip_prefix("OK ") {
                    let ops: u64 = rest.split(' ').next().and_then(|x| x.parse().ok()).unwrap_or(0);
                    rep.add("operations", ops);
                    rep.count(&format!("ok:{}", scenario.trim_end_matches(char::is_numeric)));
                    rep.sample(scenario.trim_end_matches(char::is_numeric), 2, || Obj::new().s("scenario", &spec).s("observed", rest).render());
                } else if let Some(why) = line.strip_prefix("VIOLATION ") {
                    let class = if why.contains("panicked") || why.contains("poisoned") {
                        "panic"
                    } else if why.contains("atomic") || why.contains("lost") {
                        "atomicity"
                    } else {
                        "result"
                    };
                    rep.violation(&format!("c16:{class}:{}", scenario.trim_end_matches(char::is_numeric)), &format!("scenario {spec}: {why}"), "c16", &spec);
                } else if !st.success() {
                    let mut err = String::new();
                    if let Some(mut e) = child.stderr.take() {
                        use std::io::Read;
                        let _ = e.read_to_string(&mut err);
                    }
                    if err.contains("memory allocation") || err.contains("overflowed its stack") {
                        rep.inconclusive("child-resource");
                    } else {
                        rep.violation(&format!("c16:abort:{}", scenario.trim_end_matches(char::is_numeric)), &format!("scenario {spec}: child died ({st}): {}", truncate(&err, 300)), "c16", &spec);
                    }
                } else {
                    rep.inconclusive("child-no-verdict");
                }
            }
        }
        cfg.checkpoint(rep);
    }
    let _ = Rng::new(0);
}

pub fn replay(payload: &str, rep: &mut Report) {
    let spec = payload.trim();
    let cfg = Cfg { prop: "C16".into(), tier: "quick".into(), seed: 1, shard: 0, nshards: 1, out: String::new(), replay: None, budget_s: 120.0, extra: Default::default() };
    let _ = cfg;
    rep.notes.push(format!("replay scenario {spec} 20 times"));
    let Ok(exe) = std::env::current_exe() else { return };
    for _ in 0..20 {
        rep.evaluations += 1;
        if let Ok(out) = std::process::Command::new(&exe).args(["C16", "--out", "/dev/null", "--opt", &format!("child={spec}")]).output() {
            let text = String::from_utf8_lossy(&out.stdout);
            if let Some(why) = text.lines().last().and_then(|l| l.strip_prefix("VIOLATION ")) {
                rep.violation("c16:replayed", why, "c16", spec);
            }
        }
    }
}
