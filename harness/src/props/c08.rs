//! C08 scalar arithmetic: value monitor against big-integer / IEEE oracles, three forms.
use crate::real::{self, ErrKind, Outcome};
use crate::util::{Cfg, Deadline, FLOAT_BOUNDARY, INT_BOUNDARY, Obj, Report, Rng, truncate};
use simplesl::{Code, Interpreter, function::Function, variable::Variable};
use std::collections::HashMap;
use std::sync::Arc;

pub const INT_BIN: [&str; 17] = [
    "+", "-", "*", "/", "%", "**", "<<", ">>", "&", "|", "^", "==", "!=", "<", "<=", ">", ">=",
];
pub const INT_ASSIGN: [&str; 11] = ["+", "-", "*", "/", "%", "**", "<<", ">>", "&", "|", "^"];
pub const FLOAT_BIN: [&str; 11] = ["+", "-", "*", "/", "**", "==", "!=", "<", "<=", ">", ">="];
pub const FLOAT_ASSIGN: [&str; 5] = ["+", "-", "*", "/", "**"];
pub const BOOL_BIN: [&str; 7] = ["&", "|", "^", "&&", "||", "==", "!="];
pub const BOOL_ASSIGN: [&str; 3] = ["&", "|", "^"];

#[derive(Clone, Debug, PartialEq)]
pub enum Exp {
    Int(i64),
    Bool(bool),
    Float(f64),
    Err(ErrKind),
}

fn wrap(x: i128) -> i64 {
    x as i64 // truncation = reduction mod 2^64 into the signed range
}

fn modpow(base: i64, exp: u64) -> i64 {
    let mut result: u64 = 1;
    let mut b = base as u64;
    let mut e = exp;
    while e > 0 {
        if e & 1 == 1 {
            result = ((result as u128 * b as u128) & 0xFFFF_FFFF_FFFF_FFFF) as u64;
        }
        b = ((b as u128 * b as u128) & 0xFFFF_FFFF_FFFF_FFFF) as u64;
        e >>= 1;
    }
    result as i64
}

pub fn int_oracle(op: &str, a: i64, b: i64) -> Exp {
    let (x, y) = (a as i128, b as i128);
    match op {
        "+" => Exp::Int(wrap(x + y)),
        "-" => Exp::Int(wrap(x - y)),
        "*" => Exp::Int(wrap(x * y)),
        "/" => {
            if b == 0 {
                Exp::Err(ErrKind::ZeroDiv)
            } else {
                Exp::Int(wrap(x / y))
            }
        }
        "%" => {
            if b == 0 {
                Exp::Err(ErrKind::ZeroMod)
            } else {
                Exp::Int(wrap(x % y))
            }
        }
        "**" => {
            if b < 0 {
                Exp::Err(ErrKind::NegExp)
            } else {
                Exp::Int(modpow(a, b as u64))
            }
        }
        "<<" => {
            if !(0..=63).contains(&b) {
                Exp::Err(ErrKind::Shift)
            } else {
                Exp::Int(wrap(x * (1i128 << b)))
            }
        }
        ">>" => {
            if !(0..=63).contains(&b) {
                Exp::Err(ErrKind::Shift)
            } else {
                Exp::Int(wrap(x.div_euclid(1i128 << b)))
            }
        }
        "&" => Exp::Int(bits(a, b, |p, q| p && q)),
        "|" => Exp::Int(bits(a, b, |p, q| p || q)),
        "^" => Exp::Int(bits(a, b, |p, q| p != q)),
        "==" => Exp::Bool(x == y),
        "!=" => Exp::Bool(x != y),
        "<" => Exp::Bool(x < y),
        "<=" => Exp::Bool(x <= y),
        ">" => Exp::Bool(x > y),
        ">=" => Exp::Bool(x >= y),
        _ => unreachable!(),
    }
}

fn bits(a: i64, b: i64, f: impl Fn(bool, bool) -> bool) -> i64 {
    let mut r: u64 = 0;
    for i in 0..64 {
        let p = (a as u64 >> i) & 1 == 1;
        let q = (b as u64 >> i) & 1 == 1;
        if f(p, q) {
            r |= 1 << i;
        }
    }
    r as i64
}

pub fn int_unary_oracle(op: &str, a: i64) -> Exp {
    match op {
        "-" => Exp::Int(wrap(-(a as i128))),
        "!" => Exp::Int(wrap(-(a as i128) - 1)),
        _ => unreachable!(),
    }
}

pub fn float_oracle(op: &str, a: f64, b: f64) -> Exp {
    match op {
        "+" => Exp::Float(a + b),
        "-" => Exp::Float(a - b),
        "*" => Exp::Float(a * b),
        "/" => Exp::Float(a / b),
        "**" => Exp::Float(a.powf(b)),
        "==" => Exp::Bool(a == b),
        "!=" => Exp::Bool(a != b),
        "<" => Exp::Bool(a < b),
        "<=" => Exp::Bool(a <= b),
        ">" => Exp::Bool(a > b),
        ">=" => Exp::Bool(a >= b),
        _ => unreachable!(),
    }
}

pub fn bool_oracle(op: &str, a: bool, b: bool) -> Exp {
    Exp::Bool(match op {
        "&" | "&&" => a && b,
        "|" | "||" => a || b,
        "^" => a != b,
        "==" => a == b,
        "!=" => a != b,
        _ => unreachable!(),
    })
}

pub fn int_lit(v: i64) -> String {
    if v == i64::MIN {
        "(-9223372036854775807 - 1)".into()
    } else if v < 0 {
        format!("(-{})", -(v as i128))
    } else {
        v.to_string()
    }
}

pub fn float_lit(v: f64) -> Option<String> {
    if !v.is_finite() {
        return None;
    }
    let s = format!("{:?}", v.abs());
    if v.is_sign_negative() {
        Some(format!("(-{s})"))
    } else {
        Some(s)
    }
}

fn int_class(v: i64) -> &'static str {
    match v {
        i64::MIN => "MIN",
        i64::MAX => "MAX",
        0 => "0",
        1 => "1",
        -1 => "-1",
        2..=63 => "2..63",
        64..=0xFFFF_FFFF => "64..2^32",
        -64..=-2 => "-64..-2",
        -0x1_0000_0000..=-65 => "-2^32..-65",
        v if v > 0 => ">2^32",
        _ => "<-2^32",
    }
}

fn float_class(v: f64) -> &'static str {
    if v.is_nan() {
        "nan"
    } else if v.is_infinite() {
        if v > 0.0 { "+inf" } else { "-inf" }
    } else if v == 0.0 {
        if v.is_sign_negative() { "-0" } else { "+0" }
    } else if v.is_subnormal() {
        "subnormal"
    } else if v.abs() >= 1e300 {
        "huge"
    } else if v < 0.0 {
        "neg"
    } else {
        "pos"
    }
}

fn same(exp: &Exp, got: &Variable) -> bool {
    match (exp, got) {
        (Exp::Int(a), Variable::Int(b)) => a == b,
        (Exp::Bool(a), Variable::Bool(b)) => a == b,
        (Exp::Float(a), Variable::Float(b)) => (a.is_nan() && b.is_nan()) || a.to_bits() == b.to_bits(),
        _ => false,
    }
}

fn describe(o: &Outcome) -> String {
    match o {
        Outcome::Value(v) => format!("value {v:?} : {}", simplesl::variable::Typed::as_type(v)),
        other => other.tag(),
    }
}

/// compare an outcome with the expectation; Ok(()) or a short reason
fn judge(exp: &Exp, out: &Outcome) -> Result<(), String> {
    match (exp, out) {
        (Exp::Err(k), Outcome::ExecErr(Some(g), _)) if k == g => Ok(()),
        (Exp::Err(k), Outcome::Rejected(_, Some(g))) if k == g => Ok(()),
        (Exp::Err(k), o) => Err(format!("expected error {} got {}", k.name(), describe(o))),
        (e, Outcome::Value(v)) if same(e, v) => Ok(()),
        (e, o) => Err(format!("expected {e:?} got {}", describe(o))),
    }
}

struct Funcs {
    map: HashMap<String, Arc<Function>>,
    /// helper texts the checker refused: every one of them applies an operator to operands of its documented
    /// types, so a refusal is a violation (reported once per helper at the end of the run)
    rejected: Vec<(String, String, String)>,
}

impl Funcs {
    fn get(&mut self, key: &str, src: impl FnOnce() -> String) -> Option<Arc<Function>> {
        if let Some(f) = self.map.get(key) {
            return Some(f.clone());
        }
        let text = src();
        let interp = Interpreter::without_stdlib();
        let r = real::guarded(|| Code::parse(&interp, &text).map(|c| c.exec()));
        let f = match r {
            Ok(Ok(Ok(Variable::Function(f)))) => f,
            other => {
                if !self.rejected.iter().any(|(k, _, _)| k == key) {
                    self.rejected.push((key.to_string(), text.clone(), format!("{:?}", other.map(|r| r.map(|r| r.map(|v| v.to_string()))))));
                }
                return None;
            }
        };
        self.map.insert(key.into(), f.clone());
        Some(f)
    }
}

fn call(f: &Arc<Function>, args: Vec<Variable>) -> Outcome {
    let code = match real::guarded(|| f.clone().create_call(args)) {
        Err(p) => return Outcome::Panic(p),
        Ok(Err(e)) => return Outcome::Rejected(real::error_variant(&e), real::parse_err_kind(&e)),
        Ok(Ok(c)) => c,
    };
    real::exec_code(&code, real::DEFAULT_FUEL)
}

fn result_ty(exp_kind: &str, op: &str) -> &'static str {
    match op {
        "==" | "!=" | "<" | "<=" | ">" | ">=" => "bool",
        _ => match exp_kind {
            "int" => "int",
            "float" => "float",
            _ => "bool",
        },
    }
}

struct Ctx<'a> {
    rep: &'a mut Report,
    funcs: Funcs,
    /// also evaluate the half-constant forms (one parse per case: used for the grid and a sample of the random cases)
    half: bool,
}

impl Ctx<'_> {
    fn fail(&mut self, form: &str, ty: &str, op: &str, a: &str, b: &str, why: &str) {
        let key = format!("c08:{ty}:{form}:{op}");
        let payload = format!("{ty}\t{form}\t{op}\t{a}\t{b}");
        self.rep
            .violation(&key, &format!("{a} {op} {b} ({form} form): {why}"), "c08", &payload);
    }


    /// the same name on both sides of an operator (`a op a`, `x := a; x op x`, `*c op *c`, `x := LIT; x op x`, `c op= *c`):
    /// a folding pass that decides `x op x` from the operands being one name must still agree with the arithmetic
    /// (NaN != NaN, 0 / 0 fails, inf - inf is NaN, MIN / MIN == 1 ...)
    fn check_same_operand(&mut self, ty: &str, op: &str, exp: &Exp, val: Variable, lit: Option<String>, assign: bool) {
        let shown = format!("{val:?}");
        let rt = result_ty(ty, op);
        self.rep.count("same_operand_cases");
        let forms = [
            ("same-param", format!("(a: {ty}) -> {rt} {{ return a {op} a }}")),
            ("same-local", format!("(a: {ty}) -> {rt} {{ x := a; return x {op} x }}")),
            ("same-deref", format!("(a: {ty}) -> {rt} {{ c := mut a; return *c {op} *c }}")),
            ("same-nested-fn", format!("(a: {ty}) -> {rt} {{ g := () -> {rt} {{ return a {op} a }}; return g() }}")),
        ];
        for (form, text) in forms {
            if let Some(f) = self.funcs.get(&format!("{ty} {form} {op}"), || text.clone()) {
                let out = call(&f, vec![val.clone()]);
                self.rep.evaluations += 1;
                self.rep.count("form_same_operand");
                if let Err(why) = judge(exp, &out) {
                    self.fail(form, ty, op, &shown, &shown, &format!("{why} [{text}]"));
                }
            }
        }
        if let Some(l) = lit {
            let text = format!("x := {l}; x {op} x");
            let out = real::parse_exec(&text, false);
            self.rep.evaluations += 1;
            self.rep.count("form_same_operand");
            if let Err(why) = judge(exp, &out) {
                self.fail("same-constant", ty, op, &shown, &shown, &format!("{why} [{text}]"));
            }
        }
        if assign {
            let text = format!("(a: {ty}) -> ({ty}, {ty}) {{ c := mut a; r := c {op}= *c; return (r, *c) }}");
            if let Some(f) = self.funcs.get(&format!("{ty} same-assign {op}"), || text.clone()) {
                let out = call(&f, vec![val.clone()]);
                self.rep.evaluations += 1;
                self.rep.count("form_same_operand");
                let verdict = match (exp, &out) {
                    (Exp::Err(_), o) => judge(exp, o),
                    (e, Outcome::Value(Variable::Tuple(t))) if t.len() == 2 && same(e, &t[0]) && same(e, &t[1]) => Ok(()),
                    (e, o) => Err(format!("expected ({e:?}, same) got {}", describe(o))),
                };
                if let Err(why) = verdict {
                    self.fail("same-assign", ty, op, &shown, &shown, &format!("{why} [{text}]"));
                }
            }
        }
    }

    fn check_int(&mut self, op: &str, a: i64, b: i64) {
        let exp = int_oracle(op, a, b);
        if a == b {
            self.check_same_operand("int", op, &exp, Variable::Int(a), Some(format!("({})", int_lit(a))), INT_ASSIGN.contains(&op));
        }
        self.rep.shape("int_cells", &format!("{op} {} {}", int_class(a), int_class(b)));
        if let Exp::Err(k) = &exp {
            self.rep.shape("errors_by_op", &format!("{op}:{}", k.name()));
        }
        self.rep.distinct_case(&("int", op, a, b));
        // literal form
        let text = format!("{} {op} {}", int_lit(a), int_lit(b));
        let out = real::parse_exec(&text, false);
        self.rep.evaluations += 1;
        self.rep.count("form_literal");
        if let Err(why) = judge(&exp, &out) {
            self.fail("literal", "int", op, &a.to_string(), &b.to_string(), &why);
        }
        // run-time form
        let rt = result_ty("int", op);
        if let Some(f) = self.funcs.get(&format!("int rt {op}"), || {
            format!("(a: int, b: int) -> {rt} {{ return a {op} b }}")
        }) {
            let out = call(&f, vec![Variable::Int(a), Variable::Int(b)]);
            self.rep.evaluations += 1;
            self.rep.count("form_runtime");
            if let Err(why) = judge(&exp, &out) {
                self.fail("runtime", "int", op, &a.to_string(), &b.to_string(), &why);
            }
        } else {
            self.rep.inconclusive("helper-function-rejected");
        }
        // half-constant forms: one operand is a literal in the function's text, the other arrives at run time
        // (the folder sees a constant next to a non-constant: its early checks must agree with the run-time ones)
        if self.half {
            for (side, text, arg) in [
                ("const-rhs", format!("(a: int) -> {rt} {{ return a {op} {} }}", int_lit(b)), a),
                ("const-lhs", format!("(b: int) -> {rt} {{ return {} {op} b }}", int_lit(a)), b),
            ] {
                let interp = Interpreter::without_stdlib();
                self.rep.evaluations += 1;
                self.rep.count("form_half_constant");
                let out = match real::guarded(|| Code::parse(&interp, &text).map(|c| c.exec())) {
                    Err(p) => Outcome::Panic(p),
                    Ok(Err(e)) => Outcome::Rejected(real::error_variant(&e), real::parse_err_kind(&e)),
                    Ok(Ok(Err(e))) => Outcome::ExecErr(real::exec_err_kind(&e), format!("{e:?}")),
                    Ok(Ok(Ok(Variable::Function(f)))) => call(&f, vec![Variable::Int(arg)]),
                    Ok(Ok(Ok(other))) => Outcome::Value(other),
                };
                if let Err(why) = judge(&exp, &out) {
                    self.fail(&format!("half-{side}"), "int", op, &a.to_string(), &b.to_string(), &format!("{why} [{text}]"));
                }
            }
        }
        // compound assignment
        if INT_ASSIGN.contains(&op) {
            if let Some(f) = self.funcs.get(&format!("int as {op}"), || {
                format!("(a: int, b: int) -> (int, int) {{ c := mut a; r := c {op}= b; return (r, *c) }}")
            }) {
                let out = call(&f, vec![Variable::Int(a), Variable::Int(b)]);
                self.rep.evaluations += 1;
                self.rep.count("form_assign");
                let verdict = match (&exp, &out) {
                    (Exp::Int(e), Outcome::Value(Variable::Tuple(t)))
                        if t.len() == 2
                            && t[0] == Variable::Int(*e)
                            && t[1] == Variable::Int(*e) =>
                    {
                        Ok(())
                    }
                    (Exp::Err(_), o) => judge(&exp, o),
                    (e, o) => Err(format!("expected ({e:?}, same) got {}", describe(o))),
                };
                if let Err(why) = verdict {
                    self.fail("assign", "int", op, &a.to_string(), &b.to_string(), &why);
                }
            } else {
                self.rep.inconclusive("helper-function-rejected");
            }
        }
        self.rep.sample("int", 6, || {
            Obj::new().s("expr", &text).s("expected", &format!("{exp:?}")).render()
        });
    }

    fn check_int_unary(&mut self, op: &str, a: i64) {
        let exp = int_unary_oracle(op, a);
        self.rep.distinct_case(&("intun", op, a));
        self.rep.shape("int_cells", &format!("unary{op} {}", int_class(a)));
        let text = format!("{op}{}", int_lit(a));
        // `- (-5)` : prefix applied to a parenthesised primary
        let out = real::parse_exec(&text, false);
        self.rep.evaluations += 1;
        self.rep.count("form_literal");
        if let Err(why) = judge(&exp, &out) {
            self.fail("literal", "int", &format!("unary{op}"), &a.to_string(), "", &why);
        }
        if let Some(f) = self
            .funcs
            .get(&format!("int un {op}"), || format!("(a: int) -> int {{ return {op}a }}"))
        {
            let out = call(&f, vec![Variable::Int(a)]);
            self.rep.evaluations += 1;
            self.rep.count("form_runtime");
            if let Err(why) = judge(&exp, &out) {
                self.fail("runtime", "int", &format!("unary{op}"), &a.to_string(), "", &why);
            }
        }
    }

    fn check_float(&mut self, op: &str, a: f64, b: f64) {
        let exp = float_oracle(op, a, b);
        if a.to_bits() == b.to_bits() {
            self.check_same_operand("float", op, &exp, Variable::Float(a), float_lit(a).map(|l| format!("({l})")), FLOAT_ASSIGN.contains(&op));
        }
        self.rep.distinct_case(&("float", op, a.to_bits(), b.to_bits()));
        self.rep.shape("float_cells", &format!("{op} {} {}", float_class(a), float_class(b)));
        if let (Some(la), Some(lb)) = (float_lit(a), float_lit(b)) {
            let text = format!("{la} {op} {lb}");
            let out = real::parse_exec(&text, false);
            self.rep.evaluations += 1;
            self.rep.count("form_literal");
            if let Err(why) = judge(&exp, &out) {
                self.fail("literal", "float", op, &format!("{a:?}"), &format!("{b:?}"), &why);
            }
            self.rep.sample("float", 4, || {
                Obj::new().s("expr", &text).s("expected", &format!("{exp:?}")).render()
            });
        }
        let rt = result_ty("float", op);
        if let Some(f) = self.funcs.get(&format!("float rt {op}"), || {
            format!("(a: float, b: float) -> {rt} {{ return a {op} b }}")
        }) {
            let out = call(&f, vec![Variable::Float(a), Variable::Float(b)]);
            self.rep.evaluations += 1;
            self.rep.count("form_runtime");
            if let Err(why) = judge(&exp, &out) {
                self.fail("runtime", "float", op, &format!("{a:?}"), &format!("{b:?}"), &why);
            }
        }
        // half-constant forms for floats (literal forms exist for finite values only)
        if self.half {
            let mut forms: Vec<(&str, String, f64)> = Vec::new();
            if let Some(lb) = float_lit(b) {
                forms.push(("const-rhs", format!("(a: float) -> {rt} {{ return a {op} {lb} }}"), a));
            }
            if let Some(la) = float_lit(a) {
                forms.push(("const-lhs", format!("(b: float) -> {rt} {{ return {la} {op} b }}"), b));
            }
            for (side, text, arg) in forms {
                let interp = Interpreter::without_stdlib();
                self.rep.evaluations += 1;
                self.rep.count("form_half_constant");
                let out = match real::guarded(|| Code::parse(&interp, &text).map(|c| c.exec())) {
                    Err(p) => Outcome::Panic(p),
                    Ok(Err(e)) => Outcome::Rejected(real::error_variant(&e), real::parse_err_kind(&e)),
                    Ok(Ok(Err(e))) => Outcome::ExecErr(real::exec_err_kind(&e), format!("{e:?}")),
                    Ok(Ok(Ok(Variable::Function(f)))) => call(&f, vec![Variable::Float(arg)]),
                    Ok(Ok(Ok(other))) => Outcome::Value(other),
                };
                if let Err(why) = judge(&exp, &out) {
                    self.fail(&format!("half-{side}"), "float", op, &format!("{a:?}"), &format!("{b:?}"), &format!("{why} [{text}]"));
                }
            }
        }
        if FLOAT_ASSIGN.contains(&op) {
            if let Some(f) = self.funcs.get(&format!("float as {op}"), || {
                format!("(a: float, b: float) -> (float, float) {{ c := mut a; r := c {op}= b; return (r, *c) }}")
            }) {
                let out = call(&f, vec![Variable::Float(a), Variable::Float(b)]);
                self.rep.evaluations += 1;
                self.rep.count("form_assign");
                let ok = match (&exp, &out) {
                    (e, Outcome::Value(Variable::Tuple(t))) if t.len() == 2 => same(e, &t[0]) && same(e, &t[1]),
                    _ => false,
                };
                if !ok {
                    self.fail("assign", "float", op, &format!("{a:?}"), &format!("{b:?}"),
                        &format!("expected ({exp:?}, same) got {}", describe(&out)));
                }
            }
        }
    }

    fn check_float_unary(&mut self, a: f64) {
        let exp = Exp::Float(-a);
        self.rep.distinct_case(&("floatun", a.to_bits()));
        if let Some(la) = float_lit(a) {
            let out = real::parse_exec(&format!("-{la}"), false);
            self.rep.evaluations += 1;
            self.rep.count("form_literal");
            if let Err(why) = judge(&exp, &out) {
                self.fail("literal", "float", "unary-", &format!("{a:?}"), "", &why);
            }
        }
        if let Some(f) = self
            .funcs
            .get("float un -", || "(a: float) -> float { return -a }".to_string())
        {
            let out = call(&f, vec![Variable::Float(a)]);
            self.rep.evaluations += 1;
            self.rep.count("form_runtime");
            if let Err(why) = judge(&exp, &out) {
                self.fail("runtime", "float", "unary-", &format!("{a:?}"), "", &why);
            }
        }
    }

    fn check_bool(&mut self, op: &str, a: bool, b: bool) {
        let exp = bool_oracle(op, a, b);
        if a == b {
            self.check_same_operand("bool", op, &exp, Variable::Bool(a), Some(a.to_string()), BOOL_ASSIGN.contains(&op));
        }
        self.rep.distinct_case(&("bool", op, a, b));
        let text = format!("{a} {op} {b}");
        let out = real::parse_exec(&text, false);
        self.rep.evaluations += 1;
        self.rep.count("form_literal");
        if let Err(why) = judge(&exp, &out) {
            self.fail("literal", "bool", op, &a.to_string(), &b.to_string(), &why);
        }
        if let Some(f) = self.funcs.get(&format!("bool rt {op}"), || {
            format!("(a: bool, b: bool) -> bool {{ return a {op} b }}")
        }) {
            let out = call(&f, vec![Variable::Bool(a), Variable::Bool(b)]);
            self.rep.evaluations += 1;
            self.rep.count("form_runtime");
            if let Err(why) = judge(&exp, &out) {
                self.fail("runtime", "bool", op, &a.to_string(), &b.to_string(), &why);
            }
        }
        if BOOL_ASSIGN.contains(&op) {
            if let Some(f) = self.funcs.get(&format!("bool as {op}"), || {
                format!("(a: bool, b: bool) -> (bool, bool) {{ c := mut a; r := c {op}= b; return (r, *c) }}")
            }) {
                let out = call(&f, vec![Variable::Bool(a), Variable::Bool(b)]);
                self.rep.evaluations += 1;
                self.rep.count("form_assign");
                let ok = match (&exp, &out) {
                    (e, Outcome::Value(Variable::Tuple(t))) if t.len() == 2 => same(e, &t[0]) && same(e, &t[1]),
                    _ => false,
                };
                if !ok {
                    self.fail("assign", "bool", op, &a.to_string(), &b.to_string(),
                        &format!("expected ({exp:?}, same) got {}", describe(&out)));
                }
            }
        }
    }

    fn check_bool_not(&mut self, a: bool) {
        let exp = Exp::Bool(!a);
        self.rep.distinct_case(&("boolnot", a));
        let out = real::parse_exec(&format!("!{a}"), false);
        self.rep.evaluations += 1;
        if let Err(why) = judge(&exp, &out) {
            self.fail("literal", "bool", "unary!", &a.to_string(), "", &why);
        }
        if let Some(f) = self
            .funcs
            .get("bool un !", || "(a: bool) -> bool { return !a }".to_string())
        {
            let out = call(&f, vec![Variable::Bool(a)]);
            self.rep.evaluations += 1;
            if let Err(why) = judge(&exp, &out) {
                self.fail("runtime", "bool", "unary!", &a.to_string(), "", &why);
            }
        }
    }
}

impl Ctx<'_> {
    /// bool-valued compounds over comparisons (`!(a < b)`, `!(!(a <= b))`, `(a < b) == (b > a)`, `(a < b) || (a >= b)` ...):
    /// with a NaN operand a negated comparison is not the opposite comparison, and `<` / `>=` are not complements
    fn check_comparison_compounds(&mut self, ty: &str, a: Variable, b: Variable, la: Option<String>, lb: Option<String>, cmp: &dyn Fn(&str) -> bool) {
        let ops = ["==", "!=", "<", "<=", ">", ">="];
        let shown = (format!("{a:?}"), format!("{b:?}"));
        for op in ops {
            let r = cmp(op);
            let mut cases: Vec<(String, bool)> = vec![
                (format!("!(a {op} b)"), !r),
                (format!("!(!(a {op} b))"), r),
                (format!("(a {op} b) == true"), r),
                (format!("false == (a {op} b)"), !r),
                (format!("(a {op} b) != (a {op} b)"), false),
                (format!("!(a {op} b) && !(b {op} a)"), !r && !{
                    // b op a
                    let swapped = match op { "<" => ">", "<=" => ">=", ">" => "<", ">=" => "<=", o => o };
                    cmp(swapped)
                }),
            ];
            for op2 in ops {
                let r2 = cmp(op2);
                cases.push((format!("(a {op} b) || (a {op2} b)"), r || r2));
                cases.push((format!("(a {op} b) && (a {op2} b)"), r && r2));
                cases.push((format!("(a {op} b) ^ (a {op2} b)"), r ^ r2));
                cases.push((format!("(a {op} b) == (a {op2} b)"), r == r2));
            }
            for (text, want) in cases {
                let exp = Exp::Bool(want);
                if let Some(f) = self.funcs.get(&format!("{ty} cmpx {text}"), || format!("(a: {ty}, b: {ty}) -> bool {{ return {text} }}")) {
                    let out = call(&f, vec![a.clone(), b.clone()]);
                    self.rep.evaluations += 1;
                    self.rep.count("form_comparison_compound");
                    if let Err(why) = judge(&exp, &out) {
                        self.fail("comparison-compound", ty, &truncate(&text, 40), &shown.0, &shown.1, &format!("{why} [(a: {ty}, b: {ty}) -> bool {{ return {text} }}]"));
                    }
                }
                // a read from a cell on the left, a constant on the right (and the other way round), and all constant
                if let (Some(la), Some(lb)) = (&la, &lb) {
                    for (form, src) in [
                        ("comparison-compound-cell", format!("ca := mut {la}; b := {lb}; {}", {
                            // every standalone identifier `a` becomes a read of the cell
                            let mut out = String::new();
                            let mut word = String::new();
                            for ch in text.chars().chain(std::iter::once(' ')) {
                                if ch.is_ascii_alphabetic() {
                                    word.push(ch);
                                } else {
                                    if word == "a" {
                                        out.push_str("(*ca)");
                                    } else {
                                        out.push_str(&word);
                                    }
                                    word.clear();
                                    out.push(ch);
                                }
                            }
                            out
                        })),
                        ("comparison-compound-constant", format!("a := {la}; b := {lb}; {text}")),
                    ] {
                        if self.half {
                            let out = real::parse_exec(&src, false);
                            self.rep.evaluations += 1;
                            self.rep.count("form_comparison_compound");
                            if let Err(why) = judge(&exp, &out) {
                                self.fail(form, ty, &truncate(&text, 40), &shown.0, &shown.1, &format!("{why} [{src}]"));
                            }
                        }
                    }
                }
            }
        }
    }
}

fn random_int(rng: &mut Rng, op: &str) -> (i64, i64) {
    let a = match rng.below(3) {
        0 => *rng.pick(&INT_BOUNDARY),
        1 => rng.next() as i64,
        _ => rng.int(),
    };
    let b = match op {
        "**" => match rng.below(6) {
            0 => rng.next() as i64,
            1 => *rng.pick(&INT_BOUNDARY),
            2 => rng.range(0, 70),
            3 => (rng.next() >> rng.below(40)) as i64 & i64::MAX,
            _ => rng.range(-3, 300),
        },
        "<<" | ">>" => match rng.below(4) {
            0 => rng.next() as i64,
            1 => *rng.pick(&INT_BOUNDARY),
            _ => rng.range(-3, 67),
        },
        _ => match rng.below(4) {
            0 => *rng.pick(&INT_BOUNDARY),
            1 => rng.next() as i64,
            2 => rng.range(-3, 3),
            _ => rng.int(),
        },
    };
    (a, b)
}

pub fn run(cfg: &Cfg, rep: &mut Report) {
    let deadline = Deadline::new(cfg.budget_s);
    let mut ctx = Ctx {
        rep,
        funcs: Funcs { map: HashMap::new(), rejected: Vec::new() },
        half: true,
    };
    // exhaustive boundary grid, split over shards by cell index
    let mut cell = 0u64;
    for op in INT_BIN {
        for a in INT_BOUNDARY {
            for b in INT_BOUNDARY {
                cell += 1;
                if cfg.owns(cell) {
                    ctx.check_int(op, a, b);
                }
            }
        }
    }
    for op in ["-", "!"] {
        for a in INT_BOUNDARY {
            cell += 1;
            if cfg.owns(cell) {
                ctx.check_int_unary(op, a);
            }
        }
    }
    for op in FLOAT_BIN {
        for a in FLOAT_BOUNDARY {
            for b in FLOAT_BOUNDARY {
                cell += 1;
                if cfg.owns(cell) {
                    ctx.check_float(op, a, b);
                }
            }
        }
    }
    for a in FLOAT_BOUNDARY {
        cell += 1;
        if cfg.owns(cell) {
            ctx.check_float_unary(a);
        }
    }
    for op in BOOL_BIN {
        for a in [false, true] {
            for b in [false, true] {
                cell += 1;
                if cfg.owns(cell) {
                    ctx.check_bool(op, a, b);
                }
            }
        }
    }
    if cfg.shard == 0 {
        ctx.check_bool_not(true);
        ctx.check_bool_not(false);
    }
    ctx.rep.add("grid_cells_total", cell);
    ctx.rep.count("grid_complete_shards");
    // random operands
    let n = cfg.per_shard(1_500_000, 80_000_000);
    let mut rng = cfg.rng(8);
    let mut done = 0u64;
    for i in 0..n {
        if i % 512 == 0 && deadline.over() {
            break;
        }
        ctx.half = i % 16 == 0;
        match rng.below(10) {
            0..=6 => {
                let op = *rng.pick(&INT_BIN);
                let (a, b) = random_int(&mut rng, op);
                let b = if rng.chance(1, 12) { a } else { b };
                ctx.check_int(op, a, b);
            }
            7 => {
                let op = *rng.pick(&["-", "!"]);
                let a = rng.next() as i64;
                ctx.check_int_unary(op, a);
            }
            _ => {
                let op = *rng.pick(&FLOAT_BIN);
                let (a, b) = (rng.float(), rng.float());
                let b = if rng.chance(1, 12) { a } else { b };
                ctx.check_float(op, a, b);
                if rng.chance(1, 8) {
                    ctx.check_float_unary(a);
                }
            }
        }
        done += 1;
    }
    ctx.rep.add("random_cases", done);
    // two-level expressions over a smaller grid (and random operands)
    let ints: [i64; 14] = [0, 1, -1, 2, -2, 3, 7, 63, 64, i64::MAX, i64::MIN, i64::MAX - 1, i64::MIN + 1, 1 << 32];
    let floats: [f64; 18] = [0.0, -0.0, 1.0, -1.0, 1.5, -2.5, 5e-324, f64::MAX, f64::INFINITY, f64::NEG_INFINITY, f64::NAN, 1e-300, 0.1, 0.3, 1e16, -1e16, 9007199254740992.0, -1.7e308];
    let mut cell2 = 0u64;
    for x in int_compounds() {
        for a in ints {
            for b in ints {
                cell2 += 1;
                if cfg.owns(cell2) {
                    ctx.check_int_compound(&x, a, b);
                }
            }
        }
    }
    for x in float_compounds() {
        for a in floats {
            for b in floats {
                cell2 += 1;
                if cfg.owns(cell2) {
                    ctx.check_float_compound(&x, a, b);
                }
            }
        }
    }
    for (o1, o2) in [("+", "+"), ("+", "-"), ("-", "-"), ("*", "*"), ("*", "/"), ("/", "/"), ("+", "*")] {
        for (c1, c2) in [(0.1f64, 0.2f64), (1e16, -1e16), (1.0, 1e-16), (1.7e308, 1.7e308), (3.0, 0.1), (1e308, 10.0)] {
            for a in floats {
                cell2 += 1;
                if cfg.owns(cell2) {
                    ctx.check_float_assign_chain(o1, c1, o2, c2, a);
                }
            }
        }
    }
    // bool-valued compounds over comparisons on the same small grids
    ctx.half = true;
    for a in floats {
        for b in floats {
            cell2 += 1;
            if cfg.owns(cell2) {
                let cmp = |op: &str| match op {
                    "==" => a == b,
                    "!=" => a != b,
                    "<" => a < b,
                    "<=" => a <= b,
                    ">" => a > b,
                    _ => a >= b,
                };
                ctx.check_comparison_compounds("float", Variable::Float(a), Variable::Float(b), Some(crate::ast::float_text(a)), Some(crate::ast::float_text(b)), &cmp);
            }
        }
    }
    for a in ints {
        for b in ints {
            cell2 += 1;
            if cfg.owns(cell2) {
                let cmp = |op: &str| match op {
                    "==" => a == b,
                    "!=" => a != b,
                    "<" => a < b,
                    "<=" => a <= b,
                    ">" => a > b,
                    _ => a >= b,
                };
                ctx.check_comparison_compounds("int", Variable::Int(a), Variable::Int(b), Some(int_lit(a)), Some(int_lit(b)), &cmp);
            }
        }
    }
    ctx.report_rejected_helpers();
}

/// two-level expressions over the run-time operands `a`, `b` and literal constants: the folding pass sees an operator
/// applied to the result of another operator (peephole rewrites live here)
#[derive(Clone, Debug)]
enum X {
    A,
    B,
    K(i64),
    Kf(f64),
    Un(&'static str, Box<X>),
    Bin(&'static str, Box<X>, Box<X>),
}

impl X {
    fn text(&self) -> String {
        match self {
            X::A => "a".into(),
            X::B => "b".into(),
            X::K(k) => int_lit(*k),
            X::Kf(k) => float_lit(*k).unwrap_or_else(|| "0.0".into()),
            X::Un(op, x) => format!("{op}({})", x.text()),
            X::Bin(op, l, r) => format!("({} {op} {})", l.text(), r.text()),
        }
    }
    fn int(&self, a: i64, b: i64) -> Exp {
        match self {
            X::A => Exp::Int(a),
            X::B => Exp::Int(b),
            X::K(k) => Exp::Int(*k),
            X::Kf(_) => unreachable!(),
            X::Un(op, x) => match x.int(a, b) {
                Exp::Int(v) => int_unary_oracle(op, v),
                e => e,
            },
            X::Bin(op, l, r) => match (l.int(a, b), r.int(a, b)) {
                (Exp::Int(x), Exp::Int(y)) => int_oracle(op, x, y),
                (Exp::Int(_), e) | (e, _) => e,
            },
        }
    }
    fn float(&self, a: f64, b: f64) -> f64 {
        match self {
            X::A => a,
            X::B => b,
            X::Kf(k) => *k,
            X::K(_) => unreachable!(),
            X::Un(_, x) => -x.float(a, b),
            X::Bin(op, l, r) => match float_oracle(op, l.float(a, b), r.float(a, b)) {
                Exp::Float(v) => v,
                _ => f64::NAN,
            },
        }
    }
}

fn int_compounds() -> Vec<X> {
    let (a, b) = (|| Box::new(X::A), || Box::new(X::B));
    let k = |v: i64| Box::new(X::K(v));
    let bin = |op: &'static str, l: Box<X>, r: Box<X>| Box::new(X::Bin(op, l, r));
    let mut out = Vec::new();
    for op in ["-", "+", "*", "&", "|", "^"] {
        out.push(X::Un("-", bin(op, a(), b())));
        out.push(X::Un("!", bin(op, a(), b())));
        out.push(X::Un("-", bin(op, b(), a())));
        for c in [0i64, 1, -1, 2, i64::MAX, i64::MIN] {
            out.push(X::Bin(op, bin(op, a(), k(c)), k(c)));
            out.push(X::Bin(op, k(c), bin(op, k(c), a())));
            out.push(X::Bin(op, bin(op, a(), k(c)), b()));
        }
    }
    for (k1, k2) in [(0i64, 0i64), (1, 1), (31, 32), (32, 32), (40, 40), (63, 1), (1, 63), (63, 63), (0, 63), (62, 1), (5, 60)] {
        for (o1, o2) in [("<<", "<<"), (">>", ">>"), ("<<", ">>"), (">>", "<<")] {
            out.push(X::Bin(o2, bin(o1, a(), k(k1)), k(k2)));
        }
    }
    for (o1, o2) in [("-", "-"), ("-", "+"), ("+", "-"), ("*", "/"), ("/", "*"), ("*", "%"), ("/", "/"), ("%", "%"), ("**", "**"), ("*", "**"), ("-", "*"), ("&", "|"), ("|", "&"), ("^", "^")] {
        out.push(X::Bin(o2, bin(o1, a(), b()), a()));
        out.push(X::Bin(o2, a(), bin(o1, a(), b())));
        out.push(X::Bin(o2, bin(o1, a(), b()), bin(o1, b(), a())));
        for c in [0i64, 1, -1, 2, 3] {
            out.push(X::Bin(o2, bin(o1, a(), k(c)), k(c)));
            out.push(X::Bin(o2, bin(o1, a(), k(c)), b()));
        }
    }
    out.push(X::Un("-", Box::new(X::Un("-", a()))));
    out.push(X::Un("!", Box::new(X::Un("!", a()))));
    out.push(X::Un("-", Box::new(X::Un("!", a()))));
    // a constant right operand that makes its operator fail whatever the left one is gets reported while parsing
    out.retain(|x| {
        let t = x.text();
        !(t.contains("/ 0)") || t.contains("% 0)") || t.contains("** (-1))"))
    });
    out
}

fn float_compounds() -> Vec<X> {
    let (a, b) = (|| Box::new(X::A), || Box::new(X::B));
    let k = |v: f64| Box::new(X::Kf(v));
    let bin = |op: &'static str, l: Box<X>, r: Box<X>| Box::new(X::Bin(op, l, r));
    let mut out = Vec::new();
    for op in ["-", "+", "*", "/"] {
        out.push(X::Un("-", bin(op, a(), b())));
        out.push(X::Un("-", bin(op, b(), a())));
        out.push(X::Un("-", Box::new(X::Un("-", bin(op, a(), b())))));
        for c in [0.0f64, -0.0, 1.0, -1.0, 2.0, 0.5] {
            out.push(X::Bin(op, bin(op, a(), k(c)), k(c)));
            out.push(X::Bin(op, k(c), bin(op, k(c), a())));
            out.push(X::Un("-", bin(op, a(), k(c))));
            out.push(X::Un("-", bin(op, k(c), a())));
        }
    }
    for (o1, o2) in [("-", "-"), ("-", "+"), ("+", "-"), ("*", "/"), ("/", "*"), ("/", "/"), ("-", "*"), ("*", "-"), ("+", "+"), ("*", "*")] {
        out.push(X::Bin(o2, bin(o1, a(), b()), a()));
        out.push(X::Bin(o2, a(), bin(o1, a(), b())));
        out.push(X::Bin(o2, bin(o1, a(), b()), bin(o1, b(), a())));
    }
    // two constants next to one run-time operand: float arithmetic is not associative, so the constants must not be
    // combined with each other first (nor moved across the operand)
    for (o1, o2) in [("+", "+"), ("+", "-"), ("-", "+"), ("-", "-"), ("*", "*"), ("*", "/"), ("/", "*"), ("/", "/"), ("+", "*"), ("*", "+")] {
        for (c1, c2) in [(0.1f64, 0.2f64), (0.2, 0.3), (1e16, -1e16), (1.0, 1e-16), (1.7e308, 1.7e308), (1.7e308, -1.7e308), (3.0, 0.1), (1e-320, 1e10), (0.7, 0.1), (1e308, 10.0)] {
            out.push(X::Bin(o2, bin(o1, a(), k(c1)), k(c2)));
            out.push(X::Bin(o2, k(c1), bin(o1, k(c2), a())));
            out.push(X::Bin(o2, bin(o1, k(c1), a()), k(c2)));
            out.push(X::Bin(o2, k(c1), bin(o1, a(), k(c2))));
        }
    }
    out.push(X::Un("-", Box::new(X::Un("-", a()))));
    out
}

impl Ctx<'_> {
    /// `c := mut a; c o1= k1; c o2= k2`: two compound assignments in a row are two operations, in that order
    fn check_float_assign_chain(&mut self, o1: &str, k1: f64, o2: &str, k2: f64, a: f64) {
        let (Some(l1), Some(l2)) = (float_lit(k1), float_lit(k2)) else { return };
        let step = |op: &str, x: f64, y: f64| match float_oracle(op, x, y) {
            Exp::Float(v) => v,
            _ => f64::NAN,
        };
        let exp = Exp::Float(step(o2, step(o1, a, k1), k2));
        let text = format!("(a: float) -> float {{ c := mut a; c {o1}= {l1}; c {o2}= {l2}; return *c }}");
        self.rep.distinct_case(&("floatchain", &text, a.to_bits()));
        if let Some(f) = self.funcs.get(&format!("floatchain {text}"), || text.clone()) {
            let out = call(&f, vec![Variable::Float(a)]);
            self.rep.evaluations += 1;
            self.rep.count("form_assign_chain");
            if let Err(why) = judge(&exp, &out) {
                self.fail("assign-chain", "float", &format!("{o1}= {o2}="), &format!("{a:?}"), &format!("{k1:?},{k2:?}"), &format!("{why} [{text}]"));
            }
        }
    }

    fn check_int_compound(&mut self, x: &X, a: i64, b: i64) {
        let text = x.text();
        let exp = x.int(a, b);
        self.rep.distinct_case(&("intx", &text, a, b));
        if let Some(f) = self.funcs.get(&format!("intx {text}"), || format!("(a: int, b: int) -> int {{ return {text} }}")) {
            let out = call(&f, vec![Variable::Int(a), Variable::Int(b)]);
            self.rep.evaluations += 1;
            self.rep.count("form_compound");
            if let Err(why) = judge(&exp, &out) {
                self.fail("compound", "int", &truncate(&text, 40), &a.to_string(), &b.to_string(), &format!("{why} [{text}]"));
            }
        }
    }

    fn check_float_compound(&mut self, x: &X, a: f64, b: f64) {
        let text = x.text();
        let exp = Exp::Float(x.float(a, b));
        self.rep.distinct_case(&("floatx", &text, a.to_bits(), b.to_bits()));
        if let Some(f) = self.funcs.get(&format!("floatx {text}"), || format!("(a: float, b: float) -> float {{ return {text} }}")) {
            let out = call(&f, vec![Variable::Float(a), Variable::Float(b)]);
            self.rep.evaluations += 1;
            self.rep.count("form_compound");
            if let Err(why) = judge(&exp, &out) {
                self.fail("compound", "float", &truncate(&text, 40), &format!("{a:?}"), &format!("{b:?}"), &format!("{why} [{text}]"));
            }
        }
    }

    fn report_rejected_helpers(&mut self) {
        for (key, text, why) in std::mem::take(&mut self.funcs.rejected) {
            self.rep.violation(
                &format!("c08:operator-form-rejected:{key}"),
                &format!("`{text}` applies an operator to operands of its documented types but is not accepted: {}", truncate(&why, 160)),
                "c08",
                &format!("HELPER\t{key}\t{text}"),
            );
        }
    }
}

pub fn replay(payload: &str, rep: &mut Report) {
    let mut ctx = Ctx {
        rep,
        funcs: Funcs { map: HashMap::new(), rejected: Vec::new() },
        half: true,
    };
    for line in payload.lines() {
        let f: Vec<&str> = line.split('\t').collect();
        if f.len() == 3 && f[0] == "HELPER" {
            let text = f[2].to_string();
            ctx.rep.evaluations += 1;
            let _ = ctx.funcs.get(f[1], || text);
            ctx.report_rejected_helpers();
            continue;
        }
        if f.len() < 5 {
            continue;
        }
        let op = f[2];
        match f[0] {
            "int" => {
                let a: i64 = f[3].parse().unwrap_or(0);
                if let Some(u) = op.strip_prefix("unary") {
                    ctx.check_int_unary(u, a);
                } else {
                    ctx.check_int(op, a, f[4].parse().unwrap_or(0));
                }
            }
            "float" => {
                let a: f64 = f[3].parse().unwrap_or(0.0);
                if op.starts_with("unary") {
                    ctx.check_float_unary(a);
                } else {
                    ctx.check_float(op, a, f[4].parse().unwrap_or(0.0));
                }
            }
            "bool" => {
                let a = f[3] == "true";
                if op.starts_with("unary") {
                    ctx.check_bool_not(a);
                } else {
                    ctx.check_bool(op, a, f[4] == "true");
                }
            }
            _ => {}
        }
    }
}
