//! C09 indexing, slicing and len against a Python-slice oracle, folded and at run time.
use crate::oracle::{Ty, canon, inhabits_why};
use crate::props::c08::int_lit;
use crate::real::{self, ErrKind, Outcome};
use crate::util::{Cfg, Deadline, Obj, Report};
use simplesl::{
    Code, Interpreter,
    function::Function,
    variable::{ReturnType, Type, Typed, Variable},
};
use std::collections::HashMap;
use std::sync::Arc;

const HALF_PRELUDE: &str = "id := (v: any) -> any { return v }; hi := (v: int) -> int { return v }; ida := (v: [any]) -> [any] { return v }; ids := (v: string) -> string { return v }; ";

#[derive(Clone)]
pub enum Seq {
    Arr(Vec<Variable>, String),
    Str(Vec<char>),
}

impl Seq {
    fn len(&self) -> usize {
        match self {
            Seq::Arr(v, _) => v.len(),
            Seq::Str(c) => c.len(),
        }
    }
    fn literal(&self) -> String {
        match self {
            Seq::Arr(_, text) => text.clone(),
            Seq::Str(c) => format!("\"{}\"", c.iter().collect::<String>()),
        }
    }
    fn value(&self) -> Variable {
        match self {
            Seq::Arr(v, _) => Variable::from(v.clone()),
            Seq::Str(c) => Variable::String(Arc::from(c.iter().collect::<String>())),
        }
    }
    /// the array literal with its first element behind an identity call (None for strings and empty arrays)
    fn partly_hidden(&self) -> Option<String> {
        match self {
            Seq::Arr(v, text) if !v.is_empty() => {
                let inner = text.trim().strip_prefix('[')?.strip_suffix(']')?;
                // split off the first element at the first top-level comma
                let mut depth = 0i32;
                let mut in_str = false;
                let mut cut = inner.len();
                for (i, ch) in inner.char_indices() {
                    match ch {
                        '"' => in_str = !in_str,
                        '[' | '(' | '{' if !in_str => depth += 1,
                        ']' | ')' | '}' if !in_str => depth -= 1,
                        ',' if !in_str && depth == 0 => {
                            cut = i;
                            break;
                        }
                        _ => {}
                    }
                }
                Some(format!("[id({}){}]", &inner[..cut], &inner[cut..]))
            }
            _ => None,
        }
    }
    fn kind(&self) -> &'static str {
        match self {
            Seq::Arr(..) => "array",
            Seq::Str(_) => "string",
        }
    }
    fn select(&self, idx: &[usize]) -> Variable {
        match self {
            Seq::Arr(v, _) => Variable::from(idx.iter().map(|i| v[*i].clone()).collect::<Vec<_>>()),
            Seq::Str(c) => Variable::String(Arc::from(idx.iter().map(|i| c[*i]).collect::<String>())),
        }
    }
    fn elem(&self, i: usize) -> Variable {
        match self {
            Seq::Arr(v, _) => v[i].clone(),
            Seq::Str(c) => Variable::String(Arc::from(c[i].to_string())),
        }
    }
}

fn arr(text: &str) -> Seq {
    // element values are obtained from the harness's own reading of the literal, not from the crate
    let v = parse_lit(text.trim());
    match v {
        Variable::Array(a) => Seq::Arr(a.iter().cloned().collect(), text.to_string()),
        _ => panic!("bad harness literal {text}"),
    }
}

/// tiny literal reader for the harness's own sequence table (ints, floats, strings without escapes,
/// bools, (), nested arrays and tuples)
pub fn parse_lit(s: &str) -> Variable {
    fn split_top(s: &str) -> Vec<&str> {
        let mut out = Vec::new();
        let (mut depth, mut start, mut in_str) = (0i32, 0usize, false);
        for (i, c) in s.char_indices() {
            match c {
                '"' => in_str = !in_str,
                '[' | '(' if !in_str => depth += 1,
                ']' | ')' if !in_str => depth -= 1,
                ',' if !in_str && depth == 0 => {
                    out.push(s[start..i].trim());
                    start = i + 1;
                }
                _ => {}
            }
        }
        let last = s[start..].trim();
        if !last.is_empty() {
            out.push(last);
        }
        out
    }
    let s = s.trim();
    if s == "()" {
        return Variable::Void;
    }
    if s == "true" || s == "false" {
        return Variable::Bool(s == "true");
    }
    if let Some(inner) = s.strip_prefix('[').and_then(|r| r.strip_suffix(']')) {
        return Variable::from(split_top(inner).into_iter().map(parse_lit).collect::<Vec<_>>());
    }
    if let Some(inner) = s.strip_prefix('(').and_then(|r| r.strip_suffix(')')) {
        return Variable::Tuple(split_top(inner).into_iter().map(parse_lit).collect());
    }
    if let Some(inner) = s.strip_prefix('"').and_then(|r| r.strip_suffix('"')) {
        return Variable::String(Arc::from(inner));
    }
    if s.contains('.') {
        return Variable::Float(s.parse().unwrap());
    }
    Variable::Int(s.parse().unwrap())
}

pub fn sequences(thorough: bool) -> Vec<Seq> {
    let mut v = vec![
        arr("[]"),
        arr("[7]"),
        arr("[1, 2]"),
        arr("[1, 2, 3]"),
        arr("[1, 2.5, \"x\"]"),
        arr("[[1], [2, 3]]"),
        arr("[(1, 2), (3, 4), (5, 6)]"),
        arr("[true]"),
        arr("[(), ()]"),
        Seq::Str("".chars().collect()),
        Seq::Str("a".chars().collect()),
        Seq::Str("ab".chars().collect()),
        Seq::Str("abc".chars().collect()),
        Seq::Str("héy".chars().collect()),
        Seq::Str("日本語".chars().collect()),
        Seq::Str("🦀a".chars().collect()),
        Seq::Str("e\u{301}x".chars().collect()),
    ];
    if thorough {
        v.extend([
            arr("[1, 2, 3, 4]"),
            arr("[1, 2, 3, 4, 5]"),
            arr("[\"a\", 2, [3], (4, 5), 6.5]"),
            arr("[[], [1], [1, 2], [1, 2, 3]]"),
            Seq::Str("abcd".chars().collect()),
            Seq::Str("abcde".chars().collect()),
            Seq::Str("ßü€𝄞".chars().collect()),
            Seq::Str("🦀a🦀b🦀".chars().collect()),
        ]);
    }
    v
}

/// Python's slice semantics (PySlice_AdjustIndices) over i128; step 0 selects nothing
pub fn py_slice(n: usize, start: Option<i64>, stop: Option<i64>, step: Option<i64>) -> Vec<usize> {
    let n = n as i128;
    let step = step.unwrap_or(1) as i128;
    if step == 0 {
        return Vec::new();
    }
    let adjust = |v: Option<i64>, default: i128| -> i128 {
        match v {
            None => default,
            Some(v) => {
                let mut v = v as i128;
                if v < 0 {
                    v += n;
                    if v < 0 {
                        v = if step < 0 { -1 } else { 0 };
                    }
                } else if v >= n {
                    v = if step < 0 { n - 1 } else { n };
                }
                v
            }
        }
    };
    let (start, stop) = if step > 0 {
        (adjust(start, 0), adjust(stop, n))
    } else {
        (adjust(start, n - 1), adjust(stop, -1))
    };
    let mut out = Vec::new();
    let mut i = start;
    while (step > 0 && i < stop) || (step < 0 && i > stop) {
        out.push(i as usize);
        i += step;
    }
    out
}

fn index_oracle(n: usize, i: i64) -> Option<usize> {
    let n = n as i128;
    let i = i as i128;
    if i >= 0 && i < n {
        Some(i as usize)
    } else if i < 0 && i >= -n {
        Some((n + i) as usize)
    } else {
        None
    }
}

fn slice_text(a: Option<i64>, b: Option<i64>, c: Option<i64>, two_colons: bool) -> String {
    let f = |v: Option<i64>| v.map(int_lit).unwrap_or_default();
    if c.is_some() || two_colons {
        format!("[{}:{}:{}]", f(a), f(b), f(c))
    } else {
        format!("[{}:{}]", f(a), f(b))
    }
}

fn shape_name(a: Option<i64>, b: Option<i64>, c: Option<i64>) -> String {
    format!(
        "{}{}{}",
        if a.is_some() { "a" } else { "_" },
        if b.is_some() { "b" } else { "_" },
        if c.is_some() { "c" } else { "_" }
    )
}

fn index_values(n: usize) -> Vec<i64> {
    let n = n as i64;
    let mut v: Vec<i64> = (-n - 2..=n + 2).collect();
    v.extend([
        i64::MIN,
        i64::MIN + 1,
        -(1 << 32),
        -(1 << 31),
        1 << 31,
        1 << 32,
        i64::MAX - 1,
        i64::MAX,
    ]);
    v
}

struct Ctx<'a> {
    rep: &'a mut Report,
    funcs: HashMap<String, Option<Arc<Function>>>,
    std_interp: Interpreter<'static>,
}

impl Ctx<'_> {
    fn func(&mut self, key: &str, text: &str) -> Option<Arc<Function>> {
        if let Some(f) = self.funcs.get(key) {
            return f.clone();
        }
        let interp = Interpreter::with_stdlib();
        let r = real::guarded(|| Code::parse(&interp, text).map(|c| c.exec()));
        let f = match r {
            Ok(Ok(Ok(Variable::Function(f)))) => Some(f),
            other => {
                let why = format!("{:?}", other.map(|r| r.map(|r| r.map(|v| v.to_string()))));
                self.rep.notes.push(format!("helper function not accepted: {text}: {why}"));
                // the typed slice helpers have a documented fallback (result `any`); every other helper indexes /
                // slices / measures a sequence of its documented type: a refusal is a violation
                if !key.starts_with("slice ") || key.ends_with(" any") {
                    self.rep.violation(&format!("c09:operator-form-rejected:{key}"), &format!("`{text}` is not accepted: {}", crate::util::truncate(&why, 160)), "c09", text);
                }
                None
            }
        };
        self.funcs.insert(key.into(), f.clone());
        f
    }

    fn fail(&mut self, seq: &Seq, form: &str, op: &str, expr: &str, why: &str) {
        let key = format!("c09:{}:{form}:{op}", seq.kind());
        self.rep.violation(&key, &format!("{expr} ({form}): {why}"), "c09", expr);
    }

    fn judge_value(&mut self, seq: &Seq, form: &str, op: &str, expr: &str, expected: &Result<Variable, ErrKind>, out: &Outcome) {
        match (expected, out) {
            (Ok(e), Outcome::Value(v)) => {
                if canon(e) != canon(v) {
                    self.fail(seq, form, op, expr, &format!("expected {} got {}", canon(e), canon(v)));
                }
            }
            (Err(k), Outcome::ExecErr(Some(g), _)) | (Err(k), Outcome::Rejected(_, Some(g))) if k == g => {}
            (e, Outcome::Panic(p)) if p.kind == real::PanicKind::Panic => {
                let key = format!("c09:{}:{form}:{op}:panic:{}", seq.kind(), p.site());
                self.rep.violation(
                    &key,
                    &format!("{expr} ({form}): expected {} but it panicked at {}: {}", show(e), p.site(), p.short_msg()),
                    "c09",
                    expr,
                );
            }
            (_, Outcome::Panic(_)) => self.rep.inconclusive("resource-or-fuel"),
            (e, o) => {
                self.fail(seq, form, op, expr, &format!("expected {} got {}", show(e), o.tag()));
            }
        }
    }

    /// literal form: parse `expr` with stdlib, check value and that the static type admits the value
    fn literal(&mut self, seq: &Seq, op: &str, expr: &str, expected: &Result<Variable, ErrKind>) {
        self.rep.evaluations += 1;
        self.rep.count("form_literal");
        let parsed = real::guarded(|| Code::parse(&self.std_interp, expr));
        let code = match parsed {
            Err(p) => {
                let out = Outcome::Panic(p);
                self.judge_value(seq, "literal", op, expr, expected, &out);
                return;
            }
            Ok(Err(e)) => {
                let out = Outcome::Rejected(real::error_variant(&e), real::parse_err_kind(&e));
                self.judge_value(seq, "literal", op, expr, expected, &out);
                return;
            }
            Ok(Ok(c)) => c,
        };
        let static_type = real::guarded(|| code.return_type()).ok();
        let out = real::exec_code(&code, real::DEFAULT_FUEL);
        if let (Some(st), Outcome::Value(v)) = (&static_type, &out) {
            let ty = Ty::from_real(st);
            self.rep.count("static_type_checks");
            if let Some(why) = inhabits_why(v, &ty) {
                self.fail(seq, "literal", &format!("{op}:static-type"), expr,
                    &format!("static type {} does not admit the value {}: {why}", ty.text(), canon(v)));
            } else if !real::guarded(|| v.as_type().matches(st)).unwrap_or(true) {
                self.fail(seq, "literal", &format!("{op}:static-type-tag"), expr,
                    &format!("runtime type {} does not match static type {}", Ty::from_real(&v.as_type()).text(), ty.text()));
            }
        }
        self.judge_value(seq, "literal", op, expr, expected, &out);
    }

    fn runtime(&mut self, seq: &Seq, op: &str, fkey: &str, ftext: &str, args: Vec<Variable>, expr: &str, expected: &Result<Variable, ErrKind>) {
        let Some(f) = self.func(fkey, ftext) else {
            self.rep.inconclusive("helper-function-rejected");
            return;
        };
        self.rep.evaluations += 1;
        self.rep.count("form_runtime");
        let out = match real::guarded(|| f.clone().create_call(args)) {
            Err(p) => Outcome::Panic(p),
            Ok(Err(e)) => Outcome::Rejected(real::error_variant(&e), real::parse_err_kind(&e)),
            Ok(Ok(code)) => {
                let o = real::exec_code(&code, real::DEFAULT_FUEL);
                if let Outcome::Value(v) = &o {
                    // the declared result type of the helper must admit what it returned
                    let declared = Ty::from_real(&f.return_type());
                    if let Some(why) = inhabits_why(v, &declared) {
                        self.fail(seq, "runtime", &format!("{op}:declared-type"), expr,
                            &format!("function declared to return {} returned {}: {why}", declared.text(), canon(v)));
                    }
                }
                o
            }
        };
        self.judge_value(seq, "runtime", op, &format!("{expr} via {ftext}"), expected, &out);
    }

    fn check_index(&mut self, seq: &Seq, i: i64) {
        let expected = match index_oracle(seq.len(), i) {
            Some(p) => Ok(seq.elem(p)),
            None => Err(ErrKind::Index),
        };
        self.rep.distinct_case(&("index", seq.literal(), i));
        self.rep.shape("index_cells", &format!("{} n={} {}", seq.kind(), seq.len(), if expected.is_ok() { "in-range" } else { "out-of-range" }));
        let expr = format!("{}[{}]", seq.literal(), int_lit(i));
        self.literal(seq, "index", &expr, &expected);
        // half-constant forms: the folding pass sees one side only
        if let Some(part) = seq.partly_hidden() {
            self.literal(seq, "index:hidden-element", &format!("{HALF_PRELUDE}{part}[{}]", int_lit(i)), &expected);
        }
        self.literal(seq, "index:hidden-sequence", &format!("{HALF_PRELUDE}{}({})[{}]", if seq.kind() == "array" { "ida" } else { "ids" }, seq.literal(), int_lit(i)), &expected);
        self.literal(seq, "index:hidden-index", &format!("{HALF_PRELUDE}{}[hi({})]", seq.literal(), int_lit(i)), &expected);
        let (pt, rt) = match seq {
            Seq::Arr(..) => ("[any]", "any"),
            Seq::Str(_) => ("string", "string"),
        };
        let ftext = format!("(s: {pt}, i: int) -> {rt} {{ return s[i] }}");
        self.runtime(seq, "index", &format!("idx {pt}"), &ftext, vec![seq.value(), Variable::Int(i)], &expr, &expected);
        // the sequence seen through a union of a string and an array type
        let ftext = "(s: [any]|string, i: int) -> any { return s[i] }";
        self.runtime(seq, "index:union-view", "idx union", ftext, vec![seq.value(), Variable::Int(i)], &expr, &expected);
    }

    fn check_slice(&mut self, seq: &Seq, a: Option<i64>, b: Option<i64>, c: Option<i64>, two_colons: bool) {
        let idx = py_slice(seq.len(), a, b, c);
        let expected = Ok(seq.select(&idx));
        let shape = shape_name(a, b, c);
        self.rep.distinct_case(&("slice", seq.literal(), a, b, c, two_colons));
        self.rep.shape("slice_shapes", &format!("{} {shape}{}", seq.kind(), if two_colons { ":" } else { "" }));
        let expr = format!("{}{}", seq.literal(), slice_text(a, b, c, two_colons));
        self.literal(seq, &format!("slice:{shape}"), &expr, &expected);
        if let Some(part) = seq.partly_hidden() {
            self.literal(seq, &format!("slice:{shape}:hidden-element"), &format!("{HALF_PRELUDE}{part}{}", slice_text(a, b, c, two_colons)), &expected);
        }
        {
            // constant sequence, one bound hidden (each in turn by position in the cell's hash)
            let h = |v: Option<i64>, hide: bool| v.map(|x| if hide { format!("hi({})", int_lit(x)) } else { int_lit(x) }).unwrap_or_default();
            let which = (a.unwrap_or(1).unsigned_abs() % 3 + b.unwrap_or(2).unsigned_abs() % 3 + c.unwrap_or(3).unsigned_abs() % 3) % 3;
            let (ta, tb, tc) = (h(a, which == 0), h(b, which == 1), h(c, which == 2));
            let sl = if c.is_some() || two_colons { format!("[{ta}:{tb}:{tc}]") } else { format!("[{ta}:{tb}]") };
            self.literal(seq, &format!("slice:{shape}:hidden-bound"), &format!("{HALF_PRELUDE}{}{sl}", seq.literal()), &expected);
        }
        let (pt, rt) = match seq {
            Seq::Arr(..) => ("[any]", "[any]"),
            Seq::Str(_) => ("string", "string"),
        };
        let mut params = vec![format!("s: {pt}")];
        let mut args = vec![seq.value()];
        let mut parts = [String::new(), String::new(), String::new()];
        for (n, (name, v)) in [("a", a), ("b", b), ("c", c)].into_iter().enumerate() {
            if let Some(v) = v {
                params.push(format!("{name}: int"));
                args.push(Variable::Int(v));
                parts[n] = name.to_string();
            }
        }
        let sl = if c.is_some() || two_colons {
            format!("[{}:{}:{}]", parts[0], parts[1], parts[2])
        } else {
            format!("[{}:{}]", parts[0], parts[1])
        };
        let mut ftext = format!("({}) -> {rt} {{ return s{sl} }}", params.join(", "));
        let mut fkey = format!("slice {pt} {sl}");
        if self.func(&fkey, &ftext).is_none() {
            // the checker does not type the slice as a sequence (that is C01's finding, reported by the
            // static-type check of the literal form); still compare values through an `any` result
            ftext = format!("({}) -> any {{ return s{sl} }}", params.join(", "));
            fkey.push_str(" any");
            self.rep.count("runtime_slice_helper_fell_back_to_any");
        }
        self.runtime(seq, &format!("slice:{shape}"), &fkey, &ftext, args.clone(), &expr, &expected);
        let utext = ftext.replacen(&format!("s: {pt}"), "s: [any]|string", 1).replacen(&format!("-> {rt} {{"), "-> [any]|string {", 1);
        if utext.contains("-> [any]|string {") {
            self.runtime(seq, &format!("slice:{shape}:union-view"), &format!("{fkey} union"), &utext, args, &expr, &expected);
        }
    }

    fn check_len(&mut self, seq: &Seq) {
        let expected = Ok(Variable::Int(seq.len() as i64));
        self.rep.distinct_case(&("len", seq.literal()));
        let expr = format!("std.len({})", seq.literal());
        self.literal(seq, "len", &expr, &expected);
        let pt = match seq {
            Seq::Arr(..) => "[any]",
            Seq::Str(_) => "string",
        };
        let ftext = format!("(s: {pt}) -> int {{ return std.len(s) }}");
        self.runtime(seq, "len", &format!("len {pt}"), &ftext, vec![seq.value()], &expr, &expected);
    }
}

impl Ctx<'_> {
    /// `[v; n]` written in place (v constant or not, n constant or not) indexed, sliced and measured like the array it denotes
    fn repeat_literals(&mut self) {
        for (vtext, v) in [("7", Variable::Int(7)), ("hi(7)", Variable::Int(7)), ("\"a\"", Variable::String(Arc::from("a"))), ("id(\"a\")", Variable::String(Arc::from("a")))] {
            for n in 0..5i64 {
                for ntext in [n.to_string(), format!("hi({n})")] {
                    let lit = format!("[{vtext}; {ntext}]");
                    let seq = Seq::Arr(vec![v.clone(); n as usize], lit.clone());
                    let expected_len = Ok(Variable::Int(n));
                    self.literal(&seq, "len:repeat-literal", &format!("{HALF_PRELUDE}std.len({lit})"), &expected_len);
                    for i in -(n + 2)..=(n + 2) {
                        let expected = match index_oracle(n as usize, i) {
                            Some(p) => Ok(seq.elem(p)),
                            None => Err(ErrKind::Index),
                        };
                        for itext in [int_lit(i), format!("hi({})", int_lit(i))] {
                            self.literal(&seq, "index:repeat-literal", &format!("{HALF_PRELUDE}{lit}[{itext}]"), &expected);
                            self.literal(&seq, "index:repeat-literal-named", &format!("{HALF_PRELUDE}r := {lit}; r[{itext}]"), &expected);
                        }
                        for (a, b, c) in [(Some(i), None, None), (None, Some(i), None), (None, None, Some(i)), (Some(i), Some(n - 1), None), (Some(0), None, Some(i))] {
                            let idx = py_slice(n as usize, a, b, c);
                            let expected = Ok(seq.select(&idx));
                            self.literal(&seq, "slice:repeat-literal", &format!("{HALF_PRELUDE}{lit}{}", slice_text(a, b, c, c.is_some())), &expected);
                        }
                    }
                }
            }
        }
    }

    /// what the checker must accept / refuse follows from the documented result kinds: an element of the array or a
    /// one-character string for `s[i]`, a sequence of the same kind for a slice, an int for `std.len`
    fn static_typing_templates(&mut self) {
        let cases: [(&str, bool); 35] = [
            ("(s: [int]|string, i: int) -> int|string { return s[i] }", true),
            ("(s: [int]|string, i: int) -> string { return s[i] }", false),
            ("(s: [int]|string, i: int) -> int { return s[i] }", false),
            ("(s: [int]|[string], i: int) -> int|string { return s[i] }", true),
            ("(s: [int]|[string], i: int) -> int { return s[i] }", false),
            ("(s: [int|string], i: int) -> int|string { return s[i] }", true),
            ("(s: [int|string], i: int) -> int { return s[i] }", false),
            ("(s: string, i: int) -> string { return s[i] }", true),
            ("(s: string, i: int) -> int { return s[i] }", false),
            ("(s: [int], i: int) -> int { return s[i] }", true),
            ("(s: [int], i: int) -> string { return s[i] }", false),
            ("(s: [int]|string) -> [int]|string { return s[1:] }", true),
            ("(s: [int]|string) -> string { return s[1:] }", false),
            ("(s: [int]|string) -> [int] { return s[1:] }", false),
            ("(s: [int]|string) -> int|string { return s[1:] }", false),
            ("(s: string) -> string { return s[::2] }", true),
            ("(s: [int]) -> [int] { return s[::2] }", true),
            ("(s: [int]) -> int { return s[::2] }", false),
            ("(s: [int]|string) -> int { return std.len(s) }", true),
            ("(s: [int]|string) -> string { return std.len(s) }", false),
            ("(x: int) -> any { return x[:] }", false),
            ("(x: int) -> any { return x[::] }", false),
            ("(t: (int, int)) -> any { return t[:] }", false),
            ("(t: (int, int)) -> any { return t[::] }", false),
            ("(c: mut [int]) -> any { return c[:] }", false),
            ("(s: struct{a: int}) -> any { return s[::] }", false),
            ("(f: () -> int) -> any { return f[:] }", false),
            ("(u: [int]|int) -> any { return u[:] }", false),
            ("(x: float) -> any { return x[0:] }", false),
            ("(x: bool) -> any { return x[::1] }", false),
            ("(s: [int]|string) -> [int]|string { return s[:] }", true),
            ("(s: [int]) -> [int] { return s[::] }", true),
            ("(s: string) -> string { return s[:] }", true),
            ("(s: [int]|string, i: int) -> int { return match s[i] { x: string => 1, } }", false),
            ("(s: [int]|string, i: int) -> int { return match s[i] { x: string => 1, y: int => 2, } }", true),
        ];
        for (text, want) in cases {
            self.rep.evaluations += 1;
            self.rep.count("static-typing-templates");
            let got = match real::guarded(|| Code::parse(&self.std_interp, text)) {
                Ok(Ok(_)) => "accepted".to_string(),
                Ok(Err(e)) => format!("rejected:{}", real::error_variant(&e)),
                Err(p) => format!("panic:{}", p.site()),
            };
            let ok = if want { got == "accepted" } else { got.starts_with("rejected:") && got != "rejected:Parsing" };
            if !ok {
                self.rep.violation(
                    &format!("c09:static-typing:{}", crate::util::truncate(text, 70)),
                    &format!("`{text}` is {got}; the documented result kind requires it to be {}", if want { "accepted" } else { "rejected by the checker" }),
                    "c09",
                    text,
                );
            }
        }
    }
}

impl Seq {
    fn sub(&self, idx: &[usize]) -> Seq {
        match self {
            Seq::Arr(v, _) => Seq::Arr(idx.iter().map(|i| v[*i].clone()).collect(), String::new()),
            Seq::Str(c) => Seq::Str(idx.iter().map(|i| c[*i]).collect()),
        }
    }
}

impl Ctx<'_> {
    /// two postfix steps in a row (`s[a:b:c][i]`, `s[a:b:c][d:e:f]`, `std.len(s[a:b:c])`): the second step must see
    /// exactly the sequence the first one denotes - written in place, through a name, with the sequence / the
    /// bounds constant or not (an implementation may fuse the two steps)
    fn chains(&mut self, seq: &Seq, cfg: &Cfg, cell: &mut u64) {
        let n = seq.len() as i64;
        let firsts: Vec<(Option<i64>, Option<i64>, Option<i64>)> = {
            let mut v = Vec::new();
            for a in [None, Some(0), Some(1), Some(2), Some(-1), Some(-2), Some(n), Some(n + 1)] {
                v.push((a, None, None));
            }
            for b in [Some(0), Some(1), Some(-1), Some(n - 1), Some(n + 1)] {
                v.push((None, b, None));
                v.push((Some(1), b, None));
            }
            for c in [Some(2), Some(-1), Some(-2), Some(0)] {
                v.push((None, None, c));
                v.push((Some(1), None, c));
                v.push((Some(-1), Some(0), c));
            }
            v
        };
        let (pt, rt_el, rt_seq) = match seq {
            Seq::Arr(..) => ("[any]", "any", "[any]"),
            Seq::Str(_) => ("string", "string", "string"),
        };
        let hide = if seq.kind() == "array" { "ida" } else { "ids" };
        for (a, b, c) in firsts {
            *cell += 1;
            if !cfg.owns(*cell) {
                continue;
            }
            let s1 = slice_text(a, b, c, false);
            let mid = seq.sub(&py_slice(seq.len(), a, b, c));
            let m = mid.len() as i64;
            self.rep.count("chain_first_steps");
            // then len
            let expected = Ok(Variable::Int(m));
            self.literal(seq, "chain:len", &format!("std.len({}{s1})", seq.literal()), &expected);
            self.runtime(seq, "chain:len", &format!("chain len {pt} {s1}"), &format!("(s: {pt}) -> int {{ return std.len(s{s1}) }}"), vec![seq.value()], &format!("std.len(s{s1})"), &expected);
            // then an index
            for i in -(m + 2)..=(m + 2) {
                let expected = match index_oracle(mid.len(), i) {
                    Some(p) => Ok(mid.elem(p)),
                    None => Err(ErrKind::Index),
                };
                let s2 = format!("[{}]", int_lit(i));
                self.rep.distinct_case(&("chain-index", seq.literal(), a, b, c, i));
                self.literal(seq, "chain:index", &format!("{}{s1}{s2}", seq.literal()), &expected);
                self.literal(seq, "chain:index:hidden-sequence", &format!("{HALF_PRELUDE}{hide}({}){s1}{s2}", seq.literal()), &expected);
                self.literal(seq, "chain:index:named", &format!("{HALF_PRELUDE}t := {hide}({}){s1}; t{s2}", seq.literal()), &expected);
                self.literal(seq, "chain:index:hidden-index", &format!("{HALF_PRELUDE}{}{s1}[hi({})]", seq.literal(), int_lit(i)), &expected);
                self.runtime(seq, "chain:index", &format!("chain idx {pt} {s1}{s2}"), &format!("(s: {pt}) -> {rt_el} {{ return s{s1}{s2} }}"), vec![seq.value()], &format!("s{s1}{s2}"), &expected);
                self.runtime(seq, "chain:index:arg", &format!("chain idx-arg {pt} {s1}"), &format!("(s: {pt}, i: int) -> {rt_el} {{ return s{s1}[i] }}"), vec![seq.value(), Variable::Int(i)], &format!("s{s1}[i]"), &expected);
            }
            // then another slice
            for (d, e, f) in [(Some(1), None, None), (None, Some(-1), None), (None, None, Some(-1)), (Some(-2), None, None), (Some(0), Some(m), Some(2)), (None, None, None), (Some(m), None, None), (Some(-1), None, Some(-1))] {
                let idx2 = py_slice(mid.len(), d, e, f);
                let expected = Ok(mid.select(&idx2));
                let s2 = slice_text(d, e, f, false);
                self.rep.distinct_case(&("chain-slice", seq.literal(), a, b, c, d, e, f));
                self.literal(seq, "chain:slice", &format!("{}{s1}{s2}", seq.literal()), &expected);
                self.literal(seq, "chain:slice:hidden-sequence", &format!("{HALF_PRELUDE}{hide}({}){s1}{s2}", seq.literal()), &expected);
                self.runtime(seq, "chain:slice", &format!("chain sl {pt} {s1}{s2}"), &format!("(s: {pt}) -> {rt_seq} {{ return s{s1}{s2} }}"), vec![seq.value()], &format!("s{s1}{s2}"), &expected);
            }
        }
    }

    /// a bound (or the index) of one sequence operation computed by slicing / indexing / measuring *another* sequence:
    /// the inner operation must not disturb the outer one (shared scratch state, evaluation order)
    fn nested_bounds(&mut self, outer: &Seq, inner: &Seq) {
        let k_of = |a: Option<i64>, b: Option<i64>, c: Option<i64>| py_slice(inner.len(), a, b, c).len() as i64;
        let (opt, ort) = match outer {
            Seq::Arr(..) => ("[any]", "[any]"),
            Seq::Str(_) => ("string", "string"),
        };
        let ipt = if inner.kind() == "array" { "[any]" } else { "string" };
        let oel = if outer.kind() == "array" { "any" } else { "string" };
        for (a, b, c) in [(Some(0), None, None), (Some(1), None, None), (None, Some(1), None), (None, None, Some(2)), (Some(-1), None, None), (None, Some(-1), None)] {
            let k = k_of(a, b, c);
            let inner_sl = slice_text(a, b, c, false);
            let kexpr_lit = format!("std.len({}{inner_sl})", inner.literal());
            self.rep.count("nested_bound_cases");
            // start / stop / step position and index position
            let cases: Vec<(&str, String, Result<Variable, ErrKind>)> = vec![
                ("start", "[K:]".into(), Ok(outer.select(&py_slice(outer.len(), Some(k), None, None)))),
                ("stop", "[:K]".into(), Ok(outer.select(&py_slice(outer.len(), None, Some(k), None)))),
                ("step", "[::K]".into(), Ok(outer.select(&py_slice(outer.len(), None, None, Some(k))))),
                ("start-stop", "[K:K + 1]".into(), Ok(outer.select(&py_slice(outer.len(), Some(k), Some(k + 1), None)))),
                ("index", "[K]".into(), match index_oracle(outer.len(), k) { Some(p) => Ok(outer.elem(p)), None => Err(ErrKind::Index) }),
                ("neg-index", "[-K - 1]".into(), match index_oracle(outer.len(), -k - 1) { Some(p) => Ok(outer.elem(p)), None => Err(ErrKind::Index) }),
            ];
            for (pos, shape, expected) in cases {
                let rt = if pos.contains("index") { oel } else { ort };
                self.rep.distinct_case(&("nested-bound", outer.literal(), inner.literal(), a, b, c, pos));
                // everything constant
                self.literal(outer, &format!("nested-bound:{pos}"), &format!("{}{}", outer.literal(), shape.replace('K', &kexpr_lit)), &expected);
                // both sequences arrive at run time
                let ftext = format!("(s: {opt}, t: {ipt}) -> {rt} {{ return s{} }}", shape.replace('K', &format!("std.len(t{inner_sl})")));
                self.runtime(outer, &format!("nested-bound:{pos}"), &format!("nb {opt} {ipt} {pos} {inner_sl}"), &ftext, vec![outer.value(), inner.value()], &ftext, &expected);
                // the bound comes from a function that slices
                let ftext = format!("(s: {opt}, t: {ipt}) -> {rt} {{ k := (u: {ipt}) -> int {{ return std.len(u{inner_sl}) }}; return s{} }}", shape.replace('K', "k(t)"));
                self.runtime(outer, &format!("nested-bound:{pos}:via-function"), &format!("nbf {opt} {ipt} {pos} {inner_sl}"), &ftext, vec![outer.value(), inner.value()], &ftext, &expected);
            }
        }
    }
}

fn show(e: &Result<Variable, ErrKind>) -> String {
    match e {
        Ok(v) => canon(v),
        Err(k) => format!("error {}", k.name()),
    }
}

pub fn run(cfg: &Cfg, rep: &mut Report) {
    let deadline = Deadline::new(cfg.budget_s);
    let mut ctx = Ctx {
        rep,
        funcs: HashMap::new(),
        std_interp: Interpreter::with_stdlib(),
    };
    if cfg.shard == 0 {
        ctx.static_typing_templates();
        ctx.repeat_literals();
    }
    let seqs = sequences(true);
    let max_exhaustive = 5;
    let mut cell = 0u64;
    // two-step chains and bounds computed from another sequence
    for seq in &seqs {
        if deadline.over() {
            ctx.rep.inconclusive("budget-cut-chains");
            break;
        }
        ctx.chains(seq, cfg, &mut cell);
    }
    for (oi, outer) in seqs.iter().enumerate() {
        for (ii, inner) in seqs.iter().enumerate() {
            cell += 1;
            if oi == ii || !cfg.owns(cell) || outer.len() == 0 || inner.len() == 0 || (oi + 2 * ii) % 3 != 0 {
                continue;
            }
            ctx.nested_bounds(outer, inner);
        }
    }
    for seq in &seqs {
        cell += 1;
        if cfg.owns(cell) {
            ctx.check_len(seq);
        }
        let vals = index_values(seq.len());
        for i in &vals {
            cell += 1;
            if cfg.owns(cell) {
                ctx.check_index(seq, *i);
            }
        }
        let mut opts: Vec<Option<i64>> = vec![None];
        opts.extend(vals.iter().map(|v| Some(*v)));
        if seq.len() <= max_exhaustive {
            for a in &opts {
                for b in &opts {
                    if deadline.over() {
                        ctx.rep.inconclusive("budget-cut-exhaustive-grid");
                        break;
                    }
                    for c in &opts {
                        cell += 1;
                        if !cfg.owns(cell) {
                            continue;
                        }
                        ctx.check_slice(seq, *a, *b, *c, false);
                        if c.is_none() {
                            ctx.check_slice(seq, *a, *b, None, true);
                        }
                    }
                }
            }
        } else {
            let mut rng = cfg.rng(9 + cell);
            for _ in 0..cfg.per_shard(4000, 40_000) {
                let a = *rng.pick(&opts);
                let b = *rng.pick(&opts);
                let c = *rng.pick(&opts);
                ctx.check_slice(seq, a, b, c, rng.chance(1, 4) && c.is_none());
            }
        }
    }
    // long sequences: sizes around the thresholds implementations like to special-case, arrays and strings whose
    // multi-byte characters sit at the start, in the middle, at the end, everywhere or nowhere
    {
        let mut rng = cfg.rng(909);
        for n in [8usize, 15, 16, 17, 23, 24, 31, 32, 33, 63, 64, 65, 127, 128, 129, 255, 256, 257, 1000] {
            let ints: Vec<Variable> = (1..=n as i64).map(Variable::Int).collect();
            let text = format!("[{}]", (1..=n).map(|k| k.to_string()).collect::<Vec<_>>().join(", "));
            let ascii: Vec<char> = (0..n).map(|k| (b'a' + (k % 26) as u8) as char).collect();
            let with = |pos: usize, ch: char| {
                let mut v = ascii.clone();
                v[pos] = ch;
                Seq::Str(v)
            };
            let wide: Vec<char> = (0..n).map(|k| ['é', '日', '🦀', 'ß'][k % 4]).collect();
            let long = [Seq::Arr(ints, text), Seq::Str(ascii.clone()), with(0, 'é'), with(n / 2, '日'), with(n - 1, '🦀'), with(n - 2, 'ß'), Seq::Str(wide)];
            for (si, seq) in long.iter().enumerate() {
                if n == 1000 && si > 3 {
                    continue;
                }
                cell += 1;
                if !cfg.owns(cell) {
                    continue;
                }
                if deadline.over() {
                    ctx.rep.inconclusive("budget-cut-long-sequences");
                    break;
                }
                ctx.rep.count("long-sequence-cases");
                ctx.check_len(seq);
                let m = n as i64;
                let mut idx = vec![0, 1, m / 2, m - 2, m - 1, m, m + 1, -1, -2, -m + 1, -m, -m - 1, 7, 8, 15, 16, 17, 31, 32, 33, 63, 64, 65, 127, 128, 255, 256, -8, -16, -17, -32, -33, -64, -65, -128, -129, -256, -257];
                idx.dedup();
                for i in &idx {
                    ctx.check_index(seq, *i);
                }
                let bounds: Vec<Option<i64>> = vec![None, Some(0), Some(1), Some(m / 2), Some(m - 1), Some(m), Some(m + 1), Some(-1), Some(-m), Some(-m - 1), Some(16), Some(-16), Some(64), Some(i64::MAX), Some(i64::MIN)];
                let steps: Vec<Option<i64>> = vec![None, Some(1), Some(2), Some(3), Some(-1), Some(-2), Some(m - 1), Some(m), Some(-m), Some(16), Some(0), Some(i64::MIN), Some(i64::MAX)];
                for _ in 0..if n == 1000 { 12 } else { 40 } {
                    let (a, b, c) = (*rng.pick(&bounds), *rng.pick(&bounds), *rng.pick(&steps));
                    ctx.check_slice(seq, a, b, c, false);
                }
                ctx.check_slice(seq, None, None, Some(-1), false);
                ctx.check_slice(seq, Some(1), None, None, true);
                ctx.check_slice(seq, None, Some(-1), None, true);
            }
        }
    }
    ctx.rep.sample("slice", 1, || {
        Obj::new()
            .s("expr", "[1, 2, 3][-1:0:-1]")
            .s("oracle_selection", &format!("{:?}", py_slice(3, Some(-1), Some(0), Some(-1))))
            .render()
    });
    // random sequences / bounds beyond the table
    let mut rng = cfg.rng(99);
    let n = cfg.per_shard(200_000, 20_000_000);
    for k in 0..n {
        if k % 256 == 0 && deadline.over() {
            break;
        }
        let len = rng.below(7);
        let seq = if rng.chance(1, 2) {
            let els: Vec<Variable> = (0..len).map(|_| Variable::Int(rng.range(-5, 5))).collect();
            let text = format!("[{}]", els.iter().map(|v| int_lit(*v.as_int().unwrap())).collect::<Vec<_>>().join(", "));
            Seq::Arr(els, text)
        } else {
            let pool = ['a', 'b', 'é', '日', '🦀', 'z', '\u{301}', 'ß'];
            Seq::Str((0..len).map(|_| *rng.pick(&pool)).collect())
        };
        let pickv = |rng: &mut crate::util::Rng| -> Option<i64> {
            match rng.below(8) {
                0 | 1 => None,
                2 => Some(rng.int()),
                _ => Some(rng.range(-(len as i64) - 3, len as i64 + 3)),
            }
        };
        let (a, b, c) = (pickv(&mut rng), pickv(&mut rng), pickv(&mut rng));
        ctx.check_slice(&seq, a, b, c, false);
        let i = pickv(&mut rng).unwrap_or(0);
        ctx.check_index(&seq, i);
        // measured right after other sequences of the same size were measured and dropped
        ctx.check_len(&seq);
        ctx.check_index(&seq, -1 - (k % 3) as i64);
        ctx.rep.sample("random", 3, || {
            Obj::new().s("expr", &format!("{}{}", seq.literal(), slice_text(a, b, c, false))).render()
        });
    }
}

pub fn replay(payload: &str, rep: &mut Report) {
    // payload = the expression text; evaluated in literal form and reported verbosely
    let expr = payload.lines().next().unwrap_or("").split(" via ").next().unwrap_or("").trim();
    let out = real::parse_exec(expr, true);
    rep.evaluations += 1;
    rep.notes.push(format!("replay {expr}: {}", match &out { Outcome::Value(v) => canon(v), o => o.tag() }));
    // re-run the full monitor on the sequence table so the same key is produced if it still fails
    let cfg = Cfg {
        prop: "C09".into(), tier: "quick".into(), seed: 1, shard: 0, nshards: 1, out: String::new(),
        replay: None, budget_s: 20.0, extra: Default::default(),
    };
    run(&cfg, rep);
    let _ = Type::Int;
}
