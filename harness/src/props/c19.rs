//! C19 equality is by content, independent of static or stored types: provenance monitor.
use crate::ast::PRELUDE;
use crate::real::{self, Outcome, PanicKind};
use crate::util::{Cfg, Deadline, Obj, Report, truncate};
use simplesl::variable::{Array, Type, Variable};
use simplesl::{Code, Interpreter};
use std::sync::Arc;

#[derive(Clone, Debug)]
pub enum El {
    I(i64),
    F(f64),
    S(&'static str),
    B(bool),
    U,
    A(Vec<El>),
    T(Vec<El>),
    /// a struct; fields are written in the order given, equality is by field name
    R(Vec<(&'static str, El)>),
}

impl El {
    /// documented equality: by value, floats IEEE, containers element-wise, different kinds unequal
    fn eq(&self, o: &El) -> bool {
        match (self, o) {
            (El::I(a), El::I(b)) => a == b,
            (El::F(a), El::F(b)) => a == b,
            (El::S(a), El::S(b)) => a == b,
            (El::B(a), El::B(b)) => a == b,
            (El::U, El::U) => true,
            (El::A(a), El::A(b)) | (El::T(a), El::T(b)) => a.len() == b.len() && a.iter().zip(b).all(|(x, y)| x.eq(y)),
            (El::R(a), El::R(b)) => a.len() == b.len() && a.iter().all(|(n, x)| b.iter().any(|(m, y)| n == m && x.eq(y))),
            _ => false,
        }
    }
    fn has_nan(&self) -> bool {
        match self {
            El::F(f) => f.is_nan(),
            El::A(v) | El::T(v) => v.iter().any(El::has_nan),
            El::R(v) => v.iter().any(|(_, e)| e.has_nan()),
            _ => false,
        }
    }
    fn text(&self, hidden: bool) -> String {
        let h = |helper: &str, t: String| if hidden { format!("{helper}({t})") } else { t };
        match self {
            El::I(v) => h("hi", crate::ast::int_text(*v)),
            El::F(v) => {
                if v.is_finite() {
                    h("hf", crate::ast::float_text(*v))
                } else {
                    crate::ast::float_text(*v)
                }
            }
            El::S(s) => h("hs", crate::ast::str_text(s)),
            El::B(b) => h("hb", b.to_string()),
            El::U => "()".into(),
            El::A(v) => format!("[{}]", v.iter().map(|e| e.text(hidden)).collect::<Vec<_>>().join(", ")),
            El::T(v) => format!("({})", v.iter().map(|e| e.text(hidden)).collect::<Vec<_>>().join(", ")),
            El::R(v) => format!("struct{{{}}}", v.iter().map(|(n, e)| format!("{n} := {}", e.text(hidden))).collect::<Vec<_>>().join(", ")),
        }
    }
    fn value(&self) -> Variable {
        match self {
            El::I(v) => Variable::Int(*v),
            El::F(v) => Variable::Float(*v),
            El::S(s) => Variable::String(Arc::from(*s)),
            El::B(b) => Variable::Bool(*b),
            El::U => Variable::Void,
            El::A(v) => Variable::from(v.iter().map(El::value).collect::<Vec<_>>()),
            El::T(v) => Variable::Tuple(v.iter().map(El::value).collect()),
            // (a struct value is built by the interpreter from its literal; the public API has no other constructor)
            El::R(_) => match real::parse_exec(&self.text(false), false) {
                Outcome::Value(v) => v,
                _ => Variable::Void,
            },
        }
    }
}

pub fn contents() -> Vec<Vec<El>> {
    use El::*;
    vec![
        vec![],
        vec![I(1)],
        vec![I(2)],
        vec![I(1), I(2)],
        vec![I(1), I(3)],
        vec![I(1), I(2), I(3)],
        vec![I(i64::MIN), I(i64::MAX)],
        vec![F(1.5)],
        vec![F(0.0)],
        vec![F(-0.0)],
        vec![F(f64::NAN)],
        vec![F(1.0)],
        vec![S("a"), S("b")],
        vec![S("a"), S("c")],
        vec![S("")],
        vec![I(1), S("a")],
        vec![I(1), S("b")],
        vec![S("a"), I(1)],
        vec![B(true)],
        vec![B(false)],
        vec![U],
        vec![U, U],
        vec![A(vec![I(1)]), A(vec![I(2)])],
        vec![A(vec![I(1)]), A(vec![])],
        vec![A(vec![]), A(vec![])],
        vec![A(vec![])],
        vec![T(vec![I(1), S("a")])],
        vec![T(vec![I(1), S("b")])],
        vec![I(1), F(1.0)],
        vec![F(1.0), I(1)],
        // the same sub-container at several positions (equal at the first occurrence, different or longer at a later one)
        vec![A(vec![I(0), I(0)]), A(vec![I(0), I(0)])],
        vec![A(vec![I(0), I(0)]), A(vec![I(0), I(1)])],
        vec![A(vec![I(0), I(0)]), A(vec![I(0), I(0), I(0)])],
        vec![A(vec![I(0), I(0)]), A(vec![I(0), I(0)]), A(vec![I(0), I(0)])],
        vec![A(vec![I(0), I(0)]), A(vec![I(0), I(0)]), A(vec![I(1), I(0)])],
        vec![T(vec![I(1), S("a")]), T(vec![I(1), S("a")])],
        vec![T(vec![I(1), S("a")]), T(vec![I(1), S("b")])],
        // structs (separately built, fields written in different orders, nested, inside tuples)
        vec![R(vec![("x", I(1)), ("y", I(2))])],
        vec![R(vec![("y", I(2)), ("x", I(1))])],
        vec![R(vec![("x", I(1)), ("y", I(3))])],
        vec![R(vec![("x", I(1))])],
        vec![R(vec![("a", I(1)), ("b", S("s")), ("c", F(2.5)), ("d", B(true)), ("e", U)]), I(7)],
        vec![R(vec![("e", U), ("d", B(true)), ("c", F(2.5)), ("b", S("s")), ("a", I(1))]), I(7)],
        vec![R(vec![("a", I(1)), ("b", S("s")), ("c", F(2.5)), ("d", B(false)), ("e", U)]), I(7)],
        vec![T(vec![R(vec![("x", I(1)), ("y", I(2))]), I(0)]), R(vec![("p", A(vec![I(1)])), ("q", R(vec![("x", I(1)), ("y", I(2))]))])],
        vec![T(vec![R(vec![("y", I(2)), ("x", I(1))]), I(0)]), R(vec![("q", R(vec![("y", I(2)), ("x", I(1))])), ("p", A(vec![I(1)]))])],
        vec![A(vec![R(vec![("x", I(1)), ("y", I(2))])])],
    ]
}

pub const PATHS: [&str; 17] = [
    "literal", "concat0", "concat1", "concat-end", "slice", "collect", "map-id", "filter-all", "type-filter-any", "partition.0", "partition.1", "repeat",
    "cell-read", "fn-[any]", "fn-any", "slice-all", "shared-element",
];

/// expression producing an array with the given content along the given path (None: path not applicable)
fn build(content: &[El], path: &str, hidden: bool) -> Option<String> {
    let lit = |els: &[El]| format!("[{}]", els.iter().map(|e| e.text(hidden)).collect::<Vec<_>>().join(", "));
    let n = content.len();
    Some(match path {
        "literal" => lit(content),
        "concat0" => format!("([] + {})", lit(content)),
        "concat-end" => format!("({} + [])", lit(content)),
        "concat1" => {
            if n < 2 {
                return None;
            }
            format!("({} + {})", lit(&content[..1]), lit(&content[1..]))
        }
        "slice" => {
            let mut longer = vec![El::I(77)];
            longer.extend(content.iter().cloned());
            longer.push(El::S("zz"));
            format!("{}[1:{}]", lit(&longer), n + 1)
        }
        "slice-all" => format!("{}[:]", lit(content)),
        "collect" => format!("({}~ $])", lit(content)),
        "map-id" => format!("({}~ @ (v: any) -> any {{ return v }} $])", lit(content)),
        "filter-all" => format!("({}~ ? (v: any) -> bool {{ return true }} $])", lit(content)),
        "type-filter-any" => format!("({}~ ? any $])", lit(content)),
        "partition.0" => format!("(({}~ \\ (v: any) -> bool {{ return true }}).0)", lit(content)),
        "partition.1" => format!("(({}~ \\ (v: any) -> bool {{ return false }}).1)", lit(content)),
        "repeat" => {
            if n == 0 {
                return Some(format!("[{}; 0]", El::I(5).text(hidden)));
            }
            if !content.iter().all(|e| e.eq(&content[0])) || content[0].has_nan() && n > 1 {
                return None;
            }
            format!("[{}; {n}]", content[0].text(hidden))
        }
        // `mut []` would read `[]` as a type: the cell type is always written
        "cell-read" => format!("(*(mut [any] {}))", lit(content)),
        "fn-[any]" => format!("((() -> [any] {{ return {} }})())", lit(content)),
        "fn-any" => format!("((() -> any {{ return {} }})())", lit(content)),
        // every element that equals the first one *is* the first one (one stored value at several positions)
        "shared-element" => {
            if n < 2 || !matches!(content[0], El::A(_) | El::T(_) | El::R(_)) || content[0].has_nan() {
                return None;
            }
            let els: Vec<String> = content.iter().map(|e| if e.eq(&content[0]) { "row".to_string() } else { e.text(hidden) }).collect();
            format!("((() -> [any] {{ row := {}; return [{}] }})())", content[0].text(hidden), els.join(", "))
        }
        _ => return None,
    })
}

fn eval_bools(src: &str) -> Result<Vec<bool>, String> {
    match real::parse_exec(&format!("{PRELUDE}{src}"), true) {
        Outcome::Value(Variable::Tuple(t)) => t.iter().map(|v| v.as_bool().copied().ok_or_else(|| format!("non-bool component {v:?}"))).collect(),
        Outcome::Panic(p) if p.kind == PanicKind::Panic => Err(format!("panic at {}: {}", p.site(), p.short_msg())),
        other => Err(other.tag()),
    }
}

struct Ctx<'a> {
    rep: &'a mut Report,
}

/// a cell is never equal to something that is not that cell - not to its content, not to another cell holding the same
/// content or holding it - on either side of `==`, nested in containers, through `any` parameters and as a candidate
fn cell_vs_content_cases() -> Vec<(String, bool)> {
    let mut out = Vec::new();
    for (ty, v, other) in [("int", "5", "6"), ("string", "\"ab\"", "\"\""), ("[int]", "[1]", "[]"), ("(int, int)", "(1, 2)", "(2, 1)"), ("float", "2.5", "0.0"), ("bool", "true", "false"), ("()", "()", "()"), ("struct{a: int}", "struct{a := 1}", "struct{a := 2}")] {
        let pre = format!("m := mut {ty} {v}; eq := (x: any, y: any) -> bool {{ return x==y }}; ne := (x: any, y: any) -> bool {{ return x!=y }}; ");
        for (e, want) in [
            (format!("m == {v}"), false), (format!("{v} == m"), false), (format!("m != {v}"), true), (format!("{v} != m"), true),
            (format!("m == {other}"), false), ("m == *m".to_string(), false), ("*m == m".to_string(), false), (format!("*m == {v}"), true), (format!("{v} == *m"), true),
            (format!("[m] == [{v}]"), false), (format!("[{v}] == [m]"), false), (format!("(m, 1) == ({v}, 1)"), false), (format!("(1, {v}) == (1, m)"), false),
            (format!("struct{{f := m}} == struct{{f := {v}}}"), false), (format!("struct{{f := {v}}} == struct{{f := m}}"), false), (format!("[[m]] == [[{v}]]"), false),
            (format!("eq(m, {v})"), false), (format!("eq({v}, m)"), false), (format!("ne(m, {v})"), true), (format!("eq([m], [{v}])"), false), ("eq(m, m)".to_string(), true), ("eq([m], [m])".to_string(), true),
            (format!("n := mut {ty} {v}; m == n"), false), (format!("n := mut {ty} {v}; eq(m, n) || eq([n], [m])"), false), ("n := mut m; n == m".to_string(), false), ("n := mut m; m == n".to_string(), false), ("n := mut m; *n == m".to_string(), true),
            (format!("x := {v}; r := match x {{ m => true, => false, }}; r"), false), (format!("r := match m {{ {v} => true, => false, }}; r"), false), ("r := match m { m => true, => false, }; r".to_string(), true),
            (format!("f := (x: any) -> bool {{ return match x {{ m => true, => false, }} }}; f({v})"), false), ("f := (x: any) -> bool { return match x { m => true, => false, } }; f(m)".to_string(), true),
            (format!("f := (x: {ty}|mut {ty}) -> bool {{ return x == {v} }}; f(m)"), false), (format!("f := (x: {ty}|mut {ty}) -> bool {{ return x == {v} }}; f({v})"), true),
        ] {
            out.push((format!("{pre}{e}"), want));
        }
    }
    out
}

impl Ctx<'_> {
    fn check_pair(&mut self, ca: &[El], cb: &[El], pa: &str, pb: &str, hidden: bool, wrap: &str) {
        let (Some(ea), Some(eb)) = (build(ca, pa, hidden), build(cb, pb, hidden)) else { return };
        let (ea, eb) = match wrap {
            "tuple" => (format!("({ea}, 1)"), format!("({eb}, 1)")),
            "struct" => (format!("struct{{a := {ea}, b := 2}}"), format!("struct{{a := {eb}, b := 2}}")),
            "nested" => (format!("[{ea}, {ea}]"), format!("[{eb}, {eb}]")),
            _ => (ea, eb),
        };
        let va = El::A(ca.to_vec());
        let vb = El::A(cb.to_vec());
        let expected = va.eq(&vb);
        let src = format!("a := {ea}; b := {eb}; m := match a {{ b => true, => false, }}; (a == b, b == a, a != b, b != a, m, a == a, !(a == b), !(a != b), !(!(a == b)))");
        self.rep.evaluations += 1;
        self.rep.distinct_case(&src);
        self.rep.shape("path_pairs", &format!("{pa}/{pb}"));
        self.rep.count(if expected { "expected-equal" } else { "expected-unequal" });
        self.rep.count(if hidden { "run-time operands" } else { "constant operands" });
        let form = if hidden { "runtime" } else { "folded" };
        match eval_bools(&src) {
            Err(why) => {
                let key = format!("c19:eval:{pa}/{pb}:{}", truncate(&why, 60));
                self.rep.violation(&key, &format!("{src}: {why}"), "c19", &src);
            }
            Ok(v) if v.len() == 9 => {
                let reflexive_expected = !va.has_nan();
                let checks = [
                    ("==", v[0], expected),
                    ("==(sym)", v[1], expected),
                    ("!=", v[2], !expected),
                    ("!=(sym)", v[3], !expected),
                    ("match-value-arm", v[4], expected),
                    ("reflexive", v[5], reflexive_expected),
                    ("!(==)", v[6], !expected),
                    ("!(!=)", v[7], expected),
                    ("!(!(==))", v[8], expected),
                ];
                for (op, got, want) in checks {
                    if got != want {
                        let key = format!("c19:{op}:{pa}/{pb}:{wrap}:{form}:expected-{want}");
                        self.rep.violation(&key, &format!("{op} gave {got}, expected {want} for contents {} vs {} :: {src}", va.text(false), vb.text(false)), "c19", &src);
                    }
                }
            }
            Ok(v) => self.rep.violation("c19:eval:arity", &format!("{src}: {v:?}"), "c19", &src),
        }
        self.rep.sample("pair", 5, || Obj::new().s("program", &src).b("expected_equal", expected).render());
    }

    fn scalars(&mut self) {
        // values of different kinds are unequal; scalars by value; floats IEEE; functions and cells by identity
        let cases: Vec<(&str, bool)> = vec![
            ("1 == 1", true), ("1 == 2", false), ("1 == 1.0", false), ("1.0 == 1", false), ("1 == \"1\"", false), ("\"a\" == \"a\"", true), ("\"a\" == \"b\"", false),
            ("true == true", true), ("true == false", false), ("true == 1", false), ("() == ()", true), ("() == 0", false), ("() == []", false), ("[] == []", true),
            ("0.0 == (-0.0)", true), ("(0.0 / 0.0) == (0.0 / 0.0)", false), ("(0.0 / 0.0) != (0.0 / 0.0)", true), ("1.5 == 1.5", true), ("(1.0 / 0.0) == (1.0 / 0.0)", true),
            ("(1, 2) == (1, 2)", true), ("(1, 2) == (1, 3)", false), ("(1, 2) == [1, 2]", false), ("[1, 2] == (1, 2)", false), ("(1, 2) == (1, 2, 3)", false),
            ("struct{a := 1} == struct{a := 1}", true), ("struct{a := 1} == struct{a := 2}", false), ("struct{a := 1} == struct{b := 1}", false),
            ("struct{a := 1, b := 2} == struct{b := 2, a := 1}", true), ("struct{a := 1} == struct{a := 1, b := 2}", false), ("struct{} == struct{}", true),
            ("\"\" == []", false), ("[1] == [1.0]", false), ("[[1]] == [[1]]", true), ("[[1], []] == [[1], []]", true),
            ("f := (x: int) -> int { return x }; f == f", true),
            ("f := (x: int) -> int { return x }; g := (x: int) -> int { return x }; f == g", false),
            ("f := (x: int) -> int { return x }; g := f; f == g", true),
            ("f := (x: int) -> int { return x }; [f] == [f]", true),
            ("c := mut 1; c == c", true), ("c := mut 1; d := c; c == d", true), ("c := mut 1; d := mut 1; c == d", false), ("(mut 1) == (mut 1)", false),
            ("c := mut 1; [c] == [c]", true), ("c := mut 1; d := mut 1; (c, 1) == (d, 1)", false), ("c := mut 1; (*c) == 1", true),
            ("it := [1]~; it == it", true), ("[1]~ == [1]~", false),
            ("x := [1, \"a\"][0]; x == 1", true), ("x := [1, \"a\"][1]; x == \"a\"", true), ("x := [1, \"a\"][0]; x == \"a\"", false),
            ("a := (() -> int|string { return 1 })(); b := (() -> any { return 1 })(); a == b", true),
            ("a := (() -> [int|string] { return [1] })(); b := (() -> [int] { return [1] })(); a == b", true),
            ("a := (() -> [int|string] { return [] })(); b := (() -> [float] { return [] })(); a == b", true),
            // floats one or two units in the last place apart are different values, for every spelling of the question
            ("(0.1 + 0.2) == 0.3", false), ("0.30000000000000004 == 0.3", false), ("1.0 == 1.0000000000000002", false), ("1.0000000000000002 == 1.0", false),
            ("f := (x: float, y: float) -> bool { return x == y }; f(0.1 + 0.2, 0.3)", false), ("f := (x: float, y: float) -> bool { return x == y }; f(1.0, 1.0000000000000002)", false),
            ("f := (x: float, y: float) -> bool { return x == y }; f(4503599627370496.0, 4503599627370497.0)", false),
            ("f := (x: float, y: float) -> bool { return x == y }; f(5e-324, 1e-323)", false), ("f := (x: float, y: float) -> bool { return x == y }; f(1.7976931348623157e308, 1.7976931348623155e308)", false),
            ("f := (x: any, y: any) -> bool { return x == y }; f([0.1 + 0.2], [0.3])", false), ("f := (x: float, y: float) -> bool { return match x { y => true, => false, } }; f(0.1 + 0.2, 0.3)", false),
            ("s := mut 0.0; i := mut 0; while *i < 10 { s += 0.1; i += 1; }; *s == 1.0", false),
            ("f := (x: int, y: int) -> bool { return !(x != y) }; f(3, 3)", true), ("f := (x: int, y: int) -> bool { return !(x != y) }; f(3, 4)", false),
            ("f := (x: any, y: any) -> bool { return !(x != y) }; f(\"a\", \"a\")", true), ("f := (x: any, y: any) -> bool { return !(x == y) }; f([1], [1])", false),
            ("f := (x: int) -> bool { return !(x != 3) }; f(3)", true), ("f := (x: int) -> bool { return !(3 != x) }; f(4)", false),
            // identity of functions and cells seen from inside a function (its own name, captured names, arguments)
            ("f := (g: any) -> bool { return g == f }; f(f)", true),
            ("f := (g: any) -> bool { return g == f }; h := f; h(f)", true),
            ("f := (g: any) -> bool { return g == f }; h := f; f(h)", true),
            ("f := (g: any) -> bool { return g == f }; k := (g: any) -> bool { return g == k }; f(k)", false),
            ("f := (g: any) -> bool { return [g] == [f] }; f(f)", true),
            ("f := (g: any) -> bool { return (g, 1) == (f, 1) }; f(f)", true),
            ("f := (g: any) -> bool { return struct{a := g} == struct{a := f} }; f(f)", true),
            ("f := (n: int, g: any) -> bool { if n > 0 { return f(n - 1, g) } return g == f }; f(2, f)", true),
            ("f := (r: [any]) -> bool { return r[0] == f }; f([f])", true),
            ("f := (g: any) -> bool { return match g { f => true, => false, } }; f(f)", true),
            ("f := (g: any) -> bool { return match g { f => true, => false, } }; f(1)", false),
            ("f := (g: any) -> bool { return match [g] { [f] => true, => false, } }; f(f)", true),
            ("c := mut 1; f := (d: any) -> bool { return d == c }; f(c)", true),
            ("c := mut 1; f := (d: any) -> bool { return d == c }; f(mut 1)", false),
            ("c := mut 1; f := (d: any) -> bool { return [d] == [c] }; f(c)", true),
            ("k := (x: int) -> int { return x }; f := (d: any) -> bool { return d == k }; f(k)", true),
            ("k := (x: int) -> int { return x }; f := (d: any) -> bool { return d == k }; f((x: int) -> int { return x })", false),
            ("mk := () -> () -> int { return () -> int { return 1 } }; a := mk(); b := mk(); a == b", false),
            ("mk := () -> () -> int { return () -> int { return 1 } }; a := mk(); b := a; a == b", true),
            ("it := [1, 2]~; f := (j: any) -> bool { return j == it }; f(it)", true),
            // deep nesting: separately built values of equal content are equal at every depth
            ("mk := (n: int, leaf: int) -> any { c := mut any [leaf]; i := mut 0; while *i < n { c = [*c]; i += 1; } return *c }; mk(127, 1) == mk(127, 1)", true),
            ("mk := (n: int, leaf: int) -> any { c := mut any [leaf]; i := mut 0; while *i < n { c = [*c]; i += 1; } return *c }; mk(128, 1) == mk(128, 1)", true),
            ("mk := (n: int, leaf: int) -> any { c := mut any [leaf]; i := mut 0; while *i < n { c = [*c]; i += 1; } return *c }; mk(129, 1) == mk(129, 1)", true),
            ("mk := (n: int, leaf: int) -> any { c := mut any [leaf]; i := mut 0; while *i < n { c = [*c]; i += 1; } return *c }; mk(400, 1) == mk(400, 1)", true),
            ("mk := (n: int, leaf: int) -> any { c := mut any [leaf]; i := mut 0; while *i < n { c = [*c]; i += 1; } return *c }; mk(400, 1) == mk(400, 2)", false),
            ("mk := (n: int, leaf: int) -> any { c := mut any [leaf]; i := mut 0; while *i < n { c = [*c]; i += 1; } return *c }; mk(400, 1) == mk(401, 1)", false),
            ("mk := (n: int, leaf: int) -> any { c := mut any (leaf, 0); i := mut 0; while *i < n { c = (*c, *i); i += 1; } return *c }; mk(300, 1) == mk(300, 1)", true),
            ("mk := (n: int, leaf: int) -> any { c := mut any (leaf, 0); i := mut 0; while *i < n { c = (*c, *i); i += 1; } return *c }; mk(300, 1) == mk(300, 2)", false),
            ("mk := (n: int, leaf: int) -> any { c := mut any struct{a := leaf}; i := mut 0; while *i < n { c = struct{a := *c}; i += 1; } return *c }; mk(300, 1) == mk(300, 1)", true),
            ("mk := (n: int, leaf: int) -> any { c := mut any struct{a := leaf}; i := mut 0; while *i < n { c = struct{a := *c}; i += 1; } return *c }; mk(300, 1) == mk(300, 2)", false),
            ("mk := (n: int, leaf: int) -> any { c := mut any [leaf]; i := mut 0; while *i < n { c = [*c]; i += 1; } return *c }; a := mk(300, 1); b := mk(300, 1); match a { b => true, => false, }", true),
            ("mk := (n: int, leaf: int) -> any { c := mut any [leaf]; i := mut 0; while *i < n { c = [*c]; i += 1; } return *c }; ([mk(300, 1)] + []) == [mk(300, 1)]", true),
            // arrays holding NaN: no array that contains it equals anything, itself and its aliases included
            ("n := 0.0 / 0.0; a := [1.5, n]; a == a", false),
            ("n := 0.0 / 0.0; a := [1.5, n]; b := a; a == b", false),
            ("n := 0.0 / 0.0; a := [1.5, n]; b := a; [a] == [b]", false),
            ("n := 0.0 / 0.0; a := [1.5, n]; b := a; (a, 1) == (b, 1)", false),
            ("n := 0.0 / 0.0; a := [1.5, n]; (a + []) == a", false),
            ("n := 0.0 / 0.0; a := [1.5, n]; a[:] == a", false),
            ("n := 0.0 / 0.0; a := (n, 1); b := a; a == b", false),
            ("n := 0.0 / 0.0; a := struct{x := n}; b := a; a == b", false),
            ("n := 0.0 / 0.0; a := [1.5, n]; f := (x: any, y: any) -> bool { return x == y }; f(a, a)", false),
            // the same name on both sides, the NaN inside a container of any static type
            ("f := (x: [float]) -> bool { return x == x }; f([1.5, 0.0 / 0.0])", false),
            ("f := (x: [float]) -> bool { return x == x }; f([1.5, 2.5])", true),
            ("f := (x: (float, int)) -> bool { return x == x }; f((0.0 / 0.0, 1))", false),
            ("f := (x: struct{a: float}) -> bool { return x == x }; f(struct{a := 0.0 / 0.0})", false),
            ("f := (x: [[float]]) -> bool { return x == x }; f([[1.0], [0.0 / 0.0]])", false),
            ("f := (x: [int|float]) -> bool { return x == x }; f([1, 0.0 / 0.0])", false),
            ("f := (x: [any]) -> bool { return x == x }; f([\"s\", 0.0 / 0.0])", false),
            ("f := (x: any) -> bool { return x == x }; f([0.0 / 0.0])", false),
            ("f := (x: [float]) -> bool { y := x; return y == y }; f([0.0 / 0.0])", false),
            ("f := (x: [float]) -> bool { return [x] == [x] }; f([0.0 / 0.0])", false),
            ("f := (x: [float]) -> bool { return match x { x => true, => false, } }; f([0.0 / 0.0])", false),
            ("f := (x: [float]) -> bool { g := () -> bool { return x == x }; return g() }; f([0.0 / 0.0])", false),
            ("f := (x: mut [float]) -> bool { return *x == *x }; f(mut [0.0 / 0.0])", false),
            ("f := (x: mut [float]) -> bool { return x == x }; f(mut [0.0 / 0.0])", true),
            ("x := [hf(0.0) / hf(0.0)]; x == x", false),
            // value-arm candidates are evaluated each time the match runs: a candidate reading a cell follows the cell
            ("lim := mut 1; f := (x: int) -> bool { return match x { *lim => true, => false, } }; a := f(5); lim = 5; b := f(5); lim = 6; c := f(5); a == false && b == true && c == false", true),
            ("lim := mut 1; f := (x: int) -> bool { return match x { *lim + 1, *lim + 2 => true, => false, } }; a := f(7); lim = 5; b := f(7); lim = 9; c := f(7); a == false && b == true && c == false", true),
            ("lim := mut 1; f := (x: any) -> bool { return match x { (*lim, [*lim + 1]) => true, => false, } }; a := f((5, [6])); lim = 5; b := f((5, [6])); a == false && b == true", true),
            ("lim := mut [int] [1]; f := (x: any) -> bool { return match x { *lim => true, => false, } }; a := f([1, 2]); lim += [2]; b := f([1, 2]); lim += [3]; c := f([1, 2]); a == false && b == true && c == false", true),
            ("mk := () -> (int) -> bool { lim := mut 1; return (x: int) -> bool { r := match x { *lim => true, => false, }; lim += 1; return r } }; g := mk(); a := g(3); b := g(3); c := g(3); d := g(3); a == false && b == false && c == true && d == false", true),
            ("lim := mut 1; f := (x: int) -> bool { return x == *lim }; a := f(5); lim = 5; b := f(5); a == false && b == true", true),
        ];
        let all: Vec<(String, bool)> = cases.iter().map(|(s, w)| (s.to_string(), *w)).chain(cell_vs_content_cases()).collect();
        for (src, want) in &all {
            let (src, want) = (src.as_str(), *want);
            for hidden in [false, true] {
                let text = if hidden {
                    // hide the integer literals 1 / 2 behind identity calls where they are operands
                    src.replace(" 1 ==", " hi(1) ==").replace("== 1", "== hi(1)").replace("== 2", "== hi(2)")
                } else {
                    src.to_string()
                };
                let neg = text.replacen(" == ", " != ", 1);
                self.rep.evaluations += 2;
                self.rep.distinct_case(&text);
                for (t, w, op) in [(&text, want, "=="), (&neg, if src.contains("!=") { want } else { !want }, "!=")] {
                    if (src.contains("!=") || !text.contains(" == ")) && op == "!=" {
                        continue;
                    }
                    match real::parse_exec(&format!("{PRELUDE}{t}"), true) {
                        Outcome::Value(Variable::Bool(b)) if b == w => self.rep.count("scalar-cases-held"),
                        Outcome::Value(v) => {
                            let key = format!("c19:scalar:{}", truncate(src, 70));
                            self.rep.violation(&key, &format!("`{t}` gave {v:?}, expected {w}"), "c19", t);
                        }
                        Outcome::Rejected(..) => self.rep.count("scalar-cases-rejected"),
                        other => {
                            let key = format!("c19:scalar:{}:{}", truncate(src, 50), other.tag());
                            self.rep.violation(&key, &format!("`{t}`: {}", other.tag()), "c19", t);
                        }
                    }
                }
            }
        }
    }


    /// wide values: arrays, strings, tuples and structs of sizes around the thresholds implementations like to
    /// special-case, equal content built two ways (literal / run-time loop, fields in two orders) and contents that differ
    /// in exactly one place - the first, the middle or the last element, one more or one fewer element
    fn wide(&mut self, cfg: &Cfg) {
        let mut idx = 0u64;
        for n in [8usize, 15, 16, 17, 31, 32, 33, 63, 64, 65, 127, 128, 129, 255, 256, 257, 1000] {
            let ints = |chg: Option<usize>, len: usize| format!("[{}]", (0..len).map(|k| if chg == Some(k) { "-1".to_string() } else { k.to_string() }).collect::<Vec<_>>().join(", "));
            let built = |chg: Option<usize>, len: usize| format!("mk({len}, {})", chg.map(|c| c as i64).unwrap_or(-5));
            let mk = "mk := (n: int, chg: int) -> [int] { c := mut [int] []; i := mut 0; while *i < n { v := if *i == chg { -1 } else { *i }; c += [v]; i += 1; } return *c }; ";
            let chars = |chg: Option<usize>, len: usize, wide: bool| -> String {
                (0..len).map(|k| if chg == Some(k) { if wide { 'ü' } else { 'Z' } } else if wide && k % 5 == 0 { 'é' } else { (b'a' + (k % 26) as u8) as char }).collect()
            };
            let smk = "smk := (n: int, chg: int, w: bool) -> string { c := mut \"\"; i := mut 0; abc := \"abcdefghijklmnopqrstuvwxyz\"; while *i < n { ch := if *i == chg { if w { \"ü\" } else { \"Z\" } } else { if w && *i % 5 == 0 { \"é\" } else { abc[*i % 26] } }; c += ch; i += 1; } return *c }; ";
            let mut cases: Vec<(String, String, bool)> = vec![];
            let places = [Some(0), Some(n / 2), Some(n - 2), Some(n - 1)];
            // arrays
            cases.push(("array:equal:literal-vs-built".into(), format!("{mk}{} == {}", ints(None, n), built(None, n)), true));
            cases.push(("array:equal:built-vs-built".into(), format!("{mk}a := {}; b := {}; m := match a {{ b => true, => false, }}; (a == b, a != b, m, [a] == [b], (a, 1) == (b, 1))", built(None, n), built(None, n)), true));
            cases.push(("array:equal:concat-vs-built".into(), format!("{mk}({} + {}[{}:]) == {}", built(None, n / 2), built(None, n), n / 2, built(None, n)), true));
            for pl in places {
                cases.push((format!("array:one-differs:{}", if pl == Some(0) { "first" } else if pl == Some(n - 1) { "last" } else { "inner" }), format!("{mk}{} == {}", built(None, n), built(pl, n)), false));
                cases.push(("array:one-differs:literal".into(), format!("{mk}{} == {}", ints(pl, n), built(None, n)), false));
                cases.push(("array:one-differs:match".into(), format!("{mk}a := {}; b := {}; match a {{ b => true, => false, }}", built(pl, n), built(None, n)), false));
            }
            cases.push(("array:prefix".into(), format!("{mk}{} == {}", built(None, n), built(None, n + 1)), false));
            cases.push(("array:prefix".into(), format!("{mk}{} == {}", built(None, n), built(None, n - 1)), false));
            cases.push(("array:prefix:literal".into(), format!("{mk}{} == {}", ints(None, n - 1), built(None, n)), false));
            // strings, ASCII and with multi-byte characters
            for w in [false, true] {
                let lit = |chg: Option<usize>, len: usize| format!("\"{}\"", chars(chg, len, w));
                let blt = |chg: Option<usize>, len: usize| format!("smk({len}, {}, {w})", chg.map(|c| c as i64).unwrap_or(-5));
                let tag = if w { "wide" } else { "ascii" };
                cases.push((format!("string:{tag}:equal"), format!("{smk}a := {}; b := {}; m := match a {{ b => true, => false, }}; (a == b, a != b, {} == b, m)", blt(None, n), blt(None, n), lit(None, n)), true));
                for pl in places {
                    cases.push((format!("string:{tag}:one-differs"), format!("{smk}a := {}; b := {}; (a == b, {} == b, {} == a)", blt(pl, n), blt(None, n), lit(pl, n), lit(None, n)), false));
                }
                cases.push((format!("string:{tag}:prefix"), format!("{smk}({} == {}, {} == {})", blt(None, n), blt(None, n + 1), lit(None, n - 1), blt(None, n)), false));
            }
            if n <= 257 {
                // tuples and structs written out; struct fields in two orders
                let tup = |chg: Option<usize>, len: usize, hide: bool| format!("({})", (0..len).map(|k| { let v = if chg == Some(k) { "-1".to_string() } else { k.to_string() }; if hide { format!("hi({v})") } else { v } }).collect::<Vec<_>>().join(", "));
                cases.push(("tuple:equal".into(), format!("{} == {}", tup(None, n, true), tup(None, n, false)), true));
                for pl in places {
                    cases.push(("tuple:one-differs".into(), format!("{} == {}", tup(pl, n, true), tup(None, n, false)), false));
                }
                cases.push(("tuple:longer".into(), format!("{} == {}", tup(None, n, true), tup(None, n + 1, false)), false));
                let st = |chg: Option<usize>, len: usize, rev: bool, rename: Option<usize>| {
                    let mut f: Vec<String> = (0..len).map(|k| format!("{}{k} := hi({})", if rename == Some(k) { "g" } else { "f" }, if chg == Some(k) { -1 } else { k as i64 })).collect();
                    if rev {
                        f.reverse();
                    }
                    format!("struct{{{}}}", f.join(", "))
                };
                cases.push(("struct:equal:reordered".into(), format!("a := {}; b := {}; m := match a {{ b => true, => false, }}; (a == b, a != b, m)", st(None, n, false, None), st(None, n, true, None)), true));
                for pl in places {
                    cases.push(("struct:one-value-differs".into(), format!("{} == {}", st(pl, n, false, None), st(None, n, true, None)), false));
                    cases.push(("struct:one-name-differs".into(), format!("{} == {}", st(None, n, false, pl), st(None, n, true, None)), false));
                }
                cases.push(("struct:one-more-field".into(), format!("{} == {}", st(None, n, false, None), st(None, n + 1, true, None)), false));
            }
            for (label, src, equal) in cases {
                idx += 1;
                if !cfg.owns(idx) {
                    continue;
                }
                self.rep.evaluations += 1;
                self.rep.count("wide-value-cases");
                self.rep.shape("wide_values", &format!("{label}:{}", if n <= 17 { "8-17" } else if n <= 65 { "31-65" } else if n <= 257 { "127-257" } else { "1000" }));
                let out = real::parse_exec(&format!("{PRELUDE}{src}"), true);
                // components are (==, !=, match, ...) in that order: `!=` is the second component where there is one
                let flat: Option<Vec<bool>> = match &out {
                    Outcome::Value(Variable::Bool(b)) => Some(vec![*b]),
                    Outcome::Value(Variable::Tuple(t)) => t.iter().map(|v| v.as_bool().copied()).collect(),
                    _ => None,
                };
                let has_ne = src.contains("a != b");
                match flat {
                    Some(bs) => {
                        for (k, b) in bs.iter().enumerate() {
                            let want = if has_ne && k == 1 { !equal } else { equal };
                            if *b != want {
                                self.rep.violation(&format!("c19:wide:{label}"), &format!("size {n}, component {k}: `{}` gave {b}, expected {want}", truncate(&src, 260)), "c19", &src);
                                break;
                            }
                        }
                    }
                    None => match &out {
                        Outcome::Panic(p) if p.kind != PanicKind::Panic => self.rep.inconclusive("wide:resource-or-fuel"),
                        other => self.rep.violation(&format!("c19:wide:{label}:{}", other.tag()), &format!("size {n}: `{}`: {}", truncate(&src, 260), other.tag()), "c19", &src),
                    },
                }
            }
        }
    }

    /// every ordered pair of a pool of scalars (signed zeros, NaN, infinities, look-alikes of different kinds) through
    /// `==`, `!=` and value arms - constant and run-time operands, and a `match` whose leading arms are all scalar
    /// constants (an implementation may look such arms up in a table: the lookup must still be IEEE equality)
    fn scalar_matrix(&mut self, cfg: &Cfg) {
        use El::*;
        let pool: Vec<El> = vec![
            I(0), I(1), I(-1), I(i64::MAX), F(0.0), F(-0.0), F(1.0), F(1.5), F(f64::NAN), F(f64::INFINITY), F(f64::NEG_INFINITY), F(5e-324), F(-1.0),
            B(true), B(false), S(""), S("a"), S("0"), S("1"), U,
        ];
        let mut cell = 0u64;
        for a in &pool {
            for b in &pool {
                cell += 1;
                if !cfg.owns(cell) {
                    continue;
                }
                let want = a.eq(b);
                let (ta, tb) = (a.text(false), b.text(false));
                let progs = [
                    ("constant", format!("m := match {ta} {{ {tb} => true, => false, }}; ({ta} == {tb}, {ta} != {tb}, m)")),
                    ("run-time", format!("f := (x: any, y: any) -> (bool, bool, bool) {{ m := match x {{ y => true, => false, }}; return (x == y, x != y, m) }}; f({ta}, {tb})")),
                    ("constant-candidate", format!("f := (x: any) -> (bool, bool, bool) {{ m := match x {{ {tb} => true, => false, }}; return (x == {tb}, x != {tb}, m) }}; f({ta})")),
                    ("constant-scrutinee", format!("f := (y: any) -> (bool, bool, bool) {{ m := match {ta} {{ y => true, => false, }}; return ({ta} == y, {ta} != y, m) }}; f({tb})")),
                ];
                for (form, src) in progs {
                    self.rep.evaluations += 1;
                    self.rep.count("scalar-matrix-cases");
                    self.rep.distinct_case(&src);
                    match eval_bools(&src) {
                        Ok(v) if v.len() == 3 => {
                            for (op, got, w) in [("==", v[0], want), ("!=", v[1], !want), ("match-value-arm", v[2], want)] {
                                if got != w {
                                    self.rep.violation(&format!("c19:scalar-matrix:{op}:{form}:expected-{w}"), &format!("{op} gave {got}, expected {w} for {ta} vs {tb} :: {src}"), "c19", &src);
                                }
                            }
                        }
                        Ok(v) => self.rep.violation("c19:eval:arity", &format!("{src}: {v:?}"), "c19", &src),
                        Err(why) => self.rep.violation(&format!("c19:scalar-matrix:eval:{form}:{}", truncate(&why, 50)), &format!("{src}: {why}"), "c19", &src),
                    }
                }
            }
        }
        // a match whose leading arms are all scalar constants, in several orders: the arm taken is the first one whose
        // candidate equals the value (documented equality), else the default
        for rot in 0..pool.len() {
            cell += 1;
            if !cfg.owns(cell) {
                continue;
            }
            let order: Vec<&El> = (0..pool.len()).map(|i| &pool[(i * 7 + rot) % pool.len()]).collect();
            let arms = order.iter().enumerate().map(|(i, c)| format!("{} => {}, ", c.text(false), i + 1)).collect::<String>();
            let pairs = order.chunks(2).enumerate().map(|(i, c)| format!("{} => {}, ", c.iter().map(|e| e.text(false)).collect::<Vec<_>>().join(", "), i + 1)).collect::<String>();
            for x in &pool {
                let first = order.iter().position(|c| x.eq(c)).map(|i| i as i64 + 1).unwrap_or(0);
                let first_pair = order.iter().position(|c| x.eq(c)).map(|i| i as i64 / 2 + 1).unwrap_or(0);
                let tx = x.text(false);
                for (form, src, want) in [
                    ("table:run-time", format!("f := (x: any) -> int {{ return match x {{ {arms}=> 0, }} }}; f({tx})"), first),
                    ("table:constant", format!("match {tx} {{ {arms}=> 0, }}"), first),
                    ("table:multi-candidate", format!("f := (x: any) -> int {{ return match x {{ {pairs}=> 0, }} }}; f({tx})"), first_pair),
                    ("table:in-closure", format!("mk := (x: any) -> () -> int {{ return () -> int {{ return match x {{ {arms}=> 0, }} }} }}; mk({tx})()"), first),
                ] {
                    self.rep.evaluations += 1;
                    self.rep.count("scalar-matrix-table-cases");
                    match real::parse_exec(&format!("{PRELUDE}{src}"), true) {
                        Outcome::Value(Variable::Int(i)) if i == want => {}
                        other => {
                            let got = match &other {
                                Outcome::Value(v) => format!("{v:?}"),
                                o => o.tag(),
                            };
                            self.rep.violation(&format!("c19:scalar-matrix:{form}"), &format!("value {tx}: arm {got} taken, the first equal candidate is in arm {want} :: {src}"), "c19", &src);
                        }
                    }
                }
            }
        }
    }

    /// the same (or a different) value seen through two differently typed parameters: the static types of the
    /// operands must not influence the answer
    fn static_views(&mut self, cfg: &Cfg) {
        // (value text, content id, views that admit it)
        let vals: Vec<(&str, u32, Vec<&str>)> = vec![
            ("struct{a := 1}", 1, vec!["struct{a: int}", "struct{a: int|float}", "struct{a: any}", "struct{}", "any", "struct{a: int}|int"]),
            ("struct{a := 2}", 2, vec!["struct{a: int}", "struct{a: int|float}", "struct{a: any}", "struct{}", "any"]),
            ("struct{a := 1, b := \"s\"}", 3, vec!["struct{a: int, b: string}", "struct{a: int}", "struct{b: string}", "struct{a: int|float, b: any}", "struct{}", "any"]),
            ("struct{a := 1, b := \"t\"}", 4, vec!["struct{a: int, b: string}", "struct{a: int}", "struct{}", "any"]),
            ("struct{}", 5, vec!["struct{}", "any"]),
            ("[1, 2]", 6, vec!["[int]", "[int|float]", "[any]", "any", "[int]|string"]),
            ("[1, 3]", 7, vec!["[int]", "[int|float]", "[any]", "any"]),
            ("[]", 8, vec!["[int]", "[string]", "[any]", "[]", "any", "[int|float]"]),
            ("(1, \"s\")", 9, vec!["(int, string)", "(int|float, string)", "(any, any)", "any", "(int, string)|int"]),
            ("(1, \"t\")", 10, vec!["(int, string)", "(int|float, string)", "(any, any)", "any"]),
            ("1", 11, vec!["int", "int|string", "int|float", "any"]),
            ("2", 12, vec!["int", "int|string", "any"]),
            ("\"s\"", 13, vec!["string", "int|string", "any"]),
            ("1.0", 14, vec!["float", "int|float", "any"]),
            ("()", 15, vec!["()", "int|()", "any"]),
            ("true", 16, vec!["bool", "bool|int", "any"]),
            ("false", 19, vec!["bool", "bool|int", "any"]),
            ("0", 20, vec!["int", "int|bool", "any"]),
            ("\"\"", 21, vec!["string", "any"]),
            ("[struct{a := 1}]", 17, vec!["[struct{a: int}]", "[struct{a: int|float}]", "[struct{}]", "[any]", "any"]),
            ("(struct{a := 1}, 2)", 18, vec!["(struct{a: int}, int)", "(struct{a: any}, int)", "(struct{}, any)", "any"]),
        ];
        let mut cell = 0u64;
        for (va, ia, viewsa) in &vals {
            for (vb, ib, viewsb) in &vals {
                for ta in viewsa {
                    for tb in viewsb {
                        cell += 1;
                        if !cfg.owns(cell) {
                            continue;
                        }
                        let expected = ia == ib;
                        // one operand a literal in the function text (known while folding), the other a parameter
                        if *tb == viewsb[0] {
                            let half = format!(
                                "f := (x: {ta}) -> (bool, bool, bool, bool) {{ m := match x {{ {vb} => true, => false, }}; return (x == {vb}, {vb} == x, x != {vb}, m) }}; f({va})"
                            );
                            self.rep.evaluations += 1;
                            self.rep.count("static-view-half-constant");
                            match eval_bools(&half) {
                                Ok(v) if v.len() == 4 => {
                                    for (op, got, want) in [("==", v[0], expected), ("==(sym)", v[1], expected), ("!=", v[2], !expected), ("match-value-arm", v[3], expected)] {
                                        if got != want {
                                            let key = format!("c19:static-view-half-constant:{op}:expected-{want}");
                                            self.rep.violation(&key, &format!("{op} gave {got}, expected {want}: {va} seen as {ta} vs the literal {vb} :: {half}"), "c19", &half);
                                        }
                                    }
                                }
                                Ok(v) => self.rep.violation("c19:static-view:arity", &format!("{half}: {v:?}"), "c19", &half),
                                Err(why) if why.starts_with("rejected") => self.rep.count("static-view-rejected"),
                                Err(why) => self.rep.violation(&format!("c19:static-view:eval:{}", truncate(&why, 60)), &format!("{half}: {why}"), "c19", &half),
                            }
                        }
                        let src = format!(
                            "f := (x: {ta}, y: {tb}) -> (bool, bool, bool, bool) {{ m := match x {{ y => true, => false, }}; return (x == y, y == x, x != y, m) }}; f({va}, {vb})"
                        );
                        self.rep.evaluations += 1;
                        self.rep.count("static-view-pairs");
                        self.rep.distinct_case(&src);
                        match eval_bools(&src) {
                            Ok(v) if v.len() == 4 => {
                                for (op, got, want) in [("==", v[0], expected), ("==(sym)", v[1], expected), ("!=", v[2], !expected), ("match-value-arm", v[3], expected)] {
                                    if got != want {
                                        let kind = va.split(|c: char| !c.is_alphanumeric()).next().unwrap_or("");
                                        let key = format!("c19:static-view:{op}:{}:expected-{want}", if kind.is_empty() { &va[..1] } else { kind });
                                        self.rep.violation(&key, &format!("{op} gave {got}, expected {want}: {va} seen as {ta} vs {vb} seen as {tb} :: {src}"), "c19", &src);
                                    }
                                }
                            }
                            Ok(v) => self.rep.violation("c19:static-view:arity", &format!("{src}: {v:?}"), "c19", &src),
                            Err(why) if why.starts_with("rejected") => self.rep.count("static-view-rejected"),
                            Err(why) => self.rep.violation(&format!("c19:static-view:eval:{}", truncate(&why, 60)), &format!("{src}: {why}"), "c19", &src),
                        }
                    }
                }
            }
        }
    }

    /// host-built arrays with every stored element type, compared in-language through a parsed function
    fn host_built(&mut self) {
        let interp = Interpreter::with_stdlib();
        let f = match real::guarded(|| Code::parse(&interp, "(x: [any], y: [any]) -> (bool, bool) { return (x == y, x != y) }").and_then(|c| Ok(c.exec()?))) {
            Ok(Ok(Variable::Function(f))) => f,
            _ => {
                self.rep.inconclusive("host-function-rejected");
                return;
            }
        };
        let stored = [Type::Any, Type::Int, Type::Never, Type::Int | Type::String, Type::Float];
        for ca in contents() {
            for cb in contents() {
                let expected = El::A(ca.clone()).eq(&El::A(cb.clone()));
                for ta in &stored {
                    for tb in &stored {
                        let a = Variable::Array(Arc::new(Array::new_with_type(ta.clone(), ca.iter().map(El::value).collect::<Vec<_>>().into())));
                        let b = Variable::Array(Arc::new(Array::new_with_type(tb.clone(), cb.iter().map(El::value).collect::<Vec<_>>().into())));
                        self.rep.evaluations += 1;
                        self.rep.count("host-built-pairs");
                        let direct = real::guarded(|| a == b);
                        let call = real::guarded(|| f.clone().create_call(vec![a.clone(), b.clone()]).map(|c| c.exec()));
                        let in_lang = match call {
                            Ok(Ok(Ok(Variable::Tuple(t)))) if t.len() == 2 => Some((t[0] == Variable::Bool(true), t[1] == Variable::Bool(true))),
                            _ => None,
                        };
                        let what = format!("contents {} vs {} with stored element types {} / {}", El::A(ca.clone()).text(false), El::A(cb.clone()).text(false), ta, tb);
                        if direct.as_ref().ok() != Some(&expected) {
                            self.rep.violation(&format!("c19:host:PartialEq:expected-{expected}"), &format!("Variable == gave {direct:?}, expected {expected}: {what}"), "c19-note", &what);
                        }
                        match in_lang {
                            Some((eq, ne)) if eq == expected && ne != expected => {}
                            Some((eq, ne)) => self.rep.violation(&format!("c19:host:in-language:expected-{expected}"), &format!("x == y gave {eq}, x != y gave {ne}, expected {expected}: {what}"), "c19-note", &what),
                            None => self.rep.count("host-built-call-not-accepted"),
                        }
                    }
                }
            }
        }
    }
}

pub fn run(cfg: &Cfg, rep: &mut Report) {
    let deadline = Deadline::new(cfg.budget_s);
    let mut ctx = Ctx { rep };
    if cfg.shard == 0 {
        ctx.scalars();
    }
    if cfg.shard == 1 % cfg.nshards {
        ctx.host_built();
    }
    ctx.static_views(cfg);
    ctx.scalar_matrix(cfg);
    ctx.wide(cfg);
    let cs = contents();
    let wraps: &[&str] = if cfg.thorough() { &["plain", "tuple", "struct", "nested"] } else { &["plain", "tuple"] };
    let mut cell = 0u64;
    for (i, ca) in cs.iter().enumerate() {
        for (j, cb) in cs.iter().enumerate() {
            // equal contents, and contents of equal length or one-element difference (the interesting unequal ones)
            let related = i == j || ca.len() == cb.len() || ca.is_empty() || cb.is_empty();
            if !related {
                continue;
            }
            for pa in PATHS {
                for pb in PATHS {
                    cell += 1;
                    if !cfg.owns(cell) {
                        continue;
                    }
                    if cell % 64 == 0 && deadline.over() {
                        ctx.rep.inconclusive("budget-cut");
                        return;
                    }
                    for hidden in [false, true] {
                        for w in wraps {
                            if *w != "plain" && (cell + hidden as u64) % 5 != 0 && !cfg.thorough() {
                                continue;
                            }
                            ctx.check_pair(ca, cb, pa, pb, hidden, w);
                        }
                    }
                }
            }
        }
    }
}

pub fn replay(payload: &str, rep: &mut Report) {
    let src = payload.trim();
    rep.evaluations += 1;
    rep.notes.push(format!("replay: {src} => {:?}", eval_bools(src)));
    // the full grid is cheap: rerun it so the same key is produced if the defect persists
    let cfg = Cfg { prop: "C19".into(), tier: "quick".into(), seed: 1, shard: 0, nshards: 1, out: String::new(), replay: None, budget_s: 60.0, extra: Default::default() };
    run(&cfg, rep);
}
