//! C17 embedding API: REPL (incremental, unscoped) vs batch for every split; exec isolation and
//! repeatability; host calls (create_call) vs in-language calls.
use crate::ast::{Mode, PRELUDE, S, print_stm};
use crate::genp::{Gen, Profile};
use crate::oracle::{Ty, ValueGen, canon};
use crate::real::{self, Outcome, PanicKind};
use crate::util::{Cfg, Deadline, Obj, Report, Rng, truncate};
use simplesl::variable::{Typed, Variable};
use simplesl::{Code, Interpreter, function::Function};
use std::collections::BTreeSet;
use std::sync::Arc;

const FUEL: u64 = 6_000;

fn profile() -> Profile {
    let mut p = Profile::mixed();
    p.name = "repl";
    p.min_stmts = 2;
    p.max_stmts = 6;
    p.max_depth = 2;
    p.err = 3;
    // few names (collisions between inputs), among them the locals of the built-in helper closures: a helper that
    // binds them in the caller's scope overwrites the REPL's persistent variables
    p.names = &["a", "b", "f", "x", "default", "iterator", "res", "value", "func", "iter", "acc"];
    p.iterators = 40;
    // let, fn, effect-expr, if, ifset, match, while, for, loop, destruct, block, typed-let-stm
    p.w = [40, 18, 16, 3, 1, 2, 2, 3, 1, 6, 2, 6];
    p.closures = 30;
    p.cells = 35;
    // a cell whose type is inferred from a union-typed initial value gets its type from the *actual* value on the
    // incremental route (recorded finding, judged on the fixed INFERRED_CELL histories below); not generated
    p.inferred_union_cells = false;
    p
}

/// histories on which the run-time type of a cell created by `mut e` depends on the route (see DESIGN.md section 5)
const INFERRED_CELL: &[&[&str]] = &[
    &["hi := (v: int) -> int { return v };", "c2 := [5, \"s\"][hi(0)];", "c := mut (c2);", "if x: mut int = c { 1 } else { 2 }"],
    &["hi := (v: int) -> int { return v };", "c2 := [5, 2.5][hi(0)];", "c := mut (c2);", "c"],
    &["f := (v: int|string) -> int|string { return v };", "u := f(3);", "cs := [mut (u)];", "cs[0]"],
];

fn check_inferred_cells(rep: &mut Report) {
    for groups in INFERRED_CELL {
        let groups: Vec<String> = groups.iter().map(|g| g.to_string()).collect();
        let inc = run_groups(&groups, &[]);
        let bat = run_groups(&[groups.join(" ")], &[]);
        rep.evaluations += 2;
        rep.count("inferred-cell-histories");
        match (inc.last(), bat.last()) {
            (Some(Step::Done(a, _)), Some(Step::Done(b, _))) if a != b => {
                let payload = format!("#class inferred-cell-type\n{}", groups.join("\n"));
                rep.violation("c17:repl-vs-batch:inferred-cell-type", &format!("incremental {a} vs batch {b} :: {}", groups.join(" | ")), "c17-text", &payload);
            }
            (Some(Step::Done(..)), Some(Step::Done(..))) => {}
            other => rep.violation("c17:repl-vs-batch:inferred-cell-type:not-completed", &format!("{other:?} :: {}", groups.join(" | ")), "c17-text", &groups.join("\n")),
        }
    }
}

/// top-level statements (without the final observing expression) and the names they declare
fn gen_statements(seed: u64, shard: u64, index: u64) -> (Vec<S>, Vec<String>) {
    let mut rng = Rng::derive(seed ^ 0xC17, shard.wrapping_mul(1_000_003).wrapping_add(index));
    let mut g = Gen::new(&mut rng, profile());
    let n = g.p.min_stmts + g.rng.below(g.p.max_stmts - g.p.min_stmts + 1);
    let mut body = Vec::new();
    for _ in 0..n {
        let d = g.p.max_depth;
        body.push(g.stm(d));
    }
    let names: BTreeSet<String> = g.visible().into_iter().map(|(n, _)| n).collect();
    (body, names.into_iter().collect())
}

#[derive(Clone, Debug, PartialEq)]
enum Step {
    /// (last result, values of all names) - canonical, with aliasing across names visible
    Done(String, String),
    Failed(String),
    Rejected(String),
    Inconclusive,
}

fn snapshot(interp: &Interpreter, names: &[String]) -> String {
    // one tuple of all variables so that aliasing between variables is part of the canonical form
    let vals: Vec<Variable> = names.iter().map(|n| interp.get_variable(n).cloned().unwrap_or(Variable::String(Arc::from("<unbound>")))).collect();
    let mut s = canon(&Variable::Tuple(vals.into()));
    // function types may print differently only through member order; canon already sorts
    s.push_str(&format!(" /{}", names.join(",")));
    s
}

/// run `groups` (each a text) one after the other in one interpreter, the way the REPL does
fn run_groups(groups: &[String], names: &[String]) -> Vec<Step> {
    let mut interp = Interpreter::with_stdlib();
    let mut out = Vec::new();
    // the prelude is the first REPL input
    if let Ok(Ok(code)) = real::guarded(|| Code::parse(&interp, PRELUDE)) {
        let _ = real::guarded(|| code.exec_unscoped(&mut interp));
    }
    for g in groups {
        let code = match real::guarded(|| Code::parse(&interp, g)) {
            Err(p) if p.kind == PanicKind::Panic => {
                out.push(Step::Failed(format!("panic-at-parse:{}", p.site())));
                return out;
            }
            Err(_) => {
                out.push(Step::Inconclusive);
                return out;
            }
            Ok(Err(e)) => {
                out.push(Step::Rejected(real::error_variant(&e)));
                return out;
            }
            Ok(Ok(c)) => c,
        };
        let r = real::guarded(|| {
            real::arm(FUEL, real::DEFAULT_DEPTH);
            code.exec_unscoped(&mut interp)
        });
        simplesl::verif::set_fuel(u64::MAX);
        match r {
            Err(p) if p.kind == PanicKind::Panic => {
                out.push(Step::Failed(format!("panic:{}", p.site())));
                return out;
            }
            Err(_) => {
                out.push(Step::Inconclusive);
                return out;
            }
            Ok(Err(e)) => {
                out.push(Step::Failed(format!("error:{e:?}")));
                return out;
            }
            Ok(Ok(v)) => out.push(Step::Done(canon(&v), snapshot(&interp, names))),
        }
    }
    out
}

/// did a value outside its static type (C01's monitor) precede whatever happened in this program? then a panic is the
/// consequence of that (listed) finding and says nothing about the embedding API
fn after_unsound_value(text: &str) -> bool {
    let full = if text.contains("log := mut [int] []") { text.to_string() } else { format!("{PRELUDE}{text}") };
    let m = crate::props::sound::run_text(&full, FUEL);
    !m.state.violations.is_empty() || m.state.tainted.is_some()
}

fn check_repl(seed: u64, shard: u64, index: u64, rep: &mut Report) {
    let (body, names) = gen_statements(seed, shard, index);
    let texts: Vec<String> = body.iter().map(|s| format!("{};", print_stm(s, if index % 2 == 0 { Mode::Literal } else { Mode::Hidden }))).collect();
    check_repl_texts(&texts, &names, rep);
}

/// hand-written histories around what the generated ones reach only by luck: one site evaluated several times,
/// names of earlier inputs re-bound locally, state created by a run, the helper closures' own names
const FIXED_HISTORIES: &[&[&str]] = &[
    // a cell over a constant content is a new cell each time its expression is evaluated - each run of the program included
    &["s := mut (0, 10);", "t := *s;", "s = (t.0 + 1, t.1);", "u := *s;", "u.0"],
    &["s := mut (int, (int, int)) (0, (1, 2));", "t := *s;", "s = (t.0 + 1, t.1);", "u := *s;", "(u.0, u.1)"],
    &["s := mut [0, 10];", "s += [1];", "std.len(*s)"],
    &["s := mut struct{n := 0};", "t := *s;", "s = struct{n := t.n + 1};", "u := *s;", "u.n"],
    &["s := mut \"a\";", "s += \"b\";", "*s"],
    &["s := mut ((), true);", "s = ((), false);", "t := *s;", "t.1"],
    &["mk := () -> int { s := mut (0, 10); t := *s; s = (t.0 + 1, t.1); u := *s; return u.0 };", "a := mk();", "b := mk();", "(a, b, mk())"],
    &["out := mut [int] [];", "i := mut 0;", "while *i < 3 { s := mut (0, 10); t := *s; s = (t.0 + 1, t.1); u := *s; out += [u.0]; i += 1; };", "*out"],
    &["arr := [1, 2, 3];", "t := () -> int { return arr~ $+ };", "a := t();", "b := t();", "(a, b)"],
    &["arr := [1, 2, 3];", "a := arr~ $];", "b := arr~ $];", "(a, b)"],
    &["arr := [1, 2, 3];", "s := mut 0;", "for k in [1, 2]~ { for x in arr~ { s += x; } };", "*s"],
    &["it := [1, 2, 3]~;", "a := it();", "b := it $];", "c := it $];", "(a, b, c)"],
    &["f := () -> int { it := [mut 1, 2]~ ? mut int; it(); d := it().1; d += 1; return *d };", "a := f();", "b := f();", "(a, b)"],
    &["c := mut 0;", "g := () -> int { c += 1; return *c };", "a := g();", "b := g();", "(a, b, *c)"],
    &["n := 3;", "f := (x: int) -> int { return x + n };", "n := 10;", "a := f(1);", "(a, n)"],
    &["x := 1;", "add := (x: int) -> int { return x + 100 };", "add(5)"],
    &["x := 1;", "x := 10; z := x + 1;", "(x, z)"],
    &["i := 100;", "s := mut 0;", "for i in [1, 2, 3]~ { s += i };", "(*s, i)"],
    &["default := 7;", "iterator := 8;", "xs := [1, \"a\", 2];", "r := xs~ ? int $];", "(default, iterator, r)"],
    &["res := 1;", "con := 2;", "value := 3;", "ys := [4, 5]~ $];", "acc := 6;", "s := [1, 2]~ $+;", "(res, con, value, ys, acc, s)"],
    &["mapper := 1;", "predicate := 2;", "func := 3;", "m := [1, 2]~ @ (x: int) -> int { return x * 2 } $];", "q := [1, 2]~ ? (x: int) -> bool { return x > 1 } $];", "(mapper, predicate, func, m, q)"],
    &["u := [1, \"s\"][0];", "w := if v: int = u { v + 1 } else { 0 };", "w"],
    &["xs := [];", "ys := xs + [1];", "c := mut [int] xs;", "c += [2];", "(*c, ys)"],
    &["f := (n: int) -> int { if n <= 0 { return 0 } return n + f(n - 1) };", "g := f;", "f := (n: int) -> int { return 100 };", "(g(3), f(3))"],
    &["m := mod { a := 1; b := (x: int) -> int { return x + a } };", "a := 50;", "(m.b(1), m.a, a)"],
    &["t := (1, \"s\");", "(p, q) := t;", "p := q;", "(p, q, t)"],
    // containers built from names whose declared type is wider than their value, then asked for their run-time type
    &["pick := (n: int) -> int|string { if n > 0 { return n } return \"s\" };", "y := pick(3);", "a := [y, 4];", "r := if o: [int] = a { 7 } else { 0 - 1 };", "r"],
    &["pick := (n: int) -> int|string { if n > 0 { return n } return \"s\" };", "y := pick(0);", "a := [y, \"t\"];", "k := match a { x: [int] => \"ints\", z: [string] => \"strings\", w: [int|string] => \"mixed\", };", "k"],
    &["pick := (n: int) -> int|string { if n > 0 { return n } return \"s\" };", "y := pick(3);", "t := (y, 1);", "r := if o: (int, int) = t { 1 } else { 2 };", "(r, t)"],
    &["pick := (n: int) -> int|string { if n > 0 { return n } return \"s\" };", "y := pick(3);", "s := struct{f := y};", "r := if o: struct{f: int} = s { 1 } else { 2 };", "r"],
    &["pick := (n: int) -> int|string { if n > 0 { return n } return \"s\" };", "y := pick(3);", "a := [y; 2];", "b := [y] + [5];", "r := ([a, b]~ ? [int] $]);", "std.len(r)"],
    &["pick := (n: int) -> int|string { if n > 0 { return n } return \"s\" };", "y := pick(3);", "it := [y, 4]~;", "r := if f: () -> (bool, int) = it { 1 } else { 2 };", "r"],
    &["pick := (n: int) -> int|string { if n > 0 { return n } return \"s\" };", "y := pick(3);", "c := mut [int|string] [y];", "r := if o: mut [int] = c { 1 } else { 2 };", "r"],
];

fn check_repl_texts(texts: &[String], names: &[String], rep: &mut Report) {
    let n = texts.len();
    rep.count("histories");
    rep.distinct_case(&texts.join(" "));
    // batch route: every prefix as one program (one REPL input holding the whole prefix)
    let mut batch: Vec<Option<(String, String)>> = Vec::new();
    for k in 1..=n {
        let whole = texts[..k].join(" ");
        let steps = run_groups(&[whole], names);
        rep.evaluations += 1;
        batch.push(match steps.last() {
            Some(Step::Done(r, vars)) => Some((r.clone(), vars.clone())),
            Some(Step::Failed(w)) if w.starts_with("panic") => {
                if after_unsound_value(&texts[..k].join(" ")) {
                    rep.count("not-judged:panic-after-unsound-value");
                    return;
                }
                rep.violation(&format!("c17:batch:{w}"), &format!("batch run panicked: {w} :: {}", truncate(&texts[..k].join(" "), 400)), "c17-text", &texts[..k].join(" "));
                None
            }
            _ => None,
        });
    }
    // incremental route under every split of the statements into REPL inputs
    let splits: Vec<u32> = if n <= 6 { (0..(1u32 << (n - 1))).collect() } else { (0..32).collect() };
    for mask in splits {
        // bit i set = boundary after statement i
        let mut groups: Vec<String> = Vec::new();
        let mut ends: Vec<usize> = Vec::new();
        let mut cur = String::new();
        for i in 0..n {
            cur.push_str(&texts[i]);
            cur.push(' ');
            if i == n - 1 || mask >> i & 1 == 1 {
                groups.push(std::mem::take(&mut cur));
                ends.push(i + 1);
            }
        }
        if groups.len() == 1 {
            continue; // that is the batch route itself
        }
        let steps = run_groups(&groups, names);
        rep.evaluations += 1;
        rep.count("splits");
        for (gi, step) in steps.iter().enumerate() {
            let k = ends[gi];
            match (step, &batch[k - 1]) {
                (Step::Done(r, vars), Some((br, bvars))) => {
                    rep.count("prefixes-compared");
                    if r != br {
                        rep.violation(
                            "c17:repl-vs-batch:last-result",
                            &format!("after {k} statements (split {mask:b}) the incremental route yields {} but the batch route {} :: {}", truncate(r, 200), truncate(br, 200), truncate(&groups.join(" ⏎ "), 500)),
                            "c17-text",
                            &groups.join("\n"),
                        );
                        return;
                    }
                    if vars != bvars {
                        rep.violation(
                            "c17:repl-vs-batch:variables",
                            &format!("after {k} statements (split {mask:b}) top-level variables are {} incrementally but {} in batch :: {}", truncate(vars, 300), truncate(bvars, 300), truncate(&groups.join(" ⏎ "), 500)),
                            "c17-text",
                            &groups.join("\n"),
                        );
                        return;
                    }
                }
                (Step::Failed(w), _) if w.starts_with("panic") => {
                    if after_unsound_value(&groups.join(" ")) {
                        rep.count("not-judged:panic-after-unsound-value");
                        return;
                    }
                    rep.violation(&format!("c17:incremental:{w}"), &format!("incremental run panicked: {w} :: {}", truncate(&groups.join(" ⏎ "), 500)), "c17-text", &groups.join("\n"));
                    return;
                }
                (Step::Rejected(_), Some(_)) => rep.count("incremental-rejects-what-batch-accepts"),
                (Step::Done(..), None) => rep.count("incremental-completes-what-batch-does-not"),
                _ => {}
            }
        }
    }
    rep.sample("history", 3, || Obj::new().raw("statements", crate::util::json_arr(&texts.iter().map(|t| crate::util::json_str(t)).collect::<Vec<_>>())).render());
}

fn cells_of(v: &Variable, out: &mut Vec<usize>, depth: usize) {
    if depth > 30 {
        return;
    }
    match v {
        Variable::Mut(c) => {
            let p = Arc::as_ptr(c) as usize;
            if !out.contains(&p) {
                out.push(p);
                if let Ok(g) = c.variable.try_read() {
                    let inner = g.clone();
                    drop(g);
                    cells_of(&inner, out, depth + 1);
                }
            }
        }
        Variable::Array(a) => a.iter().for_each(|e| cells_of(e, out, depth + 1)),
        Variable::Tuple(t) => t.iter().for_each(|e| cells_of(e, out, depth + 1)),
        Variable::Struct(s) => s.values().for_each(|e| cells_of(e, out, depth + 1)),
        _ => {}
    }
}

/// exec never modifies the parse interpreter; a second exec equals the first with fresh mutable state
fn check_exec(seed: u64, shard: u64, index: u64, rep: &mut Report) {
    let (body, names) = gen_statements(seed ^ 7, shard, index);
    // odd cases: nothing is set up before parsing, so every cell and every effect belongs to the execution itself
    let pre_n = if index % 2 == 1 { 0 } else { body.len() / 2 };
    let mode = if index % 2 == 0 { Mode::Literal } else { Mode::Hidden };
    let pre: String = body[..pre_n].iter().map(|s| format!("{}; ", print_stm(s, mode))).collect();
    let main: String = body[pre_n..].iter().map(|s| format!("{}; ", print_stm(s, mode))).collect();
    let observe = format!("({}, *log)", names.iter().map(|n| n.as_str()).chain(["0"]).collect::<Vec<_>>().join(", "));
    let mut interp = Interpreter::with_stdlib();
    let setup = if pre_n == 0 { String::new() } else { format!("{PRELUDE}{pre}") };
    let set_up = real::guarded(|| {
        real::arm(FUEL, real::DEFAULT_DEPTH);
        Code::parse(&interp, &setup).map(|c| c.exec_unscoped(&mut interp))
    });
    simplesl::verif::set_fuel(u64::MAX);
    match set_up {
        Ok(Ok(Ok(_))) => {}
        _ => {
            rep.count("exec:setup-not-accepted");
            return;
        }
    }
    // with nothing set up, the prelude (log cell, helpers) is part of the executed program itself
    let text = if pre_n == 0 { format!("{PRELUDE}{main}{observe}") } else { format!("{main}{observe}") };
    let code = match real::guarded(|| Code::parse(&interp, &text)) {
        Ok(Ok(c)) => c,
        Ok(Err(_)) => {
            rep.count("exec:program-rejected");
            return;
        }
        Err(p) => {
            if p.kind == PanicKind::Panic {
                rep.violation(&format!("c17:exec:panic-at-parse:{}", p.site()), &format!("{} :: {}", p.short_msg(), truncate(&text, 300)), "c17-text", &format!("{setup}\n{text}"));
            }
            return;
        }
    };
    rep.count("exec-cases");
    rep.distinct_case(&("exec", &setup, &text));
    let all_names: Vec<String> = names.iter().cloned().chain(["log".to_string()]).collect();
    // identity of what the interpreter holds: pointer of cells / functions, canonical value otherwise
    // cells and functions by identity (their contents may legitimately change: they are shared), the rest by value
    fn ident_value(v: &Variable, depth: usize) -> String {
        if depth > 20 {
            return "…".into();
        }
        match v {
            Variable::Mut(c) => format!("cell@{:x}", Arc::as_ptr(c) as usize),
            Variable::Function(f) => format!("fn@{:x}", Arc::as_ptr(f) as usize),
            Variable::Array(a) => format!("[{}]", a.iter().map(|e| ident_value(e, depth + 1)).collect::<Vec<_>>().join(", ")),
            Variable::Tuple(t) => format!("({})", t.iter().map(|e| ident_value(e, depth + 1)).collect::<Vec<_>>().join(", ")),
            Variable::Struct(s) => {
                let mut items: Vec<String> = s.iter().map(|(k, e)| format!("{k}={}", ident_value(e, depth + 1))).collect();
                items.sort();
                format!("struct{{{}}}", items.join(", "))
            }
            other => canon(other),
        }
    }
    let ident = |interp: &Interpreter| -> Vec<String> {
        all_names
            .iter()
            .map(|n| match interp.get_variable(n) {
                None => format!("{n}:<unbound>"),
                Some(v) => format!("{n}:{}", ident_value(v, 0)),
            })
            .collect()
    };
    let before = ident(&interp);
    let log_before = crate::prog::read_log(&interp);
    let run = |code: &Code| {
        let r = real::guarded(|| {
            real::arm(FUEL, real::DEFAULT_DEPTH);
            code.exec()
        });
        simplesl::verif::set_fuel(u64::MAX);
        r
    };
    let r1 = run(&code);
    let after = ident(&interp);
    rep.evaluations += 1;
    if before != after {
        let diff: Vec<String> = before.iter().zip(&after).filter(|(a, b)| a != b).map(|(a, b)| format!("{a} -> {b}")).collect();
        rep.violation("c17:exec:modifies-parse-interpreter", &format!("Code::exec changed the interpreter it was parsed against: {} :: {}", truncate(&diff.join("; "), 300), truncate(&text, 300)), "c17-text", &format!("{setup}\n{text}"));
        return;
    }
    // shared cells may legitimately be written by the program; to compare two executions the cells the
    // interpreter holds are reset is not possible through the API, so repeatability is judged only when the
    // first execution left the pre-existing log untouched
    let log_after = crate::prog::read_log(&interp);
    let r2 = run(&code);
    rep.evaluations += 1;
    match (r1, r2) {
        (Ok(Ok(v1)), Ok(Ok(v2))) => {
            rep.count("exec:both-complete");
            let _ = (&log_before, &log_after);
            if pre_n == 0 {
                // nothing existed before parsing: the program owns all its state, results must be equal
                rep.count("exec:repeatability-judged");
                if canon(&v1) != canon(&v2) {
                    rep.violation("c17:exec:second-run-differs", &format!("two executions of one parsed program differ: {} vs {} :: {}", truncate(&canon(&v1), 200), truncate(&canon(&v2), 200), truncate(&text, 300)), "c17-text", &format!("{setup}\n{text}"));
                    return;
                }
            }
            // fresh mutable state: cells reachable from the two results are disjoint, except cells that
            // existed before (held by the interpreter or captured from it)
            let mut pre_cells = Vec::new();
            for n in &all_names {
                if let Some(v) = interp.get_variable(n) {
                    cells_of(v, &mut pre_cells, 0);
                }
            }
            let (mut c1, mut c2) = (Vec::new(), Vec::new());
            cells_of(&v1, &mut c1, 0);
            cells_of(&v2, &mut c2, 0);
            let shared: Vec<&usize> = c1.iter().filter(|p| c2.contains(p) && !pre_cells.contains(p)).collect();
            rep.add("exec:cells-in-results", (c1.len() + c2.len()) as u64);
            if !shared.is_empty() && pre_n == 0 {
                rep.violation("c17:exec:executions-share-a-cell", &format!("two executions of one parsed program share {} mutable cell(s) created during execution :: {}", shared.len(), truncate(&text, 300)), "c17-text", &format!("{setup}\n{text}"));
            }
        }
        (Err(p), _) | (_, Err(p)) if p.kind == PanicKind::Panic => {
            if after_unsound_value(&format!("{setup}\n{text}")) {
                rep.count("not-judged:panic-after-unsound-value");
                return;
            }
            rep.violation(&format!("c17:exec:panic:{}", p.site()), &format!("{} :: {}", p.short_msg(), truncate(&text, 300)), "c17-text", &format!("{setup}\n{text}"));
        }
        _ => rep.count("exec:not-both-complete"),
    }
}

/// functions held by the interpreter may have captured cells that cannot be enumerated through the API
fn has_captured_cells(interp: &Interpreter, names: &[String]) -> bool {
    names.iter().any(|n| matches!(interp.get_variable(n), Some(Variable::Function(_))))
}

const HOST_FUNCTIONS: &[&str] = &[
    // union parameters whose alternatives are structured types: an argument matches an alternative without being it
    "f := (a: [any]|string) -> int { return std.len(a) }",
    "f := (a: [int]|()) -> int { return if x: [int] = a { std.len(x) } else { 0 - 1 } }",
    "f := (t: (int|float, int)|()) -> int { return if x: (int|float, int) = t { x.1 } else { 0 } }",
    "f := (s: struct{a: int|string}|int) -> int { return 1 }",
    "f := (h: (int)->(int|string)|()) -> int { return 2 }",
    "f := (a: [[int]]|[string], b: [int|string]) -> int { return std.len(a) + std.len(b) }",
    "f := () -> int { return 7 }",
    "f := () -> () { }",
    "g := (g: int) -> int { return g }",
    "f := (a: int, b: string) -> string { return b }",
    "f := (u: int|string) -> int|string { return u }",
    "f := (xs: [int]) -> int { return xs~ $+ }",
    "f := (xs: [any]) -> int { return std.len(xs) }",
    "f := (c: mut int) -> int { c += 1; return *c }",
    "f := (c: mut (int|string)) -> int|string { return *c }",
    "f := (h: (int)->int, x: int) -> int { return h(x) }",
    "f := (h: (int|string)->int) -> int { return h(1) }",
    "f := () -> int { return 7 }",
    "f := (t: (int, string)) -> int { return t.0 }",
    "f := (s: struct{a: int}) -> int { return s.a }",
    "f := (it: ()->(bool, int)) -> [int] { return it $] }",
    "f := (a: any) -> any { return a }",
    "f := (x: float) -> float { return x * 2.0 }",
    "f := (f: int, g: int) -> int { return f + g }",
    "fact := (n: int) -> int { if n <= 1 { return 1 } return n * fact(n - 1) }",
    "f := (a: [int|string]) -> int { return std.len(a) }",
    "f := (a: int) -> (int) -> int { return (b: int) -> int { return a + b } }",
];

fn host_vs_language(f: &Arc<Function>, args: &[Variable], args_lang: &[Variable], args_session: &[Variable], compare_results: bool, what: &str, rep: &mut Report) {
    rep.evaluations += 1;
    rep.count("host-call-comparisons");
    // host route
    let host = real::guarded(|| f.clone().create_call(args.to_vec()));
    let host_out: Result<Option<Variable>, String> = match host {
        Err(p) => Err(format!("panic:{}", p.site())),
        Ok(Err(e)) => Ok(None).and_then(|_: Option<Variable>| Err(format!("rejected:{}", real::error_variant(&e)))),
        Ok(Ok(code)) => match real::exec_code(&code, FUEL) {
            Outcome::Value(v) => Ok(Some(v)),
            Outcome::ExecErr(Some(k), _) => Err(format!("error:{}", k.name())),
            Outcome::Panic(p) if p.kind == PanicKind::Panic => Err(format!("panic:{}", p.site())),
            other => Err(format!("other:{}", other.tag())),
        },
    };
    // the host call run *unscoped* in a session that already holds variables named like everything the function's
    // text mentions: the call must leave the session's variables alone (its frame is its own)
    if let Ok(Ok(code)) = real::guarded(|| f.clone().create_call(args_session.to_vec())) {
        let mut session = Interpreter::without_stdlib();
        let mut idents: BTreeSet<String> = BTreeSet::new();
        let mut cur = String::new();
        for ch in what.chars().chain(std::iter::once(' ')) {
            if ch.is_alphanumeric() || ch == '_' {
                cur.push(ch);
            } else {
                if cur.chars().next().is_some_and(|c| c.is_alphabetic()) && cur.len() <= 12 {
                    idents.insert(std::mem::take(&mut cur));
                }
                cur.clear();
            }
        }
        for n in &idents {
            session.insert(Arc::from(n.as_str()), Variable::String(Arc::from(format!("session-{n}"))));
        }
        let ran = real::guarded(|| {
            real::arm(FUEL, real::DEFAULT_DEPTH);
            code.exec_unscoped(&mut session)
        });
        simplesl::verif::set_fuel(u64::MAX);
        if ran.is_ok() {
            rep.count("host-call:unscoped-session-checked");
            for n in &idents {
                let want = Variable::String(Arc::from(format!("session-{n}")));
                if session.get_variable(n) != Some(&want) {
                    rep.violation(
                        "c17:host-call:session-variable-overwritten",
                        &format!("{what}: after the host call ran unscoped, the session's variable `{n}` is {} instead of its own value", session.get_variable(n).map_or("unbound".to_string(), |v| truncate(&canon(v), 80))),
                        "c17-host",
                        what,
                    );
                    break;
                }
            }
        }
    }
    // in-language route: bind the function and the arguments as interpreter variables
    let mut interp = Interpreter::with_stdlib();
    interp.insert(Arc::from("callee__"), Variable::Function(f.clone()));
    let mut names = Vec::new();
    for (i, a) in args_lang.iter().enumerate() {
        let n = format!("arg{i}__");
        interp.insert(Arc::from(n.as_str()), a.clone());
        names.push(n);
    }
    let src = format!("callee__({})", names.join(", "));
    let lang_out: Result<Option<Variable>, String> = match real::parse_exec_in(&interp, &src, FUEL).0 {
        Outcome::Value(v) => Ok(Some(v)),
        Outcome::Rejected(v, _) => Err(format!("rejected:{v}")),
        Outcome::ExecErr(Some(k), _) => Err(format!("error:{}", k.name())),
        Outcome::Panic(p) if p.kind == PanicKind::Panic => Err(format!("panic:{}", p.site())),
        other => Err(format!("other:{}", other.tag())),
    };
    let shown = format!("{what} with ({})", args.iter().map(|a| truncate(&canon(a), 60)).collect::<Vec<_>>().join(", "));
    let accepted = |r: &Result<Option<Variable>, String>| !matches!(r, Err(e) if e.starts_with("rejected"));
    if host_out.as_ref().err().is_some_and(|e| e.starts_with("other")) || lang_out.as_ref().err().is_some_and(|e| e.starts_with("other")) {
        rep.inconclusive("fuel-or-resource");
        return;
    }
    if accepted(&host_out) != accepted(&lang_out) {
        rep.violation("c17:host-call:acceptance-differs", &format!("{shown}: create_call {} but the in-language call {}", describe(&host_out), describe(&lang_out)), "c17-host", &shown);
        return;
    }
    rep.count(if accepted(&host_out) { "host-call:both-accept" } else { "host-call:both-reject" });
    if !compare_results {
        return;
    }
    match (&host_out, &lang_out) {
        (Ok(Some(a)), Ok(Some(b))) => {
            if canon(a) != canon(b) {
                rep.violation("c17:host-call:result-differs", &format!("{shown}: create_call returned {} but the in-language call {}", truncate(&canon(a), 200), truncate(&canon(b), 200)), "c17-host", &shown);
            }
        }
        (Err(a), Err(b)) if a != b && !(a.starts_with("rejected") && b.starts_with("rejected")) => {
            rep.violation("c17:host-call:outcome-differs", &format!("{shown}: create_call {a} but the in-language call {b}"), "c17-host", &shown);
        }
        (Ok(_), Err(e)) | (Err(e), Ok(_)) => {
            rep.violation("c17:host-call:outcome-differs", &format!("{shown}: one route completed, the other {e}"), "c17-host", &shown);
        }
        _ => {}
    }
}

fn describe(r: &Result<Option<Variable>, String>) -> String {
    match r {
        Ok(Some(v)) => format!("returned {}", truncate(&canon(v), 100)),
        Ok(None) => "accepted".into(),
        Err(e) => e.clone(),
    }
}

fn check_host_calls(f: &Arc<Function>, what: &str, rng: &mut Rng, rep: &mut Report, compare_results: bool) {
    let Ty::Fun(ps, _) = Ty::from_real(&f.as_type()) else { return };
    for round in 0..6 {
        // the same arguments are generated twice (equal contents, distinct cells): one set per route
        let mut rng_b = rng.clone();
        let mut rng_c = rng.clone();
        let args_lang = gen_args(&ps, round, &mut rng_b);
        let args_session = gen_args(&ps, round, &mut rng_c);
        let args = gen_args(&ps, round, rng);
        let (Some(args), Some(args_lang), Some(args_session)) = (args, args_lang, args_session) else { return };
        host_vs_language(f, &args, &args_lang, &args_session, compare_results, what, rep);
    }
}

fn gen_args(ps: &[Ty], round: usize, rng: &mut Rng) -> Option<Vec<Variable>> {
    {
        let mut vg = ValueGen::new(rng);
        // well-typed, then deliberately ill-typed / wrong arity
        let mut args: Vec<Variable> = Vec::new();
        let mut ok = true;
        for p in ps {
            match vg.value(p, 0) {
                Some(v) => args.push(v),
                None => ok = false,
            }
        }
        if !ok {
            return None;
        }
        match round {
            0..=2 => {}
            3 => {
                args.push(Variable::Int(1));
            }
            4 => {
                if args.pop().is_none() {
                    args.push(Variable::Void);
                }
            }
            _ => {
                if !args.is_empty() {
                    let i = vg.rng.below(args.len());
                    let wrong = vg.rng.pick(&[Ty::Int, Ty::Str, Ty::Void, Ty::arr(Ty::Str), Ty::Float, Ty::mutc(Ty::Str)]).clone();
                    if let Some(v) = vg.value(&wrong, 0) {
                        args[i] = v;
                    }
                }
            }
        }
        Some(args)
    }
}

pub fn run(cfg: &Cfg, rep: &mut Report) {
    let deadline = Deadline::new(cfg.budget_s);
    let mut rng = cfg.rng(17);
    // host calls on the fixed function list (every shard a slice) ...
    for (i, src) in HOST_FUNCTIONS.iter().enumerate() {
        if !cfg.owns(i as u64) {
            continue;
        }
        if let Outcome::Value(Variable::Function(f)) = real::parse_exec(src, true) {
            for _ in 0..20 {
                check_host_calls(&f, src, &mut rng, rep, true);
            }
        } else {
            rep.notes.push(format!("host function not accepted: {src}"));
        }
    }
    if cfg.shard == 0 {
        check_inferred_cells(rep);
    }
    // histories around imported files that declare mutable state (every import builds the file's state anew)
    let idir = format!("/verif/target/scratch/c17-{}-{}", std::process::id(), cfg.shard);
    let _ = std::fs::create_dir_all(&idir);
    let state = format!("{idir}/state.ssl");
    let plain = format!("{idir}/plain.ssl");
    let _ = std::fs::write(&state, "c := mut 0; bump := () -> int { c += 1; return *c }; log := mut [int] [];");
    let _ = std::fs::write(&plain, "k := 5; twice := (x: int) -> int { return x * 2 };");
    let import_histories: Vec<Vec<String>> = vec![
        vec![format!("m := import \"{state}\";"), "a := m.bump();".into(), "b := m.bump();".into(), "(a, b, *m.c)".into()],
        vec![format!("f := () -> int {{ m := import \"{state}\"; return m.bump() }};"), "a := f();".into(), "b := f();".into(), "(a, b)".into()],
        vec!["s := mut 0;".into(), format!("for k in [1, 2, 3]~ {{ m := import \"{state}\"; s += m.bump(); }};"), "*s".into()],
        vec![format!("m := import \"{state}\";"), format!("n := import \"{state}\";"), "m.bump();".into(), "m.log += [7];".into(), "(*m.c, *n.c, *m.log, *n.log)".into()],
        vec![format!("m := import \"{plain}\";"), "k := 1;".into(), "a := m.twice(m.k + k);".into(), "(a, k, m.k)".into()],
        vec![format!("mk := () -> () -> int {{ m := import \"{state}\"; return m.bump }};"), "f := mk();".into(), "g := mk();".into(), "(f(), f(), g())".into()],
        vec![format!("m := mod {{ inner := import \"{state}\"; x := inner.bump() }};"), "y := m.inner.bump();".into(), "(m.x, y)".into()],
    ];
    let fixed: Vec<Vec<String>> = FIXED_HISTORIES.iter().map(|h| h.iter().map(|t| t.to_string()).collect()).chain(import_histories).collect();
    for (i, h) in fixed.iter().enumerate() {
        if cfg.owns(1000 + i as u64) {
            let texts: Vec<String> = h.clone();
            rep.count("fixed-histories");
            check_repl_texts(&texts, &[], rep);
            // the same history as one program: executing the parsed program again gives the same result
            let whole = texts.join(" ");
            let interp = Interpreter::without_stdlib();
            if let Ok(Ok(code)) = real::guarded(|| Code::parse(&Interpreter::with_stdlib(), &whole)) {
                let _ = interp;
                let runs: Vec<String> = (0..3).map(|_| match real::exec_code(&code, FUEL) { Outcome::Value(v) => canon(&v), other => other.tag() }).collect();
                rep.evaluations += 3;
                if runs.iter().any(|r| *r != runs[0]) {
                    rep.violation("c17:exec:second-run-differs", &format!("three executions of one parsed program gave {runs:?} :: {whole}"), "c17-text", &texts.join("\n"));
                }
                // ... and unscoped, each time in a fresh interpreter
                let runs2: Vec<String> = (0..2)
                    .map(|_| {
                        let mut fresh = Interpreter::with_stdlib();
                        match real::guarded(|| code.exec_unscoped(&mut fresh)) {
                            Ok(Ok(v)) => canon(&v),
                            Ok(Err(e)) => format!("error:{e:?}"),
                            Err(p) => format!("panic:{}", p.site()),
                        }
                    })
                    .collect();
                rep.evaluations += 2;
                if runs2[0] != runs2[1] || runs2[0] != runs[0] {
                    rep.violation("c17:exec:second-run-differs", &format!("executions of one parsed program (scoped, then unscoped in fresh interpreters) gave {runs:?} / {runs2:?} :: {whole}"), "c17-text", &texts.join("\n"));
                }
            }
        }
    }
    let _ = std::fs::remove_dir_all(&idir);
    let n = cfg.per_shard(20_000, 800_000);
    for i in 0..n {
        if i % 8 == 0 {
            if deadline.over() {
                break;
            }
            cfg.checkpoint(rep);
        }
        check_repl(cfg.seed, cfg.shard, i, rep);
        check_exec(cfg.seed, cfg.shard, i, rep);
        // ... and on every function value generated histories yield
        if i % 4 == 0 {
            let (body, names) = gen_statements(cfg.seed, cfg.shard, i);
            let text: String = body.iter().map(|s| format!("{}; ", print_stm(s, Mode::Literal))).collect();
            let mut interp = Interpreter::with_stdlib();
            let full = format!("{PRELUDE}{text}");
            let ran = real::guarded(|| {
                real::arm(FUEL, real::DEFAULT_DEPTH);
                Code::parse(&interp, &full).map(|c| c.exec_unscoped(&mut interp))
            });
            simplesl::verif::set_fuel(u64::MAX);
            if let Ok(Ok(Ok(_))) = ran {
                for nme in &names {
                    if let Some(Variable::Function(f)) = interp.get_variable(nme) {
                        let f = f.clone();
                        // generated functions may be stateful: only the acceptance of argument lists is compared
                        check_host_calls(&f, &format!("`{nme}` of {}", truncate(&text, 200)), &mut rng, rep, false);
                    }
                }
            }
        }
    }
}

pub fn replay(kind: &str, payload: &str, rep: &mut Report) {
    if kind == "c17-host" {
        rep.notes.push("host-call witnesses are re-derived from the fixed function list".into());
        let mut rng = Rng::new(17);
        for src in HOST_FUNCTIONS {
            if let Outcome::Value(Variable::Function(f)) = real::parse_exec(src, true) {
                for _ in 0..20 {
                    check_host_calls(&f, src, &mut rng, rep, true);
                }
            }
        }
        return;
    }
    // payload: REPL inputs, one per line; compare with the batch run of their concatenation
    let class = payload.lines().find_map(|l| l.strip_prefix("#class ")).map(|c| c.trim().to_string());
    let payload_owned: String = payload.lines().filter(|l| !l.starts_with("#class ")).collect::<Vec<_>>().join("\n");
    let payload = payload_owned.as_str();
    let groups: Vec<String> = payload.lines().filter(|l| !l.trim().is_empty() && !l.starts_with(PRELUDE.lines().next().unwrap_or("#"))).map(|l| l.to_string()).collect();
    let names: Vec<String> = Vec::new();
    let inc = run_groups(&groups, &names);
    let bat = run_groups(&[groups.join(" ")], &names);
    rep.evaluations += 2;
    rep.notes.push(format!("incremental: {:?}", inc.last()));
    rep.notes.push(format!("batch: {:?}", bat.last()));
    if let (Some(Step::Done(a, _)), Some(Step::Done(b, _))) = (inc.last(), bat.last()) {
        if a != b {
            let key = match &class {
                Some(c) => format!("c17:repl-vs-batch:{c}"),
                None => "c17:repl-vs-batch:last-result".to_string(),
            };
            rep.violation(&key, &format!("incremental {a} vs batch {b}"), "c17-text", payload);
        }
    }
}
