//! C14 operator precedence and associativity: metamorphic value monitor. The 14-level table of
//! docs/operators.md is encoded here; an unparenthesised expression must evaluate like its
//! table-prescribed full parenthesisation (through the real parser) and like the harness's own evaluation.
use crate::ast::PRELUDE;
use crate::oracle::canon;
use crate::props::c08::{Exp, int_oracle};
use crate::real::{self, ErrKind, Outcome, PanicKind};
use crate::util::{Cfg, Deadline, Obj, Report, truncate};
use simplesl::variable::Variable;

/// (operator, level in docs/operators.md: smaller binds tighter)
pub const BIN: [(&str, u8); 19] = [
    ("**", 4), ("*", 5), ("/", 5), ("%", 5), ("+", 6), ("-", 6), ("<<", 7), (">>", 7), ("&", 8), ("^", 9), ("|", 10), ("==", 11), ("!=", 11),
    ("<", 11), ("<=", 11), (">", 11), (">=", 11), ("&&", 12), ("||", 13),
];

#[derive(Clone, Debug)]
enum X {
    I(i64),
    B(bool),
    Bin(&'static str, Box<X>, Box<X>),
}

#[derive(Clone, Debug, PartialEq)]
enum Val {
    I(i64),
    B(bool),
}

#[derive(Clone, Debug, PartialEq)]
enum Fail {
    IllTyped,
    Err(ErrKind),
}

fn eval(x: &X) -> Result<Val, Fail> {
    match x {
        X::I(v) => Ok(Val::I(*v)),
        X::B(b) => Ok(Val::B(*b)),
        X::Bin(op, a, b) => {
            // typing first (the checker rejects before anything runs)
            ty(x)?;
            if *op == "&&" || *op == "||" {
                let l = eval(a)?;
                return match (op, l) {
                    (&"&&", Val::B(false)) => Ok(Val::B(false)),
                    (&"||", Val::B(true)) => Ok(Val::B(true)),
                    _ => eval(b),
                };
            }
            let (l, r) = (eval(a)?, eval(b)?);
            match (l, r) {
                (Val::I(p), Val::I(q)) => match int_oracle(op, p, q) {
                    Exp::Int(v) => Ok(Val::I(v)),
                    Exp::Bool(v) => Ok(Val::B(v)),
                    Exp::Err(k) => Err(Fail::Err(k)),
                    Exp::Float(_) => unreachable!(),
                },
                (Val::B(p), Val::B(q)) => Ok(Val::B(match *op {
                    "&" => p && q,
                    "|" => p || q,
                    "^" => p != q,
                    "==" => p == q,
                    "!=" => p != q,
                    _ => unreachable!(),
                })),
                (_, _) => Ok(Val::B(*op == "!=")), // == / != across kinds
            }
        }
    }
}

/// static type: true = int, false = bool
fn ty(x: &X) -> Result<bool, Fail> {
    match x {
        X::I(_) => Ok(true),
        X::B(_) => Ok(false),
        X::Bin(op, a, b) => {
            let (ta, tb) = (ty(a)?, ty(b)?);
            match *op {
                "**" | "*" | "/" | "%" | "+" | "-" | "<<" | ">>" => {
                    if ta && tb { Ok(true) } else { Err(Fail::IllTyped) }
                }
                "&" | "|" | "^" => {
                    if ta == tb { Ok(ta) } else { Err(Fail::IllTyped) }
                }
                "<" | "<=" | ">" | ">=" => {
                    if ta && tb { Ok(false) } else { Err(Fail::IllTyped) }
                }
                "==" | "!=" => Ok(false),
                "&&" | "||" => {
                    if !ta && !tb { Ok(false) } else { Err(Fail::IllTyped) }
                }
                _ => Err(Fail::IllTyped),
            }
        }
    }
}

fn level(op: &str) -> u8 {
    BIN.iter().find(|(o, _)| *o == op).map(|(_, l)| *l).unwrap_or(99)
}

/// group a flat chain by the documented table (all these levels associate left to right)
fn group(operands: &[X], ops: &[&'static str]) -> X {
    // precedence climbing
    fn climb(operands: &[X], ops: &[&'static str], pos: &mut usize, min_level: u8) -> X {
        let mut lhs = operands[*pos].clone();
        while *pos < ops.len() {
            let op = ops[*pos];
            let l = level(op);
            if l > min_level {
                break;
            }
            *pos += 1;
            // left associative: the right operand only takes strictly tighter operators
            let rhs = climb(operands, ops, pos, l - 1);
            lhs = X::Bin(op, Box::new(lhs), Box::new(rhs));
        }
        lhs
    }
    let mut pos = 0;
    climb(operands, ops, &mut pos, 98)
}

fn left_chain(operands: &[X], ops: &[&'static str]) -> X {
    let mut lhs = operands[0].clone();
    for (i, op) in ops.iter().enumerate() {
        lhs = X::Bin(op, Box::new(lhs), Box::new(operands[i + 1].clone()));
    }
    lhs
}

fn right_chain(operands: &[X], ops: &[&'static str]) -> X {
    let n = ops.len();
    let mut rhs = operands[n].clone();
    for i in (0..n).rev() {
        rhs = X::Bin(ops[i], Box::new(operands[i].clone()), Box::new(rhs));
    }
    rhs
}

fn leaf_text(x: &X, hidden: bool) -> String {
    match x {
        X::I(v) => {
            let t = crate::ast::int_text(*v);
            if hidden { format!("hi({t})") } else { t }
        }
        X::B(b) => {
            if hidden { format!("hb({b})") } else { b.to_string() }
        }
        _ => unreachable!(),
    }
}

fn paren_text(x: &X, hidden: bool) -> String {
    match x {
        X::Bin(op, a, b) => format!("({} {op} {})", paren_text(a, hidden), paren_text(b, hidden)),
        leaf => leaf_text(leaf, hidden),
    }
}

fn flat_text(operands: &[X], ops: &[&'static str], hidden: bool, spaces: bool) -> String {
    let mut s = leaf_text(&operands[0], hidden);
    for (i, op) in ops.iter().enumerate() {
        if spaces {
            s.push_str(&format!(" {op} {}", leaf_text(&operands[i + 1], hidden)));
        } else {
            s.push_str(&format!("{op}{}", leaf_text(&operands[i + 1], hidden)));
        }
    }
    s
}

fn real_val(src: &str) -> Result<Val, String> {
    match real::parse_exec(&format!("{PRELUDE}{src}"), false) {
        Outcome::Value(Variable::Int(i)) => Ok(Val::I(i)),
        Outcome::Value(Variable::Bool(b)) => Ok(Val::B(b)),
        Outcome::Value(v) => Err(format!("value {}", canon(&v))),
        Outcome::Rejected(v, Some(k)) => Err(format!("error:{} ({v})", k.name())),
        Outcome::Rejected(v, None) => Err(format!("rejected:{v}")),
        Outcome::ExecErr(Some(k), _) => Err(format!("error:{}", k.name())),
        Outcome::ExecErr(None, n) => Err(format!("error:{n}")),
        Outcome::Panic(p) if p.kind == PanicKind::Panic => Err(format!("panic:{}", p.site())),
        Outcome::Panic(_) => Err("inconclusive".into()),
    }
}

fn expect_text(e: &Result<Val, Fail>) -> String {
    match e {
        Ok(Val::I(i)) => format!("{i}"),
        Ok(Val::B(b)) => format!("{b}"),
        Err(Fail::IllTyped) => "rejected (ill-typed under the documented grouping)".into(),
        Err(Fail::Err(k)) => format!("error:{}", k.name()),
    }
}

fn agrees(expected: &Result<Val, Fail>, got: &Result<Val, String>) -> bool {
    match (expected, got) {
        (Ok(a), Ok(b)) => a == b,
        (Err(Fail::IllTyped), Err(g)) => g.starts_with("rejected:"),
        (Err(Fail::Err(k)), Err(g)) => g.starts_with(&format!("error:{}", k.name())),
        _ => false,
    }
}

struct Ctx<'a> {
    rep: &'a mut Report,
}

impl Ctx<'_> {
    fn chain(&mut self, operands: &[X], ops: &[&'static str]) {
        let prescribed = group(operands, ops);
        let expected = eval(&prescribed);
        // is the case discriminating: does some other grouping behave differently?
        let alternatives = [left_chain(operands, ops), right_chain(operands, ops)];
        let discriminating = alternatives.iter().any(|alt| eval(alt) != expected);
        if matches!(expected, Err(Fail::IllTyped)) && !discriminating {
            self.rep.count(&format!("skipped-ill-typed-under-every-grouping-{}", ops.len()));
            return; // ill-typed however it is grouped: says nothing about grouping
        }
        let opkey = ops.join(" ");
        self.rep.count(&format!("chains-of-{}-operators", ops.len()));
        for hidden in [false, true] {
            for spaces in [true, false] {
                if !spaces && ops.iter().any(|o| *o == "-") && operands.iter().any(|x| matches!(x, X::I(v) if *v < 0)) {
                    // `a-(-b)` is fine; kept
                }
                let flat = flat_text(operands, ops, hidden, spaces);
                let full = paren_text(&prescribed, hidden);
                self.rep.evaluations += 1;
                self.rep.distinct_case(&flat);
                if discriminating {
                    self.rep.count("discriminating-cases");
                    self.rep.shape("operator_chains_discriminated", &opkey);
                } else {
                    self.rep.count("non-discriminating-cases");
                }
                let got_flat = real_val(&flat);
                let got_full = real_val(&full);
                if got_flat.as_ref().err().is_some_and(|e| e == "inconclusive") {
                    self.rep.inconclusive("resource");
                    continue;
                }
                let form = if hidden { "runtime" } else { "folded" };
                // constant folding may report, at parse time, an operation on constants that always fails - even
                // one the run-time order would not reach or would reach later (the permitted difference of C04)
                let parse_time_error = |g: &Result<Val, String>| g.as_ref().err().is_some_and(|e| e.starts_with("error:") && e.contains(" ("));
                if !hidden && parse_time_error(&got_flat) && parse_time_error(&got_full) {
                    self.rep.count("folded-form-parse-time-error(permitted)");
                    continue;
                }
                if !agrees(&expected, &got_flat) {
                    let key = format!("c14:grouping:{opkey}:{form}");
                    self.rep.violation(
                        &key,
                        &format!("`{flat}` gave {got_flat:?}; the documented grouping `{full}` gives {} (real parser on the parenthesised form: {got_full:?})", expect_text(&expected)),
                        "c14",
                        &flat,
                    );
                } else if !agrees(&expected, &got_full) {
                    let key = format!("c14:parenthesised-form-disagrees:{opkey}:{form}");
                    self.rep.violation(&key, &format!("`{full}` gave {got_full:?}, expected {}", expect_text(&expected)), "c14", &full);
                }
                // both groupings inside one expression (`a - (b - c) == a - b - c`): the parenthesised operand and the bare
                // chain are different sub-expressions although they spell the same tokens
                if ops.len() == 2 && spaces && ops.iter().all(|o| level(o) < 11) {
                    for alt in &alternatives {
                        let (Ok(va), Ok(vf)) = (eval(alt), &expected) else { continue };
                        let want = va == *vf;
                        // the alternative grouping written with the parentheses it needs and no others (its top operator binds
                        // tighter than `==`), so that both groupings stand in one flat expression
                        let alt_text = match alt {
                            X::Bin(op, a, b) => format!("{} {op} {}", paren_text(a, hidden), paren_text(b, hidden)),
                            leaf => leaf_text(leaf, hidden),
                        };
                        for text in [format!("{alt_text} == {flat}"), format!("{flat} == {alt_text}"), format!("{alt_text} != {flat}")] {
                            let want = if text.contains("!=") { !want } else { want };
                            self.rep.evaluations += 1;
                            self.rep.count("twin-grouping-cases");
                            match real_val(&text) {
                                Ok(Val::B(b)) if b == want => {}
                                Err(e) if e == "inconclusive" => self.rep.inconclusive("resource"),
                                // a constant failure reported at parse time is C04's allowance
                                Err(e) if !hidden && e.starts_with("error:") && e.contains(" (") => {}
                                got => {
                                    self.rep.violation(
                                        &format!("c14:twin-grouping:{opkey}:{form}"),
                                        &format!("`{text}` gave {got:?}, expected {want}: `{alt_text}` is {va:?} and `{flat}` groups as `{full}` = {vf:?}"),
                                        "c14",
                                        &text,
                                    );
                                }
                            }
                        }
                    }
                }
                self.rep.sample("chain", 6, || Obj::new().s("flat", &flat).s("documented_grouping", &full).s("expected", &expect_text(&expected)).b("discriminating", discriminating).render());
            }
        }
    }

    /// fixed templates for the levels the generic chains do not reach (postfix, prefix, iterator level, assignments, maximal munch)
    fn template(&mut self, src: &str, grouped: &str, expected: &str, tag: &str) {
        self.rep.evaluations += 1;
        self.rep.distinct_case(src);
        self.rep.count("templates");
        self.rep.shape("templates", tag);
        let run = |s: &str| -> String {
            match real::parse_exec(&format!("{PRELUDE}{s}"), true) {
                Outcome::Value(v) => canon(&v),
                Outcome::Panic(p) => format!("panic:{}", p.site()),
                other => other.tag(),
            }
        };
        let (a, b) = (run(src), run(grouped));
        if a != expected {
            self.rep.violation(&format!("c14:template:{tag}"), &format!("`{src}` gave {a}, the documented grouping `{grouped}` gives {expected} (real: {b})"), "c14", src);
        } else if b != expected {
            self.rep.violation(&format!("c14:template-grouped:{tag}"), &format!("`{grouped}` gave {b}, expected {expected}"), "c14", grouped);
        }
    }
}

impl Ctx<'_> {
    /// the unparenthesised text must behave exactly like its documented grouping (value or kind of rejection)
    fn template_rel(&mut self, src: &str, grouped: &str, tag: &str) {
        self.rep.evaluations += 1;
        self.rep.distinct_case(src);
        self.rep.count("relational-templates");
        let run = |s: &str| -> String {
            match real::parse_exec(&format!("{PRELUDE}{s}"), true) {
                Outcome::Value(v) => canon(&v),
                Outcome::Panic(p) => format!("panic:{}", p.site()),
                other => other.tag(),
            }
        };
        let (a, b) = (run(src), run(grouped));
        if !b.starts_with("rejected") {
            self.rep.count("relational-templates-with-a-value");
            self.rep.shape("templates", tag);
        }
        if a != b {
            self.rep.violation(&format!("c14:template:{tag}"), &format!("`{src}` gave {a}, the documented grouping `{grouped}` gives {b}"), "c14", src);
        }
    }
}

impl Ctx<'_> {
    /// float (and string / array `+`) chains: rounding and overflow make the grouping of `+ - * / **` visible in the value;
    /// every operand is independently a literal or hidden from the folding pass (a pass that folds only part of a chain
    /// must not regroup it)
    fn float_chains(&mut self, cfg: &Cfg) {
        let lvl = |op: &str| match op {
            "**" => 4u8,
            "*" | "/" => 5,
            _ => 6,
        };
        let ap = |op: &str, a: f64, b: f64| match op {
            "+" => a + b,
            "-" => a - b,
            "*" => a * b,
            "/" => a / b,
            _ => a.powf(b),
        };
        let triples: [[f64; 3]; 12] = [
            [-1e308, 1e308, 1e308], [1e16, 1.0, 1.0], [0.1, 0.2, 0.3], [1e308, 10.0, 0.1], [2.0, 3.0, 2.0], [1e-320, 1e-5, 1e5], [3.0, 1e-17, 1e-17], [1.5, 2.5, -4.0],
            [1e200, 1e200, 1e-200], [7.0, 3.0, 0.5], [1e16, -1e16, 1.0], [5e-324, 0.5, 2.0],
        ];
        let ops = ["+", "-", "*", "/", "**"];
        let mut cell = 0u64;
        for op1 in ops {
            for op2 in ops {
                for t in &triples {
                    cell += 1;
                    if !cfg.owns(cell) {
                        continue;
                    }
                    let (a, b, c) = (t[0], t[1], t[2]);
                    // documented grouping: tighter level first, equal levels left to right
                    let left = lvl(op1) <= lvl(op2);
                    let want = if left { ap(op2, ap(op1, a, b), c) } else { ap(op1, a, ap(op2, b, c)) };
                    let other = if left { ap(op1, a, ap(op2, b, c)) } else { ap(op2, ap(op1, a, b), c) };
                    let discriminating = want.to_bits() != other.to_bits() && !(want.is_nan() && other.is_nan());
                    for pattern in 0..8u32 {
                        let leaf = |v: f64, pos: u32| {
                            let l = crate::ast::float_text(v);
                            if pattern >> pos & 1 == 1 { format!("hf({l})") } else { l }
                        };
                        let (ta, tb, tc) = (leaf(a, 0), leaf(b, 1), leaf(c, 2));
                        let flat = format!("{ta} {op1} {tb} {op2} {tc}");
                        let full = if left { format!("({ta} {op1} {tb}) {op2} {tc}") } else { format!("{ta} {op1} ({tb} {op2} {tc})") };
                        self.rep.evaluations += 1;
                        self.rep.distinct_case(&flat);
                        self.rep.count(if discriminating { "float-chain-discriminating-cases" } else { "float-chain-non-discriminating-cases" });
                        for (text, what) in [(&flat, "grouping"), (&full, "parenthesised-form-disagrees")] {
                            match real::parse_exec(&format!("{PRELUDE}{text}"), false) {
                                Outcome::Value(Variable::Float(f)) if f.to_bits() == want.to_bits() || (f.is_nan() && want.is_nan()) => {}
                                Outcome::Panic(p) if p.kind != PanicKind::Panic => self.rep.inconclusive("resource"),
                                other => {
                                    let got = match &other {
                                        Outcome::Value(v) => canon(v),
                                        o => o.tag(),
                                    };
                                    self.rep.violation(
                                        &format!("c14:{what}:float:{op1} {op2}:{}", if pattern == 0 { "folded" } else if pattern == 7 { "runtime" } else { "partly-constant" }),
                                        &format!("`{text}` gave {got}; the documented grouping `{full}` gives {want:?} (the other grouping gives {other:?})"),
                                        "c14",
                                        text,
                                    );
                                }
                            }
                        }
                    }
                }
            }
        }
        // long chains of one operator (sizes around the thresholds an implementation may special-case): still left to right
        if cfg.shard == 0 {
            for n in [3usize, 8, 16, 17, 63, 64, 65, 128, 129, 300] {
                for (op, head, term) in [("+", 1e16f64, 1.0f64), ("*", 1e308, 0.5), ("+", 0.1, 0.2), ("-", 1e16, 1.0), ("/", 1e-300, 2.0)] {
                    let mut want = head;
                    for _ in 1..n {
                        want = match op { "+" => want + term, "-" => want - term, "*" => want * term, _ => want / term };
                    }
                    for hidden in [false, true] {
                        let leaf = |v: f64| { let l = crate::ast::float_text(v); if hidden { format!("hf({l})") } else { l } };
                        let text = std::iter::once(leaf(head)).chain((1..n).map(|_| leaf(term))).collect::<Vec<_>>().join(&format!(" {op} "));
                        self.rep.evaluations += 1;
                        self.rep.count("long-float-chains");
                        match real::parse_exec(&format!("{PRELUDE}{text}"), false) {
                            Outcome::Value(Variable::Float(f)) if f.to_bits() == want.to_bits() => {}
                            Outcome::Panic(p) if p.kind != PanicKind::Panic => self.rep.inconclusive("resource"),
                            other => {
                                let got = match &other { Outcome::Value(v) => canon(v), o => o.tag() };
                                self.rep.violation(&format!("c14:grouping:long-chain:{op}:{}", if hidden { "runtime" } else { "folded" }), &format!("a chain of {n} operands joined by `{op}` ({} {op} {} {op} ..) gave {got}; evaluated left to right it gives {want:?}", crate::ast::float_text(head), crate::ast::float_text(term)), "c14", &text);
                            }
                        }
                    }
                }
            }
        }
        // string and array concatenation chains with a non-constant head / middle / tail: order of the pieces
        if cfg.shard == 0 {
            for pattern in 0..8u32 {
                let s = |v: &str, pos: u32| if pattern >> pos & 1 == 1 { format!("hs(\"{v}\")") } else { format!("\"{v}\"") };
                self.template(&format!("{} + {} + {}", s("a", 0), s("b", 1), s("c", 2)), &format!("({} + {}) + {}", s("a", 0), s("b", 1), s("c", 2)), "\"abc\"", "string-chain");
                let i = |v: i64, pos: u32| if pattern >> pos & 1 == 1 { format!("hi({v})") } else { v.to_string() };
                self.template(&format!("[{}] + [{}] + [{}]", i(1, 0), i(2, 1), i(3, 2)), &format!("([{}] + [{}]) + [{}]", i(1, 0), i(2, 1), i(3, 2)), "[1, 2, 3]", "array-chain");
                self.template(&format!("{} - {} - {}", i(10, 0), i(4, 1), i(3, 2)), &format!("({} - {}) - {}", i(10, 0), i(4, 1), i(3, 2)), "3", "partly-constant-int-chain");
                self.template(&format!("{} / {} / {}", i(100, 0), i(10, 1), i(5, 2)), &format!("({} / {}) / {}", i(100, 0), i(10, 1), i(5, 2)), "2", "partly-constant-int-chain");
                self.template(&format!("{} - {} + {}", i(10, 0), i(4, 1), i(3, 2)), &format!("({} - {}) + {}", i(10, 0), i(4, 1), i(3, 2)), "9", "partly-constant-int-chain");
                self.template(&format!("{} / {} * {}", i(100, 0), i(8, 1), i(5, 2)), &format!("({} / {}) * {}", i(100, 0), i(8, 1), i(5, 2)), "60", "partly-constant-int-chain");
                self.template(&format!("{} % {} * {}", i(100, 0), i(8, 1), i(5, 2)), &format!("({} % {}) * {}", i(100, 0), i(8, 1), i(5, 2)), "20", "partly-constant-int-chain");
                self.template(&format!("{} << {} >> {}", i(1, 0), i(4, 1), i(2, 2)), &format!("({} << {}) >> {}", i(1, 0), i(4, 1), i(2, 2)), "4", "partly-constant-int-chain");
                self.template(&format!("{} >> {} << {}", i(7, 0), i(1, 1), i(2, 2)), &format!("({} >> {}) << {}", i(7, 0), i(1, 1), i(2, 2)), "12", "partly-constant-int-chain");
            }
        }
    }
}

pub fn run(cfg: &Cfg, rep: &mut Report) {
    let deadline = Deadline::new(cfg.budget_s);
    let mut ctx = Ctx { rep };
    ctx.float_chains(cfg);
    let ints: [i64; 5] = [7, 3, 2, -5, 1];
    let ops: Vec<&'static str> = BIN.iter().map(|(o, _)| *o).collect();
    // operand assignments: each position int or bool
    let mut cell = 0u64;
    // pairs and triples of operators, every operand typing, several operand values
    for (i1, op1) in ops.iter().enumerate() {
        for (i2, op2) in ops.iter().enumerate() {
            for typing in 0..8u32 {
                for vals in 0..3usize {
                    cell += 1;
                    if !cfg.owns(cell) {
                        continue;
                    }
                    let operand = |pos: usize| -> X {
                        if typing >> pos & 1 == 1 {
                            X::B((vals + pos + i1) % 2 == 0)
                        } else {
                            X::I(ints[(vals * 2 + pos + i2) % ints.len()])
                        }
                    };
                    ctx.chain(&[operand(0), operand(1), operand(2)], &[op1, op2]);
                }
            }
            if cell % 512 == 0 && deadline.over() {
                ctx.rep.inconclusive("budget-cut");
                return;
            }
        }
    }
    // chains of three operators, sampled in quick, exhaustive in thorough (all-int and int/bool typings)
    let mut rng = cfg.rng(14);
    let triples = u64::MAX;
    let draws = if cfg.thorough() { 8 } else { 1 };
    let mut done = 0u64;
    'outer: for op1 in &ops {
        for op2 in &ops {
            for op3 in &ops {
                cell += 1;
                if !cfg.owns(cell) {
                    continue;
                }
                for typing in [0u32, 0b1111, 0b0011, 0b1100, 0b1000, 0b0001].repeat(draws) {
                    let operand = |pos: usize, rng: &mut crate::util::Rng| -> X {
                        if typing >> pos & 1 == 1 { X::B(rng.chance(1, 2)) } else { X::I(*rng.pick(&ints)) }
                    };
                    let operands = [operand(0, &mut rng), operand(1, &mut rng), operand(2, &mut rng), operand(3, &mut rng)];
                    ctx.chain(&operands, &[op1, op2, op3]);
                }
                done += 1;
                if done >= triples || (done % 64 == 0 && deadline.over()) {
                    break 'outer;
                }
            }
        }
    }
    if cfg.shard != 0 {
        return;
    }
    let t: Vec<(&str, &str, &str, &str)> = vec![
        // postfix (level 1) binds tighter than prefix (level 2)
        ("a := [5, 6]; -a[0]", "a := [5, 6]; -(a[0])", "-5", "prefix-vs-index"),
        ("cs := [mut 5, mut 6]; *cs[1]", "cs := [mut 5, mut 6]; *(cs[1])", "6", "deref-vs-index"),
        ("f := (x: int) -> int { return x + 1 }; -f(2)", "f := (x: int) -> int { return x + 1 }; -(f(2))", "-3", "prefix-vs-call"),
        ("t := (1, (2, 3)); -t.1.0", "t := (1, (2, 3)); -((t.1).0)", "-2", "prefix-vs-tuple-access"),
        ("s := struct{a := struct{b := 4}}; -s.a.b", "s := struct{a := struct{b := 4}}; -((s.a).b)", "-4", "prefix-vs-field-access"),
        ("b := [true, false]; !b[1]", "b := [true, false]; !(b[1])", "true", "not-vs-index"),
        ("a := [[1, 2], [3, 4]]; a[1][0]", "a := [[1, 2], [3, 4]]; (a[1])[0]", "3", "index-chain"),
        ("f := (x: int) -> (int) -> int { return (y: int) -> int { return x * y } }; f(2)(5)", "f := (x: int) -> (int) -> int { return (y: int) -> int { return x * y } }; (f(2))(5)", "10", "call-chain"),
        ("a := [1, 2, 3, 4]; a[1:][0]", "a := [1, 2, 3, 4]; (a[1:])[0]", "2", "slice-then-index"),
        ("a := [1, 2, 3, 4]; -a[1:][0]", "a := [1, 2, 3, 4]; -((a[1:])[0])", "-2", "prefix-vs-slice"),
        // prefix (2) binds tighter than the iterator level (3) and than ** (4)
        ("-2 ** 2", "(-2) ** 2", "4", "minus-vs-pow"),
        ("x := 3; -x ** 2", "x := 3; (-x) ** 2", "9", "minus-vs-pow-var"),
        ("!5 & 3", "(!5) & 3", "2", "not-vs-and"),
        ("c := mut 4; *c ** 2", "c := mut 4; (*c) ** 2", "16", "deref-vs-pow"),
        ("c := mut 4; *c + 1", "c := mut 4; (*c) + 1", "5", "deref-vs-add"),
        ("-3 * -2", "(-3) * (-2)", "6", "minus-both"),
        ("2 - -3", "2 - (-3)", "5", "minus-minus"),
        // iterator level (3) binds tighter than ** and the arithmetic levels
        ("[1, 2, 3]~ $+ * 2", "([1, 2, 3]~ $+) * 2", "12", "sum-vs-mul"),
        ("2 * [1, 2, 3]~ $+", "2 * ([1, 2, 3]~ $+)", "12", "mul-vs-sum"),
        ("[2, 3]~ $* ** 2", "([2, 3]~ $*) ** 2", "36", "product-vs-pow"),
        ("2 ** [2, 3]~ $+", "2 ** ([2, 3]~ $+)", "32", "pow-vs-sum"),
        ("[1, 2]~ $+ + [3]~ $+", "([1, 2]~ $+) + ([3]~ $+)", "6", "sum-plus-sum"),
        ("[6, 3]~ $& | 8", "([6, 3]~ $&) | 8", "10", "bitand-reduce-vs-or"),
        ("[true]~ $&& == false", "([true]~ $&&) == false", "false", "all-vs-eq"),
        ("[1, 2]~ $] + [3]", "([1, 2]~ $]) + [3]", "[1, 2, 3]", "collect-vs-concat"),
        ("[1, 2]~ $ 10 (a: int, c: int) -> int { return a - c } * 2", "([1, 2]~ $ 10 (a: int, c: int) -> int { return a - c }) * 2", "14", "reduce-vs-mul"),
        // level 3 operators group left to right
        ("[1, 2, 3]~ @ (x: int) -> int { return x * 2 } $+", "(([1, 2, 3]~) @ (x: int) -> int { return x * 2 }) $+", "12", "map-then-sum"),
        ("[1, 2, 3]~ ? (x: int) -> bool { return x > 1 } @ (x: int) -> int { return x * 10 } $]", "((([1, 2, 3]~) ? (x: int) -> bool { return x > 1 }) @ (x: int) -> int { return x * 10 }) $]", "[20, 30]", "filter-map-collect"),
        ("[1, 2, 3]~ @ (x: int) -> int { return x + 1 } ? (x: int) -> bool { return x > 2 } $]", "((([1, 2, 3]~) @ (x: int) -> int { return x + 1 }) ? (x: int) -> bool { return x > 2 }) $]", "[3, 4]", "map-filter-collect"),
        ("([1, 2, 3]~ \\ (x: int) -> bool { return x > 1 }).0", "(([1, 2, 3]~) \\ (x: int) -> bool { return x > 1 }).0", "[2, 3]", "partition"),
        // `? type` is postfix level 1: tighter than the iterator level
        ("[1, \"a\", 2]~ ? int $]", "(([1, \"a\", 2]~) ? int) $]", "[1, 2]", "type-filter-collect"),
        ("[1, \"a\", 2]~ ? int @ (x: int) -> int { return x + 1 } $]", "((([1, \"a\", 2]~) ? int) @ (x: int) -> int { return x + 1 }) $]", "[2, 3]", "type-filter-map"),
        // prefix (level 2) binds tighter than the iterator level: the minus applies to the array and is rejected
        ("-[1, 2]~ $+", "(-[1, 2])~ $+", "rejected:IncorectUnaryOperatorOperand", "minus-vs-iterate"),
        ("x := [1, 2]~ $+; -x", "x := ([1, 2]~ $+); -x", "-3", "minus-of-sum"),
        // assignments: loosest, right to left
        ("c := mut 1; c = 2 + 3; *c", "c := mut 1; c = (2 + 3); *c", "5", "assign-vs-add"),
        ("c := mut 1; c += 2 * 3; *c", "c := mut 1; c += (2 * 3); *c", "7", "assign-add-vs-mul"),
        ("c := mut 1; d := mut 2; c = d = 7; (*c, *d)", "c := mut 1; d := mut 2; c = (d = 7); (*c, *d)", "(7, 7)", "assign-right-assoc"),
        ("c := mut 1; d := mut 2; c += d *= 3; (*c, *d)", "c := mut 1; d := mut 2; c += (d *= 3); (*c, *d)", "(7, 6)", "compound-assign-right-assoc"),
        ("c := mut 1; d := mut 5; c = d -= 2; (*c, *d)", "c := mut 1; d := mut 5; c = (d -= 2); (*c, *d)", "(3, 3)", "assign-mixed-right-assoc"),
        ("b := mut false; b = true || false && false; *b", "b := mut false; b = (true || (false && false)); *b", "true", "assign-vs-logic"),
        ("b := mut false; b = 1 < 2; *b", "b := mut false; b = (1 < 2); *b", "true", "assign-vs-compare"),
        ("c := mut 8; c >>= 1 + 1; *c", "c := mut 8; c >>= (1 + 1); *c", "2", "shift-assign-vs-add"),
        ("c := mut 2; c **= 1 + 2; *c", "c := mut 2; c **= (1 + 2); *c", "8", "pow-assign-vs-add"),
        ("c := mut 6; c &= 3 | 4; *c", "c := mut 6; c &= (3 | 4); *c", "6", "and-assign-vs-or"),
        ("c := mut 6; c |= 1 ^ 3; *c", "c := mut 6; c |= (1 ^ 3); *c", "6", "or-assign-vs-xor"),
        ("c := mut 7; c %= 2 + 2; *c", "c := mut 7; c %= (2 + 2); *c", "3", "mod-assign-vs-add"),
        ("c := mut 7; c /= 1 + 1; *c", "c := mut 7; c /= (1 + 1); *c", "3", "div-assign-vs-add"),
        ("c := mut 7; c -= 1 - 3; *c", "c := mut 7; c -= (1 - 3); *c", "9", "sub-assign-vs-sub"),
        ("c := mut 1; c <<= 1 + 2; *c", "c := mut 1; c <<= (1 + 2); *c", "8", "shl-assign-vs-add"),
        ("c := mut 5; c ^= 1 | 2; *c", "c := mut 5; c ^= (1 | 2); *c", "6", "xor-assign-vs-or"),
        ("c := mut 5; c *= 1 + 1; *c", "c := mut 5; c *= (1 + 1); *c", "10", "mul-assign-vs-add"),
        // multi-character operators are never split
        ("2**3", "2 ** 3", "8", "munch-pow"),
        ("c := mut 3; 2 * *c", "c := mut 3; 2 * (*c)", "6", "mul-then-deref"),
        ("c := mut 3; c**=2; *c", "c := mut 3; c **= 2; *c", "9", "munch-pow-assign"),
        ("c := mut 3; c*=2; *c", "c := mut 3; c *= 2; *c", "6", "munch-mul-assign"),
        ("c := mut 3; c<<=2; *c", "c := mut 3; c <<= 2; *c", "12", "munch-shl-assign"),
        ("c := mut 12; c>>=2; *c", "c := mut 12; c >>= 2; *c", "3", "munch-shr-assign"),
        ("1<<2", "1 << 2", "4", "munch-shl"),
        ("8>>2", "8 >> 2", "2", "munch-shr"),
        ("1<=2", "1 <= 2", "true", "munch-le"),
        ("1>=2", "1 >= 2", "false", "munch-ge"),
        ("1<-2", "1 < (-2)", "false", "lt-then-minus"),
        ("true&&false", "true && false", "false", "munch-and"),
        ("true&false", "true & false", "false", "single-and"),
        ("true||false", "true || false", "true", "munch-or"),
        ("true|false", "true | false", "true", "single-or"),
        ("c := mut 6; c&=3; *c", "c := mut 6; c &= 3; *c", "2", "munch-and-assign"),
        ("c := mut 6; c|=1; *c", "c := mut 6; c |= 1; *c", "7", "munch-or-assign"),
        ("c := mut 6; c^=3; *c", "c := mut 6; c ^= 3; *c", "5", "munch-xor-assign"),
        ("[true, false]~$&&", "[true, false]~ $&&", "false", "munch-all"),
        ("[6, 3]~$&", "[6, 3]~ $&", "2", "munch-bitand-reduce"),
        ("[true, false]~$||", "[true, false]~ $||", "true", "munch-any"),
        ("[4, 1]~$|", "[4, 1]~ $|", "5", "munch-bitor-reduce"),
        ("[2, 3]~$*", "[2, 3]~ $*", "6", "munch-product"),
        ("[2, 3]~$+", "[2, 3]~ $+", "5", "munch-sum"),
        ("c := mut 10; [2, 3]~ $ *c (a: int, x: int) -> int { return a + x }", "c := mut 10; [2, 3]~ $ (*c) (a: int, x: int) -> int { return a + x }", "15", "reduce-with-deref-init"),
        ("1!=2", "1 != 2", "true", "munch-ne"),
        ("1==2", "1 == 2", "false", "munch-eq"),
        ("c := mut 1; c=5; *c", "c := mut 1; c = 5; *c", "5", "assign-no-spaces"),
        ("true!=!true", "true != (!true)", "true", "ne-then-not"),
        ("c := mut 2; c-=-3; *c", "c := mut 2; c -= (-3); *c", "5", "sub-assign-then-minus"),
        ("x := 5; x- -1", "x := 5; x - (-1)", "6", "sub-then-minus"),
        ("2+-1", "2 + (-1)", "1", "add-then-minus"),
        ("[1]~$]", "[1]~ $]", "[1]", "munch-collect"),
        // the type operand of `? T` is a whole type: a union written without parentheses belongs to it
        ("[1, 2.5, \"s\"]~ ? int | float $]", "(([1, 2.5, \"s\"]~) ? int|float) $]", "[1, 2.5f]", "type-filter-union-operand"),
        ("[1, 2.5, \"s\"]~ ? int|float $]", "(([1, 2.5, \"s\"]~) ? int|float) $]", "[1, 2.5f]", "type-filter-union-operand"),
        ("[1, true, \"s\", 2]~ ? int | bool | float $]", "(([1, true, \"s\", 2]~) ? int|bool|float) $]", "[1, true, 2]", "type-filter-union-operand-3"),
        ("[1, 2.5, \"s\"]~ ? int | string @ (x: int|string) -> int { return 1 } $+", "((([1, 2.5, \"s\"]~) ? int|string) @ (x: int|string) -> int { return 1 }) $+", "2", "type-filter-union-then-map"),
        ("c := mut [int|float|string] [1, 2.5, \"s\"]; *c~ ? int | float $]", "c := mut [int|float|string] [1, 2.5, \"s\"]; (((*c)~) ? int|float) $]", "[1, 2.5f]", "type-filter-union-after-deref"),
        ("f := (a: [int|string|[int]]) -> int { return std.len(a~ ? [int] | string $]) }; f([1, \"s\", [2]])", "f := (a: [int|string|[int]]) -> int { return std.len(((a~) ? [int]|string) $]) }; f([1, \"s\", [2]])", "2", "type-filter-union-array-member"),
        // assignments are loosest: the whole right-hand side is evaluated, then the target is updated once
        ("c := mut 1; c += 10 + *c; *c", "c := mut 1; c += (10 + *c); *c", "12", "add-assign-of-sum-reading-target"),
        ("c := mut 1; c += *c + 10 + *c; *c", "c := mut 1; c += ((*c + 10) + *c); *c", "13", "add-assign-of-sum-reading-target"),
        ("c := mut 3; c -= 1 - *c; *c", "c := mut 3; c -= (1 - *c); *c", "5", "sub-assign-of-difference-reading-target"),
        ("c := mut 3; c *= 2 * *c; *c", "c := mut 3; c *= (2 * *c); *c", "18", "mul-assign-of-product-reading-target"),
        ("c := mut 3; c *= 2 + *c; *c", "c := mut 3; c *= (2 + *c); *c", "15", "mul-assign-of-sum-reading-target"),
        ("c := mut 24; c /= *c / 6; *c", "c := mut 24; c /= (*c / 6); *c", "6", "div-assign-of-quotient-reading-target"),
        ("c := mut 7; c %= 5 % *c; *c", "c := mut 7; c %= (5 % *c); *c", "2", "mod-assign-of-remainder-reading-target"),
        ("c := mut 2; c **= 2 ** *c; *c", "c := mut 2; c **= (2 ** *c); *c", "16", "pow-assign-of-power-reading-target"),
        ("c := mut 1; c <<= 1 << *c; *c", "c := mut 1; c <<= (1 << *c); *c", "4", "shl-assign-of-shift-reading-target"),
        ("c := mut 1; c >>= 2 >> *c; *c", "c := mut 1; c >>= (2 >> *c); *c", "0", "shr-assign-of-shift-reading-target"),
        ("c := mut 6; c &= 3 & *c; *c", "c := mut 6; c &= (3 & *c); *c", "2", "and-assign-of-and-reading-target"),
        ("c := mut 1; c |= 2 | *c; *c", "c := mut 1; c |= (2 | *c); *c", "3", "or-assign-of-or-reading-target"),
        ("c := mut 5; c ^= 1 ^ *c; *c", "c := mut 5; c ^= (1 ^ *c); *c", "1", "xor-assign-of-xor-reading-target"),
        ("c := mut [1]; c += [2] + *c; *c", "c := mut [1]; c += ([2] + *c); *c", "[1, 2, 1]", "append-assign-of-concatenation-reading-target"),
        ("c := mut \"a\"; c += \"b\" + *c; *c == \"aba\"", "c := mut \"a\"; c += (\"b\" + *c); *c == \"aba\"", "true", "string-append-assign-of-concatenation-reading-target"),
        ("c := mut 1e16; c += hf(1.0) + hf(1.0); *c == 10000000000000002.0", "c := mut 1e16; c += (hf(1.0) + hf(1.0)); *c == 10000000000000002.0", "true", "float-add-assign-of-sum"),
        ("c := mut 1e16; c -= hf(1.0) + hf(1.0); *c == 9999999999999998.0", "c := mut 1e16; c -= (hf(1.0) + hf(1.0)); *c == 9999999999999998.0", "true", "float-sub-assign-of-sum"),
        ("c := mut 5; d := mut 0; c += (d = *c) + *c; (*c, *d)", "c := mut 5; d := mut 0; c += ((d = *c) + *c); (*c, *d)", "(15, 5)", "add-assign-of-sum-with-effect"),
        ("c := mut true; c &= false | *c; *c", "c := mut true; c &= (false | *c); *c", "true", "bool-and-assign-of-or-reading-target"),
        ("c := mut false; c |= true & *c; *c", "c := mut false; c |= (true & *c); *c", "false", "bool-or-assign-of-and-reading-target"),
    ];
    for (src, grouped, expected, tag) in t {
        ctx.template(src, grouped, expected, tag);
    }
    // postfix forms: level 1 (index, slice, `? T`, call, `.k`, `.name`) binds tighter than a prefix operator and than the
    // right operand of an iterator-level operator; level 3 postfix forms (`$+ $* $&& $|| $& $| $] ~`) bind looser than both
    let bind = "c := mut 5; m := mut ([1, \"a\", 3]~); a := [1, 2, 3]; t := (1, (2, 3)); s := struct{a := 4}; it := [1, \"a\", 3]~; ib := [true, false]~; \
                f := (x: any) -> any { return x }; p := (x: any) -> bool { return true }; g := (x: int) -> int { return x + 1 }; ca := mut [1, 2]; cf := mut g; ";
    let level1 = [" ? int", "[0]", "[0:1]", "(1)", "()", ".0", ".a", " ? string", "[1:]"];
    let level3 = [" $+", " $*", " $&&", " $||", " $&", " $|", " $]", "~"];
    for pre in ["-", "!", "*"] {
        for x in ["c", "m", "a", "t", "s", "it", "ib", "f", "g", "ca", "cf", "5", "true"] {
            for post in level1 {
                ctx.template_rel(&format!("{bind}{pre}{x}{post}"), &format!("{bind}{pre}({x}{post})"), &format!("prefix-vs-postfix1:{pre}:{}", post.trim()));
                ctx.template_rel(&format!("{bind}({pre}{x}{post}) $]"), &format!("{bind}({pre}({x}{post})) $]"), &format!("prefix-vs-postfix1:{pre}:{}", post.trim()));
            }
            for post in level3 {
                ctx.template_rel(&format!("{bind}{pre}{x}{post}"), &format!("{bind}({pre}{x}){post}"), &format!("prefix-vs-postfix3:{pre}:{}", post.trim()));
            }
        }
    }
    for op in ["@", "?", "\\"] {
        for l in ["it", "a~", "ib", "[1, 2]~"] {
            for r in ["f", "p", "g", "cf", "m", "it"] {
                for post in level1 {
                    ctx.template_rel(&format!("{bind}{l} {op} {r}{post}"), &format!("{bind}{l} {op} ({r}{post})"), &format!("iter-op-vs-postfix1:{op}:{}", post.trim()));
                    ctx.template_rel(&format!("{bind}({l} {op} {r}{post}) $]"), &format!("{bind}({l} {op} ({r}{post})) $]"), &format!("iter-op-vs-postfix1:{op}:{}", post.trim()));
                }
                for post in level3 {
                    ctx.template_rel(&format!("{bind}{l} {op} {r}{post}"), &format!("{bind}({l} {op} {r}){post}"), &format!("iter-op-vs-postfix3:{op}:{}", post.trim()));
                }
            }
        }
    }
    // a level-1 postfix form directly after a level-3 postfix operator applies to that operator's result
    for x in ["it", "ib", "a~", "[5, 6, 7]~", "[[1, 2], [3]]~", "[\"ab\", \"cd\"]~", "[(1, 2)]~", "[struct{a := 1}]~", "[g]~"] {
        for p3 in level3 {
            for p1 in ["[0]", "[1:]", "[0][0]", ".0", ".a", "()", "(1)", " ? int", "[0](2)", "[0].a"] {
                ctx.template_rel(&format!("{bind}{x}{p3}{p1}"), &format!("{bind}({x}{p3}){p1}"), &format!("postfix3-then-postfix1:{}:{}", p3.trim(), p1.trim()));
                ctx.template_rel(&format!("{bind}r := {x}{p3}{p1}; r"), &format!("{bind}r := ({x}{p3}){p1}; r"), &format!("postfix3-then-postfix1:{}:{}", p3.trim(), p1.trim()));
            }
            for p3b in level3 {
                ctx.template_rel(&format!("{bind}{x}{p3}{p3b}"), &format!("{bind}({x}{p3}){p3b}"), &format!("postfix3-then-postfix3:{}:{}", p3.trim(), p3b.trim()));
            }
        }
    }
    // every assignment operator is on the lowest level and groups to the right: whatever binary operator tops its
    // right-hand side, `c op= a low b` is `c op= (a low b)` (same value, same yielded value, same acceptance)
    let assigns = ["=", "+=", "-=", "*=", "/=", "%=", "**=", "&=", "|=", "^=", "<<=", ">>="];
    for asg in assigns {
        for (low, _) in BIN.iter() {
            for (cell, a, b) in [("mut 8", "2", "1"), ("mut 8", "1", "3"), ("mut true", "true", "false"), ("mut true", "2", "1"), ("mut 8", "true", "false")] {
                let src = format!("c := {cell}; y := c {asg} {a} {low} {b}; (y, *c)");
                let grouped = format!("c := {cell}; y := c {asg} ({a} {low} {b}); (y, *c)");
                ctx.template_rel(&src, &grouped, &format!("assign-vs:{asg}:{low}"));
                let src = format!("c := {cell}; d := {cell}; c {asg} d {asg} {a} {low} {b}; (*c, *d)");
                let grouped = format!("c := {cell}; d := {cell}; c {asg} (d {asg} ({a} {low} {b})); (*c, *d)");
                ctx.template_rel(&src, &grouped, &format!("assign-chain-vs:{asg}:{low}"));
            }
        }
    }
    // a prefix operator binds tighter than every binary operator, on either operand, constant or not
    for (op, _) in BIN.iter() {
        for pre in ["!", "-"] {
            for (a, b) in [("5", "7"), ("hi(5)", "hi(7)"), ("hi(5)", "7"), ("5", "hi(7)"), ("hi(0)", "hi(1)"), ("true", "false"), ("hb(true)", "hb(false)"), ("hb(true)", "false")] {
                ctx.template_rel(&format!("{pre}{a} {op} {b}"), &format!("({pre}{a}) {op} {b}"), &format!("prefix-vs-binary:{pre}:{op}"));
                ctx.template_rel(&format!("{a} {op} {pre}{b}"), &format!("{a} {op} ({pre}{b})"), &format!("binary-vs-prefix:{op}:{pre}"));
                ctx.template_rel(&format!("{pre}{a} {op} {pre}{b}"), &format!("({pre}{a}) {op} ({pre}{b})"), &format!("prefix-both:{pre}:{op}"));
            }
        }
        // ... with the value given by the harness's own arithmetic (a rewrite that treats flat and parenthesised text alike
        // cannot hide behind the relational comparison)
        for (a, b) in [(5i64, 7i64), (5, -6), (0, -1), (-1, 0), (7, 7), (-8, 7)] {
            for (pre, f) in [("!", (|x: i64| !x) as fn(i64) -> i64), ("-", (|x: i64| x.wrapping_neg()) as fn(i64) -> i64)] {
                if !matches!(*op, "&&" | "||") {
                    let show = |e: Exp| match e {
                        Exp::Int(v) => Some(v.to_string()),
                        Exp::Bool(v) => Some(v.to_string()),
                        _ => None,
                    };
                    if let Some(want) = show(int_oracle(op, f(a), b)) {
                        for (ta, tb) in [(format!("hi({})", crate::ast::int_text(a)), format!("hi({})", crate::ast::int_text(b))), (crate::ast::int_text(a), crate::ast::int_text(b)), (format!("hi({})", crate::ast::int_text(a)), crate::ast::int_text(b))] {
                            ctx.template(&format!("{pre}{ta} {op} {tb}"), &format!("({pre}{ta}) {op} {tb}"), &want, &format!("prefix-vs-binary-value:{pre}:{op}"));
                        }
                    }
                    if let Some(want) = show(int_oracle(op, a, f(b))) {
                        for (ta, tb) in [(format!("hi({})", crate::ast::int_text(a)), format!("hi({})", crate::ast::int_text(b))), (crate::ast::int_text(a), format!("hi({})", crate::ast::int_text(b)))] {
                            ctx.template(&format!("{ta} {op} {pre}{tb}"), &format!("{ta} {op} ({pre}{tb})"), &want, &format!("binary-vs-prefix-value:{op}:{pre}"));
                        }
                    }
                }
            }
        }
        for (c, v) in [("mut 5", "7"), ("mut 5", "hi(7)")] {
            ctx.template_rel(&format!("c := {c}; *c {op} {v}"), &format!("c := {c}; (*c) {op} {v}"), &format!("deref-vs-binary:{op}"));
            ctx.template_rel(&format!("c := {c}; {v} {op} *c"), &format!("c := {c}; {v} {op} (*c)"), &format!("binary-vs-deref:{op}"));
        }
    }
    // chains made of assignment operators and plain operands only (the same operator twice, any two, three in a row)
    for a1 in assigns {
        for a2 in assigns {
            for (cell, k) in [("mut 8", "3"), ("mut 8", "1"), ("mut true", "false")] {
                ctx.template_rel(&format!("c := {cell}; d := {cell}; y := c {a1} d {a2} {k}; (y, *c, *d)"), &format!("c := {cell}; d := {cell}; y := c {a1} (d {a2} {k}); (y, *c, *d)"), &format!("assign-chain:{a1}:{a2}"));
                ctx.template_rel(&format!("c := {cell}; d := {cell}; c {a1} d {a2} ({k}); (*c, *d)"), &format!("c := {cell}; d := {cell}; c {a1} (d {a2} ({k})); (*c, *d)"), &format!("assign-chain:{a1}:{a2}"));
                ctx.template_rel(&format!("c := {cell}; d := {cell}; e := {cell}; c {a1} d {a2} e {a1} {k}; (*c, *d, *e)"), &format!("c := {cell}; d := {cell}; e := {cell}; c {a1} (d {a2} (e {a1} {k})); (*c, *d, *e)"), &format!("assign-chain3:{a1}:{a2}"));
            }
        }
    }
    // ... and of one binary operator only (left to right), with plain and parenthesised operands
    for (op, _) in BIN.iter() {
        for (a, b, c) in [("7", "3", "2"), ("2", "3", "2"), ("true", "false", "true"), ("(7)", "(3)", "(2)"), ("hi(7)", "hi(3)", "hi(2)")] {
            ctx.template_rel(&format!("{a} {op} {b} {op} {c}"), &format!("({a} {op} {b}) {op} {c}"), &format!("same-operator-chain:{op}"));
            ctx.template_rel(&format!("{a} {op} {b} {op} {c} {op} {a}"), &format!("(({a} {op} {b}) {op} {c}) {op} {a}"), &format!("same-operator-chain4:{op}"));
        }
    }
    let _ = truncate("", 1);
}

pub fn replay(payload: &str, rep: &mut Report) {
    let src = payload.trim();
    rep.evaluations += 1;
    rep.notes.push(format!("replay `{src}` => {:?}", real_val(src)));
    let cfg = Cfg { prop: "C14".into(), tier: "quick".into(), seed: 1, shard: 0, nshards: 1, out: String::new(), replay: None, budget_s: 60.0, extra: Default::default() };
    run(&cfg, rep);
}
