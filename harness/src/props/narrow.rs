//! Narrowing family (C12): a value known to the checker at a static type S is tested against a type T by every
//! construct that selects on a type - `if y: T = x`, `while y: T = x`, a type arm of `match`, the `? T` filter - for
//! S and T that are equal, nested, overlapping and unrelated (structs by width and by field type, tuples, arrays,
//! unions, cells). The branch taken is decided by the value alone: harness membership of the run-time value in T.
use crate::oracle::{Ty, inhabits};
use crate::real::{self, Outcome};
use crate::util::{Cfg, Report, truncate};
use simplesl::variable::{Type, Variable};
use std::str::FromStr;

const STATICS: [&str; 16] = [
    "struct{a: int}", "struct{a: int|string}", "struct{a: int}|int", "any", "struct{a: any}", "struct{}", "struct{a: struct{x: int}}", "struct{a: int, b: int|string}",
    "struct{a: int}|struct{b: int}", "(int|string, any)", "[int|string]", "[any]", "(any, any)", "mut int|int", "int|string|[int]", "struct{a: int}|[int]|(int, int)",
];
const TESTED: [&str; 19] = [
    "struct{a: int, b: int}", "struct{a: int}", "struct{a: int, b: int, c: int}", "struct{a: string}", "struct{b: int}", "struct{a: struct{x: int, y: int}}", "struct{a: int, b: string}", "int", "struct{}",
    "(int, int)", "(string, int)", "[int]", "[string]", "(int, any)", "mut int", "string", "[int]|int", "struct{a: int}|int", "struct{a: int|string, b: any}",
];
const VALUES: [&str; 18] = [
    "struct{a := 1}", "struct{a := 1, b := 2}", "struct{a := 1, b := \"s\"}", "struct{a := 1, b := 2, c := 3}", "struct{a := \"s\"}", "struct{b := 1}", "5", "\"s\"", "struct{a := struct{x := 1}}",
    "struct{a := struct{x := 1, y := 2}}", "struct{}", "(1, 2)", "(\"s\", 2)", "[1, 2]", "[\"s\"]", "[1, \"s\"]", "[]", "mut 5",
];

pub fn run(cfg: &Cfg, rep: &mut Report, prop: &str) {
    let ty = |t: &str| Type::from_str(t).ok().map(|t| Ty::from_real(&t));
    let vals: Vec<(&str, Variable)> = VALUES
        .iter()
        .filter_map(|v| match real::parse_exec(v, true) {
            Outcome::Value(x) => Some((*v, x)),
            _ => None,
        })
        .collect();
    let mut idx = 0u64;
    for s in STATICS {
        let Some(st) = ty(s) else { continue };
        for (vt, val) in &vals {
            if !inhabits(val, &st) {
                continue;
            }
            for t in TESTED {
                let Some(tt) = ty(t) else { continue };
                idx += 1;
                if !cfg.owns(idx) {
                    continue;
                }
                let want = inhabits(val, &tt) as i64;
                let forms = [
                    ("if-set", format!("f := (x: {s}) -> int {{ if y: {t} = x {{ return 1 }} return 0 }}; f({vt})")),
                    ("if-set-else", format!("f := (x: {s}) -> int {{ r := if y: {t} = x {{ 1 }} else {{ 0 }}; return r }}; f({vt})")),
                    ("while-set", format!("f := (x: {s}) -> int {{ n := mut 0; while y: {t} = x {{ n += 1; break }} return *n }}; f({vt})")),
                    ("match-type-arm", format!("f := (x: {s}) -> int {{ r := match x {{ y: {t} => 1, z: any => 0, }}; return r }}; f({vt})")),
                    ("type-filter", format!("f := (x: {s}) -> int {{ return std.len([x]~ ? {t} $]) }}; f({vt})")),
                    ("if-set:constant", format!("x := {vt}; r := if y: {t} = x {{ 1 }} else {{ 0 }}; r")),
                    ("if-set:field", format!("f := (x: {s}) -> int {{ w := struct{{p := x}}; if y: {t} = w.p {{ return 1 }} return 0 }}; f({vt})")),
                ];
                for (label, src) in forms {
                    rep.evaluations += 1;
                    rep.count("narrowing-cases");
                    rep.shape("narrowing", &format!("{label}:{}", if want == 1 { "selected" } else { "not-selected" }));
                    match real::parse_exec(&src, true) {
                        Outcome::Value(Variable::Int(g)) if g == want => rep.count("narrowing-cases-held"),
                        Outcome::Rejected(..) => rep.count("narrowing-cases-rejected"),
                        Outcome::Panic(p) if p.kind != real::PanicKind::Panic => rep.inconclusive("narrowing:resource-or-fuel"),
                        other => {
                            let got = match &other {
                                Outcome::Value(v) => crate::oracle::canon(v),
                                o => o.tag(),
                            };
                            rep.violation(
                                &format!("{}:narrowing:{label}", prop.to_lowercase()),
                                &format!("static type {s}, value {vt}, tested type {t}: `{}` gave {got}, membership of the value in the tested type gives {want}", truncate(&src, 300)),
                                "diff",
                                &format!("#template {want}\n{src}\n"),
                            );
                        }
                    }
                }
            }
        }
    }
}
