//! Differential monitors over generated programs: real run (literal and hidden-constant twins)
//! versus the reference evaluator. Serves C04, C06, C07, C11, C12, C13 with different profiles
//! and different judged aspects.
use crate::ast::{Mode, S};
use crate::genp::{Gen, Profile};
use crate::oracle::canon;
use crate::prog::{self, Diff, Judge, RealRun, RefOutcome, compare_runs, run_real, run_ref};
use crate::real::{Outcome, PanicKind};
use crate::util::{Cfg, Deadline, Obj, Report, Rng, truncate};

pub struct Spec {
    pub prop: &'static str,
    pub profiles: Vec<Profile>,
    /// compare results / error kinds with the reference
    pub ref_value: bool,
    /// compare the effect log with the reference
    pub ref_log: bool,
    /// compare literal twin with hidden twin
    pub twins: bool,
    pub quick: u64,
    pub thorough: u64,
}

pub const FUEL: u64 = 6_000;
const REF_FUEL: u64 = 400_000;

pub fn gen_program(cfg_seed: u64, shard: u64, index: u64, profile: &Profile) -> (Vec<S>, Vec<String>) {
    let mut rng = Rng::derive(cfg_seed, shard.wrapping_mul(1_000_003).wrapping_add(index).wrapping_add(0x5151));
    let mut g = Gen::new(&mut rng, profile.clone());
    let body = g.program();
    let shapes = g.shapes.iter().cloned().collect();
    (body, shapes)
}

fn outcome_text(r: &RealRun) -> String {
    match &r.outcome {
        Outcome::Value(v) => format!("value {} log {:?}", truncate(&canon(v), 300), r.log),
        other => format!("{} log {:?}", other.tag(), r.log),
    }
}

/// what is wrong with this program under `spec` (None = nothing); (class, which twin, detail)
thread_local! {
    /// outcome tags of the last pair of real runs (literal twin, hidden twin)
    static LAST_TAGS: std::cell::RefCell<(String, String)> = std::cell::RefCell::new((String::new(), String::new()));
}

struct Cleanup(Vec<String>);
impl Drop for Cleanup {
    fn drop(&mut self) {
        for p in &self.0 {
            let _ = std::fs::remove_file(p);
        }
    }
}

pub fn examine(body: &[S], spec: &Spec, rep: Option<&mut Report>) -> Option<(String, String, String)> {
    let mut rep = rep;
    let text_a = prog::program_text(body, Mode::Literal);
    // C06: "a module or import yields exactly its own top-level names" - the hidden twin of a program with modules
    // imports them from files (an import is a module whose body is read from a file; both see the enclosing scope)
    let has_module = spec.prop == "C06" && prog::constructs(body).iter().any(|c| c == "mod");
    let (text_b, files) = if has_module {
        let dir = format!("/verif/target/scratch/imp-{}", std::process::id());
        let _ = std::fs::create_dir_all(&dir);
        crate::ast::print_program_imports(body, Mode::Hidden, &dir)
    } else {
        (prog::program_text(body, Mode::Hidden), Vec::new())
    };
    for (path, text) in &files {
        if std::fs::write(path, text).is_err() {
            panic!("cannot write scratch import file {path}");
        }
    }
    let _cleanup = Cleanup(files.iter().map(|(p, _)| p.clone()).collect());
    if let Some(rep) = rep.as_deref_mut().filter(|_| has_module) {
        rep.count("programs-with-modules-run-as-imports");
    }
    // the reference is always run: even where it is not compared, it tells whether an execution depends on a
    // value the documentation leaves open (attribution of panics to the exhausted-payload finding of C01)
    let reference = Some(run_ref(body, REF_FUEL));
    let found = examine_texts(&text_a, &text_b, reference, spec, rep.as_deref_mut());
    if has_module {
        // the import form may only be rejected when the module form is (same checker, same text); the literal
        // form may additionally be rejected by a failing constant (permitted, C04)
        let (a, b) = LAST_TAGS.with(|t| t.borrow().clone());
        let rejected = |t: &str| t.starts_with("rejected:");
        if b == "rejected:IO" {
            panic!("scratch import file unreadable");
        }
        if found.is_none() && rejected(&a) != rejected(&b) && !a.starts_with("rejected-runtime-error:") {
            let (class, which) = if rejected(&a) { ("import-accepted-module-rejected", "A") } else { ("module-accepted-import-rejected", "B") };
            return Some((class.into(), which.into(), format!("`mod {{..}}` form: {a}; `import` form: {b}")));
        }
    }
    found
}

/// the same judgement from program texts (the reference run is optional: it needs the AST)
pub fn examine_texts(text_a: &str, text_b: &str, reference: Option<prog::RefRun>, spec: &Spec, rep: Option<&mut Report>) -> Option<(String, String, String)> {
    let judge = Judge { value: spec.ref_value, log: spec.ref_log };
    let a = run_real(text_a, FUEL);
    let b = run_real(text_b, FUEL);
    LAST_TAGS.with(|t| *t.borrow_mut() = (a.outcome.tag(), b.outcome.tag()));
    let mut rep = rep;
    if spec.prop == "C13" {
        for (which, run) in [("A", &a), ("B", &b)] {
            if let Outcome::Value(v) = &run.outcome {
                if let Some(why) = crate::oracle::cells_ok(v) {
                    // was an unsound value (C01) produced earlier in this execution? then the cell content is its
                    // consequence: keyed after that finding (first violation taints the execution)
                    let text = if which == "A" { text_a } else { text_b };
                    let m = crate::props::sound::run_text(text, FUEL);
                    if let Some(first) = m.state.tainted.as_ref().filter(|k| !k.starts_with("c01:cell-content")) {
                        return Some((format!("cell-content-after:{first}"), which.into(), format!("{why} (after the unsound value {first})")));
                    }
                    return Some(("cell-content-not-of-declared-type".into(), which.into(), why));
                }
            }
        }
    }
    if let Some(rep) = rep.as_deref_mut() {
        rep.evaluations += 2;
        rep.count(&format!("twinA:{}", a.outcome.tag().split(':').next().unwrap_or("")));
        rep.count(&format!("twinB:{}", b.outcome.tag().split(':').next().unwrap_or("")));
        if let Some(r) = &reference {
            match &r.outcome {
                RefOutcome::GiveUp(w) => rep.inconclusive(&format!("reference-gave-up:{}", truncate(w, 60))),
                RefOutcome::Err(k) => rep.count(&format!("reference-error:{}", k.name())),
                RefOutcome::Value(_) => rep.count("reference-value"),
            }
            rep.add("ref_lookups", r.lookups);
            rep.add("ref_calls", r.calls);
            rep.add("ref_iterator_pulls", r.pulls);
            rep.add("ref_log_entries", r.log.len() as u64);
        }
        if a.steps > 0 {
            rep.add("real_steps", a.steps);
        }
    }
    // the generator places break / continue only inside loop bodies and return only inside function bodies (at any
    // depth of blocks, branches, arms): a checker that rejects such a program does not let the exit act on its construct
    if spec.prop == "C12" {
        for (which, run) in [("A", &a), ("B", &b)] {
            if let Outcome::Rejected(v, _) = &run.outcome {
                if matches!(v.as_str(), "BreakOutsideLoop" | "ContinueOutsideLoop" | "ReturnOutsideFunction") {
                    return Some((format!("valid-exit-rejected:{v}"), which.into(), format!("a break / continue / return placed inside its loop / function is rejected with {v}")));
                }
            }
        }
    }
    let depends_on_unspecified = reference.as_ref().is_some_and(|r| matches!(&r.outcome, RefOutcome::GiveUp(w) if w.contains("unspecified")));
    // panics are violations of C02 wherever they show up; reported under the running property with a panic key
    for (which, run) in [("A", &a), ("B", &b)] {
        if let Outcome::Panic(p) = &run.outcome {
            match p.kind {
                PanicKind::Panic if depends_on_unspecified => {
                    // the program uses the payload of an exhausted iterator step (no value of its static type
                    // exists: known finding of C01); what happens afterwards is its consequence, not judged here
                    if let Some(rep) = rep.as_deref_mut() {
                        rep.count("not-judged:panic-downstream-of-exhausted-payload");
                    }
                    return None;
                }
                PanicKind::Panic => {
                    // did a value outside its static type (C01's monitor) precede the panic? then it is the consequence
                    // of that finding (e.g. `x := []~ $+` is typed ! and holds 0; a closure folding `x + "a"` panics
                    // where the reference never evaluates the body)
                    let text = if which == "A" { text_a } else { text_b };
                    let m = crate::props::sound::run_text(text, FUEL);
                    if !m.state.violations.is_empty() || m.state.tainted.is_some() {
                        if let Some(rep) = rep.as_deref_mut() {
                            rep.count("not-judged:panic-after-unsound-value");
                        }
                        return None;
                    }
                    return Some((format!("panic:{}", p.site()), which.into(), format!("panicked at {}: {}", p.site(), p.short_msg())));
                }
                k => {
                    if let Some(rep) = rep.as_deref_mut() {
                        rep.inconclusive(&format!("real-run:{k:?}"));
                    }
                }
            }
        }
    }
    // a constant operation that always fails, folded when a function value is created at run time
    // (not at parse time), makes the *declaration* fail: classified separately (see DESIGN.md)
    let closure_fold = |run: &RealRun| -> bool {
        matches!(&run.outcome, Outcome::ExecErr(..))
            && run.origin.first_error.as_ref().is_some_and(|(k, _, _)| k == "AnonymousFunction" || k == "FunctionDeclaration")
    };
    if closure_fold(&a) || closure_fold(&b) {
        if let Some(rep) = rep.as_deref_mut() {
            rep.count("closure-creation-folding-error");
        }
        if !spec.twins || !matches!(b.outcome, Outcome::Value(_)) || !closure_fold(&a) {
            // a matter of constant folding (C04), not of the property this profile examines: not judged here
            if let Some(rep) = rep.as_deref_mut() {
                rep.count("not-judged:closure-creation-folding-error");
            }
            return None;
        }
        let (_, _, src) = a.origin.first_error.clone().unwrap();
        return Some(("closure-creation-folding-error".into(), "A".into(), format!("creating the function value failed with {} although its body is never run: {}", a.outcome.tag(), truncate(&src, 200))));
    }
    // a program the generator builds well-typed, that the reference runs without any type confusion, and that the
    // checker nevertheless refuses (hidden twin: no constant can fail while folding)
    if let (Outcome::Rejected(v, None), Some(r)) = (&b.outcome, reference.as_ref()) {
        if !matches!(r.outcome, RefOutcome::GiveUp(_)) {
            if let Some(rep) = rep.as_deref_mut() {
                rep.count(&format!("rejected-though-reference-ran:{v}"));
            }
            if v != "Parsing" && v != "IO" {
                return Some((format!("valid-program-rejected:{v}"), "B".into(), format!("the checker refuses a program the generator builds well-typed and the reference runs to completion: {v}")));
            }
            if let Ok(path) = std::env::var("VMON_DUMP_REJECTED") {
                use std::io::Write;
                if let Ok(mut f) = std::fs::OpenOptions::new().create(true).append(true).open(format!("{path}.ran")) {
                    let _ = writeln!(f, "{v}\t{}", &text_b[crate::ast::PRELUDE.len().min(text_b.len())..].replace('\n', " "));
                }
            }
        }
    }
    if let Some(reference) = reference.as_ref().filter(|_| spec.ref_value || spec.ref_log) {
        for (which, run) in [("A", &a), ("B", &b)] {
            match compare_runs(run, reference, &judge) {
                Diff::Same => {
                    if let Some(rep) = rep.as_deref_mut() {
                        rep.count(&format!("agree-with-reference:{which}"));
                    }
                }
                Diff::Skip(w) => {
                    if let Some(rep) = rep.as_deref_mut() {
                        rep.count(&format!("not-judged:{}", truncate(&w, 50)));
                    }
                }
                Diff::Differ(class, detail) => return Some((format!("ref:{class}"), which.into(), detail)),
                Diff::Panic(site, msg) => return Some((format!("panic:{site}"), which.into(), msg)),
            }
        }
    }
    if spec.twins {
        match (&a.outcome, &b.outcome) {
            (Outcome::Value(va), Outcome::Value(vb)) => {
                if let Some(rep) = rep.as_deref_mut() {
                    rep.count("twins-both-complete");
                }
                if canon(va) != canon(vb) {
                    return Some(("twin:value".into(), "A/B".into(), format!("literal twin yields {}, hidden twin yields {}", truncate(&canon(va), 300), truncate(&canon(vb), 300))));
                }
                if a.log != b.log {
                    return Some(("twin:log".into(), "A/B".into(), format!("literal twin effects {:?}, hidden twin effects {:?}", a.log, b.log)));
                }
            }
            (Outcome::Value(_), Outcome::ExecErr(..)) | (Outcome::ExecErr(..), Outcome::Value(_)) => {
                return Some(("twin:one-fails".into(), "A/B".into(), format!("literal twin: {}; hidden twin: {}", outcome_text(&a), outcome_text(&b))));
            }
            (Outcome::Rejected(_, Some(_)), _) => {
                if let Some(rep) = rep.as_deref_mut() {
                    rep.count("twins-permitted-parse-time-error");
                }
            }
            (Outcome::ExecErr(..), Outcome::ExecErr(..)) => {
                if let Some(rep) = rep.as_deref_mut() {
                    rep.count("twins-both-fail-at-run-time");
                }
            }
            (Outcome::Rejected(..), Outcome::Value(_)) | (Outcome::Rejected(..), Outcome::ExecErr(..)) => {
                if let Some(rep) = rep.as_deref_mut() {
                    rep.count("twins-acceptance-differs(A-rejected)");
                }
            }
            (Outcome::Value(_) | Outcome::ExecErr(..), Outcome::Rejected(..)) => {
                if let Some(rep) = rep.as_deref_mut() {
                    rep.count("twins-acceptance-differs(B-rejected)");
                }
            }
            _ => {}
        }
    }
    None
}

/// C13: programs the checker must reject because they would put a value into a cell that its declared type does
/// not admit; if a (changed) checker accepts one, every cell the interpreter holds afterwards is judged
fn cell_negative_templates(rep: &mut Report) {
    for src in crate::props::sound::NEGATIVE.iter().filter(|t| t.contains("mut ")) {
        let run = run_real(src, FUEL);
        rep.evaluations += 1;
        if matches!(run.outcome, Outcome::Rejected(..)) {
            rep.count("cell-negative-templates:rejected");
            continue;
        }
        rep.count("cell-negative-templates:ACCEPTED");
        if let Outcome::Panic(p) = &run.outcome {
            if p.kind == PanicKind::Panic {
                rep.violation(&format!("c13:negative-template:panic:{}", p.site()), &format!("(a program the checker is supposed to reject was accepted) panicked: {} :: {src}", p.short_msg()), "program-text", src);
                continue;
            }
        }
        if let Some(interp) = &run.interp {
            // names are single letters in the templates
            for name in ["c", "x", "u", "d", "a", "t", "s"] {
                if let Some(v) = interp.get_variable(name) {
                    if let Some(why) = crate::oracle::cells_ok(v) {
                        rep.violation("c13:cell-content-not-of-declared-type", &format!("(a program the checker is supposed to reject was accepted) `{name}`: {why} :: {src}"), "program-text", src);
                    }
                }
            }
        }
    }
}

/// C12: a `break` / `continue` outside every loop of its function, or a `return` outside every function, must be
/// rejected wherever the function is written (e.g. inside a loop body)
fn stray_exits(body: &[S], index: u64, rep: &mut Report) {
    for (k, (variant, what)) in prog::stray_exit_variants(body, index / 3).into_iter().enumerate() {
        let text = prog::program_text(&variant, if (index + k as u64) % 2 == 0 { Mode::Literal } else { Mode::Hidden });
        must_reject(&text, what, rep);
    }
}

fn must_reject(text: &str, what: &str, rep: &mut Report) {
    let run = run_real(text, FUEL);
    rep.evaluations += 1;
    if let Outcome::Rejected(v, _) = &run.outcome {
        rep.count(&format!("stray-exit:{what}:rejected:{v}"));
        return;
    }
    let payload = format!("#must-reject {what}\n{}", &text[crate::ast::PRELUDE.len().min(text.len())..]);
    rep.violation(
        &format!("c12:invalid-exit-accepted:{what}"),
        &format!("a program with a {what} is accepted (outcome {}) :: {}", run.outcome.tag(), truncate(&text[crate::ast::PRELUDE.len().min(text.len())..], 400)),
        "diff",
        &payload,
    );
}

/// C07: the right operand of `&&` / `||` is evaluated only when the left one does not decide: its effects must not
/// happen and its run-time failure must not surface (a parse-time report of a constant failure is C04's allowance)
fn short_circuit_templates(rep: &mut Report) {
    let cases: [(&str, &str); 18] = [
        ("false && (1 / 0 > 1)", "false"),
        ("true || (1 / 0 > 1)", "true"),
        ("x := 0; x != 0 && 10 / x > 1", "false"),
        ("x := 0; x == 0 || 10 / x > 1", "true"),
        ("x := 0; r := x != 0 && 10 % x > 1; r", "false"),
        ("a := [1]; i := 5; i < 1 && a[i] > 0", "false"),
        ("a := [1]; i := 5; i >= 1 || a[i] > 0", "true"),
        ("s := 70; s < 64 && (1 << s) > 0", "false"),
        ("e := 0 - 1; e >= 0 && 2 ** e > 0", "false"),
        ("mk := (x: int) -> () -> bool { return () -> bool { return x != 0 && 10 / x > 1 } }; mk(0)()", "false"),
        ("mk := (x: int) -> () -> bool { return () -> bool { return x == 0 || 10 / x > 1 } }; mk(0)()", "true"),
        ("f := (x: int) -> bool { return x != 0 && 10 / x > 1 }; (f(0), f(2))", "(false, true)"),
        ("x := 0; if x != 0 && 10 / x > 1 { 1 } else { 2 }", "2"),
        ("c := mut 0; t := (v: bool) -> bool { c += 1; return v }; r := false && t(true); (r, *c)", "(false, 0)"),
        ("c := mut 0; t := (v: bool) -> bool { c += 1; return v }; r := true || t(true); (r, *c)", "(true, 0)"),
        ("c := mut 0; t := (v: bool) -> bool { c += 1; return v }; r := t(false) && t(true); (r, *c)", "(false, 1)"),
        ("c := mut 0; t := (v: bool) -> bool { c += 1; return v }; r := t(true) && false; (r, *c)", "(false, 1)"),
        ("c := mut 0; t := (v: bool) -> bool { c += 1; return v }; r := t(false) || true; (r, *c)", "(true, 1)"),
    ];
    for (src, want) in cases {
        rep.evaluations += 1;
        rep.count("short-circuit-templates");
        let run = run_real(src, FUEL);
        let got = match &run.outcome {
            Outcome::Value(v) => canon(v),
            other => other.tag(),
        };
        // C04 permits reporting an operation on constants that always fails at parse time "even if the hidden-constant
        // twin would not reach it": such a rejection is not judged; a wrong value, or effects of the guarded operand, are
        if got.starts_with("panic:") && got != "panic:Panic" {
            rep.inconclusive("template:resource-or-fuel");
        } else if got.starts_with("rejected-runtime-error:") {
            rep.count("short-circuit-templates:permitted-parse-time-error");
        } else if got != want {
            rep.violation(&format!("c07:short-circuit-template:{}", truncate(src, 60)), &format!("`{src}` gave {got}, expected {want} (the deciding left operand guards the right one)"), "diff", &format!("#template {want}\n{src}\n"));
        }
    }
}

/// C12: only the chosen branch is run (value-level templates around guarded operations)
fn dead_branch_templates(rep: &mut Report) {
    let cases: [(&str, &str); 16] = [
        ("d := 0; r := if d != 0 { 10 / d } else { 0 - 1 }; r", "-1"),
        ("d := 0; r := if d == 0 { 0 - 1 } else { 10 / d }; r", "-1"),
        ("d := 0; r := if d > 0 { 1 } else if d < 0 { 10 % d } else { 3 }; r", "3"),
        ("a := [1]; i := 5; r := if i < 1 { a[i] } else { 0 }; r", "0"),
        ("s := 70; r := if s < 64 { 1 << s } else { 0 }; r", "0"),
        ("e := 0 - 1; r := if e >= 0 { 2 ** e } else { 0 }; r", "0"),
        ("d := 0; f := () -> int { return if d != 0 { 10 / d } else { 7 } }; f()", "7"),
        ("mk := (d: int) -> () -> int { return () -> int { return if d != 0 { 10 / d } else { 7 } } }; (mk(0)(), mk(5)())", "(7, 2)"),
        ("d := 0; c := mut 0; while d != 0 { c += 10 / d; }; *c", "0"),
        ("d := 0; r := match d { 0 => 1, => 10 / d, }; r", "1"),
        ("d := 2; r := match d { 0 => 10 / (d - 2), => 5, }; r", "5"),
        ("u := [1, \"s\"][0]; r := if x: string = u { 10 / 0 } else { 4 }; r", "4"),
        ("d := 0; r := if d != 0 { [1][5] } else { 9 }; r", "9"),
        ("d := 0; if d != 0 { x := 10 / d; }; 6", "6"),
        ("d := 0; r := if true { 1 } else { 10 / d }; r", "1"),
        ("d := 0; r := if false { 10 / d } else { 2 }; r", "2"),
    ];
    for (src, want) in cases {
        rep.evaluations += 1;
        rep.count("dead-branch-templates");
        let run = run_real(src, FUEL);
        let got = match &run.outcome {
            Outcome::Value(v) => canon(v),
            other => other.tag(),
        };
        // (a parse-time report of a constant operation that always fails is permitted by C04 even in a branch that is
        // never taken; only a wrong value is judged)
        if got.starts_with("panic:") && got != "panic:Panic" {
            rep.inconclusive("template:resource-or-fuel");
        } else if got.starts_with("rejected-runtime-error:") {
            rep.count("dead-branch-templates:permitted-parse-time-error");
        } else if got != want {
            rep.violation(&format!("c12:dead-branch-template:{}", truncate(src, 60)), &format!("`{src}` gave {got}, expected {want} (only the chosen branch is run)"), "diff", &format!("#template {want}\n{src}\n"));
        }
    }
}

/// C06: a function value captures the values its free names have *when it is created* - each creation anew, also when two
/// creations see environments that compare equal but are different values (signed zeros, equal arrays of different
/// stored element type, equal-looking cells), and when the same literal is evaluated many times in a row
fn closure_creation_templates(rep: &mut Report) {
    let cases: [(&str, &str); 20] = [
        ("mk := (x: float) -> () -> float { return () -> float { return 1.0 / x } }; (mk(0.0)(), mk(1.0)(), mk(-0.0)(), mk(0.0)(), mk(-0.0)())", "(inff, 1.0f, -inff, inff, -inff)"),
        ("mk := (x: float) -> () -> float { return () -> float { return 1.0 / x } }; a := mk(0.0); b := mk(-0.0); c := mk(0.0); (a(), b(), c(), b())", "(inff, -inff, inff, -inff)"),
        ("mk := (x: [int]|[float]) -> () -> int { return () -> int { if a: [int] = x { return 1 } return 2 } }; (mk([1; 0])(), mk([0.5; 0])(), mk([1; 0])(), mk([0.5; 0])())", "(1, 2, 1, 2)"),
        ("mk := (x: any) -> () -> any { return () -> any { return x } }; (mk(0.0)(), mk(-0.0)(), mk(0)(), mk(false)(), mk(\"\")(), mk(())())", "(0.0f, -0.0f, 0, false, \"\", ())"),
        ("mk := (x: int) -> () -> int { return () -> int { return x * 2 } }; fs := [1, 2, 1, 3, 1]~ @ mk $]; [fs[0](), fs[1](), fs[2](), fs[3](), fs[4]()]", "[2, 4, 2, 6, 2]"),
        ("fs := mut [() -> int] []; for i in [1, 2, 3]~ { fs += [() -> int { return i * 10 }]; }; g := *fs; [g[0](), g[1](), g[2]()]", "[10, 20, 30]"),
        ("mk := (c: mut int) -> () -> int { return () -> int { c += 1; return *c } }; a := mut 0; b := mut 0; f := mk(a); g := mk(b); h := mk(a); (f(), g(), h(), f(), g(), *a, *b)", "(1, 1, 2, 3, 2, 3, 2)"),
        ("mk := (x: (float, int)) -> () -> float { return () -> float { return 1.0 / x.0 } }; (mk((0.0, 1))(), mk((-0.0, 1))(), mk((0.0, 1))())", "(inff, -inff, inff)"),
        ("mk := (x: struct{v: float}) -> () -> float { return () -> float { return 1.0 / x.v } }; (mk(struct{v := 0.0})(), mk(struct{v := -0.0})(), mk(struct{v := 0.0})())", "(inff, -inff, inff)"),
        ("mk := (x: [float]) -> () -> float { return () -> float { return 1.0 / x[0] } }; (mk([0.0])(), mk([-0.0])(), mk([0.0])())", "(inff, -inff, inff)"),
        ("x := 0.0; f := () -> float { return 1.0 / x }; x := -0.0; g := () -> float { return 1.0 / x }; x := 0.0; h := () -> float { return 1.0 / x }; (f(), g(), h())", "(inff, -inff, inff)"),
        ("mk := (x: float, y: float) -> () -> float { return () -> float { return 1.0 / x + y } }; (mk(0.0, 1.0)(), mk(-0.0, 1.0)(), mk(0.0, 2.0)(), mk(0.0, 1.0)())", "(inff, -inff, inff, inff)"),
        ("outer := (k: int) -> (float) -> () -> float { return (x: float) -> () -> float { return () -> float { return 1.0 / x + [0.0, 0.0, 0.0][k] } } }; m := outer(1); (m(0.0)(), m(-0.0)(), outer(2)(0.0)(), m(0.0)())", "(inff, -inff, inff, inff)"),
        ("mk := (x: int|float) -> () -> int { return () -> int { return match x { a: int => 1, b: float => 2, } } }; (mk(1)(), mk(1.0)(), mk(1)(), mk(1.0)())", "(1, 2, 1, 2)"),
        // a function calls itself by its declared name from any call path - also as the operand of an iterator operator at a
        // place where that name has been re-declared, is shadowed, or is not in scope at all
        ("tri := (acc: int, x: int) -> int { if x > 1 { return tri(acc + x, x - 1) } return acc + x }; step := tri; tri := (a: int, b: int) -> int { return 0 - 1000 }; [3, 1]~ $0 step", "7"),
        ("dbl := (x: int) -> int { if x > 10 { return x } return dbl(x * 2) }; g := dbl; dbl := (x: int) -> int { return 0 - 1 }; [1, 3, 20]~ @ g $]", "[16, 12, 20]"),
        ("big := (x: int) -> bool { if x < 0 { return big(0 - x) } return x > 5 }; p := big; big := 5; ([0 - 7, 3, 9]~ ? p $], [0 - 7, 3]~ \\ p)", "([-7, 9], ([-7], [3]))"),
        ("m := mod { tri := (acc: int, x: int) -> int { if x > 1 { return tri(acc + x, x - 1) } return acc + x } }; [3, 1]~ $0 m.tri", "7"),
        ("g := (acc: int, x: int) -> int { if x > 1 { return g(acc + x, x - 1) } return acc + x }; f := (g2: (int, int) -> int, g: int) -> int { return [3, 1]~ $ g g2 }; f(g, 0)", "7"),
        ("mk := () -> (int, int) -> int { tri := (acc: int, x: int) -> int { if x > 1 { return tri(acc + x, x - 1) } return acc + x }; return tri }; r := mk(); [3, 1]~ $0 r", "7"),
    ];
    for (src, want) in cases {
        rep.evaluations += 1;
        rep.count("closure-creation-templates");
        let run = run_real(src, FUEL);
        let got = match &run.outcome {
            Outcome::Value(v) => canon(v),
            other => other.tag(),
        };
        if got.starts_with("panic:") && got != "panic:Panic" {
            rep.inconclusive("template:resource-or-fuel");
            continue;
        }
        if got != want {
            rep.violation(&format!("c06:closure-creation-template:{}", truncate(src, 60)), &format!("`{src}` gave {got}, expected {want} (each function value captures the values of its own creation)"), "diff", &format!("#template {want}\n{src}\n"));
        }
    }
}

/// C06: names are whole identifiers, case-sensitive, of any length: pairs of names an implementation could confuse (case,
/// a trailing underscore or digit, a keyword as a prefix, a long common prefix) bound in the same and in nested scopes, as
/// locals, parameters, captured names, struct fields and module members
fn name_shape_templates(rep: &mut Report) {
    let long_a = format!("{}a", "n".repeat(63));
    let long_b = format!("{}b", "n".repeat(63));
    let pairs: Vec<(&str, &str)> = vec![
        ("x", "X"), ("ab", "aB"), ("Ab", "AB"), ("a", "a_"), ("a", "_a"), ("a1", "a01"), ("a1", "a11"), ("_", "__"), ("_1", "_2"), ("iffy", "iff"), ("truex", "truey"), ("mutable", "mutably"),
        ("returned", "returns"), ("loopx", "loop_"), ("structa", "structb"), ("breaker", "breaks"), ("continued", "continues"), ("intx", "int_"), ("anyx", "any_"), ("std_", "stdx"), ("modx", "mody"),
        ("forx", "fory"), ("whiles", "whilst"), ("matchx", "matchy"), ("elsex", "elsey"), ("falsey", "falsex"), ("k", "K"), ("name", "Name"), ("userId", "userid"), ("int", "Int"), ("if_", "If"),
        (&long_a, &long_b),
    ];
    // a name that begins with a keyword, at the start of a statement (where the statement rules for keywords are tried first)
    for n in ["returned", "returns", "return_", "return1", "breaker", "break_", "break1", "continued", "continue_", "loopx", "loop_", "loops", "whiles", "while_", "forx", "for_", "iffy", "if_", "matchx", "match_", "modx", "mod_", "mutable", "mut_", "structx", "struct_", "importx", "import_", "elsex", "else_", "truex", "true_", "falsey", "false_", "inx", "in_", "stdx", "anyx"] {
        let cases = [
            (format!("{n} := mut 0; i := mut 0; while *i < 3 {{ {n} += 1; i += 1; }} (*{n}, *i)"), "(3, 3)"),
            (format!("f := () -> int {{ {n} := 5; {n}2 := {n} + 1; return {n}2 }}; f()"), "6"),
            (format!("{n} := mut 1; {n} = 7; {n} *= 2; *{n}"), "14"),
            (format!("{n} := [1, 2]; {n}[1]"), "2"),
            (format!("{n} := (x: int) -> int {{ return x + 1 }}; i := mut 0; loop {{ i += 1; {n}(1); if *i > 2 {{ break }} }} ({n}(4), *i)"), "(5, 3)"),
        ];
        for (src, want) in cases {
            rep.evaluations += 1;
            rep.count("name-shape-templates");
            let run = run_real(&src, FUEL);
            let got = match &run.outcome {
                Outcome::Value(v) => canon(v),
                other => other.tag(),
            };
            if got.starts_with("panic:") && got != "panic:Panic" {
                rep.inconclusive("template:resource-or-fuel");
                continue;
            }
            if got != want {
                rep.violation(&format!("c06:name-shape-template:statement-start:{n}"), &format!("`{}` gave {got}, expected {want} (names are whole identifiers: `{n}` is not a keyword)", truncate(&src, 300)), "diff", &format!("#template {want}\n{src}\n"));
            }
        }
    }
    // a binder (type arm with an expression or a block body, if-set, while-set, for, parameter, block declaration, destructuring,
    // module member) spelled like a run-time variable of the enclosing scope: the outer variable is unchanged afterwards, also as
    // seen by a closure created afterwards
    let binder_cases: [(&str, &str); 22] = [
        ("c := mut 10; v := *c; r := match *c + 1 { v: int => v * 2, }; (r, v)", "(22, 10)"),
        ("c := mut 10; v := *c; r := match *c + 1 { v: int => { v * 2 }, }; (r, v)", "(22, 10)"),
        ("c := mut 10; v := *c; r := match *c + 1 { 5 => 0, v: int => v * 2, }; g := () -> int { return v }; (r, v, g())", "(22, 10, 10)"),
        ("c := mut 10; v := *c; r := if v: int = *c + 1 { v * 2 } else { 0 }; (r, v)", "(22, 10)"),
        ("c := mut 10; v := *c; n := mut 0; while v: int = *c + 1 { n += v; break } (*n, v)", "(11, 10)"),
        ("c := mut 10; v := *c; s := mut 0; for v in [1, 2]~ { s += v; } (*s, v)", "(3, 10)"),
        ("c := mut 10; v := *c; f := (v: int) -> int { return v * 2 }; (f(3), v)", "(6, 10)"),
        ("c := mut 10; v := *c; r := { v := 5; v * 2 }; (r, v)", "(10, 10)"),
        ("c := mut 10; v := *c; r := { (v, w) := (1, 2); v + w }; (r, v)", "(3, 10)"),
        ("c := mut 10; v := *c; m := mod { v := 7 }; (m.v, v)", "(7, 10)"),
        ("c := mut 10; v := *c; r := [1, 2]~ @ (v: int) -> int { return v * 2 } $]; (r, v)", "([2, 4], 10)"),
        ("c := mut 10; v := *c; r := [1, 2]~ $ 0 (v: int, x: int) -> int { return v + x }; (r, v)", "(3, 10)"),
        ("f := (v: int) -> (int, int, int) { r := match v + 1 { v: int => v * 2, }; g := () -> int { return v }; return (r, v, g()) }; f(10)", "(22, 10, 10)"),
        ("f := (v: int) -> (int, int, int) { r := if v: int = v + 1 { v * 2 } else { 0 }; g := () -> int { return v }; return (r, v, g()) }; f(10)", "(22, 10, 10)"),
        ("f := (v: int) -> (int, int, int) { n := mut 0; while v: int = v + 1 { n += v; break } g := () -> int { return v }; return (*n, v, g()) }; f(10)", "(11, 10, 10)"),
        ("f := (v: int) -> (int, int, int) { s := mut 0; for v in [1, 2]~ { s += v; } g := () -> int { return v }; return (*s, v, g()) }; f(10)", "(3, 10, 10)"),
        ("f := (v: int|string) -> (int, int|string) { r := match v { v: int => v * 2, v: string => std.len(v), }; return (r, v) }; (f(10), f(\"ab\"))", "((20, 10), (2, \"ab\"))"),
        ("f := (v: int) -> (int, int) { r := match v + 1 { w: int => { v := w * 2; v }, }; return (r, v) }; f(10)", "(22, 10)"),
        ("f := (v: int) -> (int, int) { r := match (v, v + 1) { v: (int, int) => v.1, }; return (r, v) }; f(10)", "(11, 10)"),
        ("c := mut 10; v := *c; w := *c + 1; r := match w { v: int => v, }; s := match v { w: int => w, }; (r, s, v, w)", "(11, 10, 10, 11)"),
        ("c := mut 10; v := *c; i := mut 0; out := mut [int] []; while *i < 2 { r := match *i { v: int => v + 100, }; out += [r, v]; i += 1; } *out", "[100, 10, 101, 10]"),
        ("c := mut 10; v := *c; r := match *c + 1 { v: int => v * 2, } + match *c + 2 { v: int => v, }; (r, v)", "<any>"),
    ];
    for (src, want) in binder_cases {
        rep.evaluations += 1;
        rep.count("name-shape-templates");
        let run = run_real(src, FUEL);
        let got = match &run.outcome {
            Outcome::Value(v) => canon(v),
            other => other.tag(),
        };
        if got.starts_with("panic:") && got != "panic:Panic" {
            rep.inconclusive("template:resource-or-fuel");
            continue;
        }
        if want == "<any>" {
            continue;
        }
        if got != want {
            rep.violation(&format!("c06:binder-scope-template:{}", truncate(src, 60)), &format!("`{src}` gave {got}, expected {want} (a binder is visible in its own construct only)"), "diff", &format!("#template {want}\n{src}\n"));
        }
    }
    for (n1, n2) in pairs {
        let cases = [
            (format!("{n1} := 1; {n2} := 2; f := () -> (int, int) {{ return ({n1}, {n2}) }}; r := {{ {n1} := 10; ({n1}, {n2}, f()) }}; ({n1}, {n2}, r)"), "(1, 2, (10, 2, (1, 2)))"),
            (format!("{n2} := 2; {n1} := 1; g := ({n2}: int) -> (int, int) {{ return ({n1}, {n2}) }}; h := ({n1}: int) -> (int, int) {{ return ({n1}, {n2}) }}; (g(20), h(10))"), "((1, 20), (10, 2))"),
            (format!("s := struct{{{n1} := 1, {n2} := 2}}; t := struct{{{n2} := 20, {n1} := 10}}; (s.{n1}, s.{n2}, t.{n1}, t.{n2}, s == struct{{{n2} := 2, {n1} := 1}})"), "(1, 2, 10, 20, true)"),
            (format!("m := mod {{ {n1} := 1; {n2} := 2; both := () -> (int, int) {{ return ({n1}, {n2}) }} }}; {n1} := 100; (m.{n1}, m.{n2}, m.both(), {n1})"), "(1, 2, (1, 2), 100)"),
            (format!("{n1} := mut 1; {n2} := mut 2; {n1} += 10; {n2} *= 10; c := () -> (int, int) {{ return (*{n1}, *{n2}) }}; {n1} = 5; c()"), "(5, 20)"),
            (format!("mk := ({n1}: int) -> (int) -> (int, int) {{ return ({n2}: int) -> (int, int) {{ return ({n1}, {n2}) }} }}; a := mk(1); b := mk(3); (a(2), b(4), a(5))"), "((1, 2), (3, 4), (1, 5))"),
        ];
        for (src, want) in cases {
            rep.evaluations += 1;
            rep.count("name-shape-templates");
            let run = run_real(&src, FUEL);
            let got = match &run.outcome {
                Outcome::Value(v) => canon(v),
                other => other.tag(),
            };
            if got.starts_with("panic:") && got != "panic:Panic" {
                rep.inconclusive("template:resource-or-fuel");
                continue;
            }
            if got != want {
                rep.violation(&format!("c06:name-shape-template:{}", truncate(&format!("{n1}/{n2}"), 40)), &format!("`{}` gave {got}, expected {want} (names are whole, case-sensitive identifiers)", truncate(&src, 300)), "diff", &format!("#template {want}\n{src}\n"));
            }
        }
    }
}

/// C04: hand-written twins around *identity and freshness*, which value-level generated programs rarely compare: a
/// function literal, cell, iterator or container built from constants is still built anew by every evaluation, with
/// constants visible (`K` -> the literal) or hidden (`K` -> `hi(..)`) alike
fn identity_twin_templates(rep: &mut Report) {
    let cases: [&str; 24] = [
        "k := K5; mk := () -> () -> int { return () -> int { return k } }; a := mk(); b := mk(); (a == b, a == a, a(), b())",
        "mk := () -> () -> int { return () -> int { return K5 } }; a := mk(); b := mk(); (a == b, a != b, [a] == [b])",
        "fs := [1, 2]~ @ (i: int) -> () -> int { return () -> int { return K5 } } $]; (fs[0] == fs[1], fs[0](), fs[1]())",
        "k := K5; fs := mut [() -> int] []; for i in [1, 2]~ { fs += [() -> int { return k }]; }; g := *fs; (g[0] == g[1], g[0]())",
        "mk := () -> mut int { return mut K5 }; a := mk(); b := mk(); a += 1; (a == b, *a, *b)",
        "cs := [1, 2]~ @ (i: int) -> mut int { return mut K5 } $]; cs[0] += 1; (cs[0] == cs[1], *cs[0], *cs[1])",
        "r := [mut K5; 2]; r[0] += 1; (r[0] == r[1], *r[0], *r[1])",
        "mk := () -> () -> (bool, int) { return [K5, K5]~ }; a := mk(); b := mk(); a(); (a == b, a().0, b().0, b().0, b().0)",
        "k := K5; f := () -> [mut int] { return [mut k] }; a := f(); b := f(); a[0] = 1; (*a[0], *b[0], a == b)",
        "k := K5; f := () -> struct{c: mut int} { return struct{c := mut k} }; a := f(); b := f(); a.c += 1; (*a.c, *b.c, a == b)",
        "k := K5; f := () -> (mut int, int) { return (mut k, k) }; a := f(); b := f(); a.0 += 1; (*a.0, *b.0, a == b)",
        "m := () -> struct{c: mut int, get: () -> int} { return mod { c := mut K5; get := () -> int { return *c } } }; a := m(); b := m(); a.c += 1; (a.get(), b.get(), a.get == b.get)",
        "f := (x: int) -> int { return x + K5 }; g := f; h := (x: int) -> int { return x + K5 }; (f == g, f == h, f(1) == h(1))",
        "t := (() -> int { return K5 }, () -> int { return K5 }); (t.0 == t.1, t.0() == t.1())",
        "a := [() -> int { return K5 }; 2]; (a[0] == a[1], a[0]())",
        "k := K5; a := if k > 0 { () -> int { return k } } else { () -> int { return 0 } }; b := if k > 0 { () -> int { return k } } else { () -> int { return 0 } }; (a == b, a(), b())",
        "w := K5; n := mut 0; while *n < 2 { n += 1; }; f := () -> int { return w + *n }; g := () -> int { return w + *n }; (f == g, f())",
        "mk := (k: int) -> () -> int { return () -> int { return k } }; (mk(K5) == mk(K5), mk(K5)())",
        "it := [K5, K5 + 1]~; jt := [K5, K5 + 1]~; it(); (it == jt, it().1, jt().1)",
        "c := mut K5; d := c; e := mut K5; c += 1; (c == d, c == e, *d, *e)",
        "k := K5; s := struct{a := mut k, b := mut k}; s.a += 1; (s.a == s.b, *s.a, *s.b)",
        "k := K5; mk := () -> () -> int { x := k + 1; return () -> int { return x } }; (mk() == mk(), mk()())",
        "mk := () -> [() -> int] { return [() -> int { return K5 }] }; (mk()[0] == mk()[0], mk() == mk())",
        "k := K5; cmp := (p: () -> int, q: () -> int) -> bool { return p == q }; f := () -> int { return k }; (cmp(f, f), cmp(f, () -> int { return k }), cmp(() -> int { return k }, () -> int { return k }))",
    ];
    for tpl in cases {
        let lit = format!("hi := (v: int) -> int {{ return v }}; {}", tpl.replace("K5", "5"));
        let hid = format!("hi := (v: int) -> int {{ return v }}; {}", tpl.replace("K5", "hi(5)"));
        rep.evaluations += 2;
        rep.count("identity-twin-templates");
        let show = |src: &str| match run_real(src, FUEL).outcome {
            Outcome::Value(v) => canon(&v),
            other => other.tag(),
        };
        let (a, b) = (show(&lit), show(&hid));
        if [&a, &b].iter().any(|x| x.starts_with("panic:") && *x != "panic:Panic") {
            rep.inconclusive("template:resource-or-fuel");
            continue;
        }
        if a != b {
            rep.violation(&format!("c04:identity-twin-template:{}", truncate(tpl, 60)), &format!("literal twin `{lit}` gave {a}; hidden twin gave {b}"), "diff", &format!("#template {b}\n{lit}\n"));
        }
    }
}

/// C07: in a chain of one operator the left operand - a whole application, its failure included - is finished before the
/// next operand is touched; and a `match` run again evaluates its candidates from the top again
fn chain_and_rerun_templates(rep: &mut Report, prop: &str) {
    use crate::ast::PRELUDE;
    let mut cases: Vec<(String, String, Vec<i64>)> = Vec::new();
    for (op, bad, kind) in [("/", "0", "ZeroDivision"), ("%", "0", "ZeroModulo"), ("**", "(-1)", "NegativeExponent"), ("<<", "64", "OverflowShift"), (">>", "(-1)", "OverflowShift")] {
        cases.push((format!("ti(1, 8) {op} ti(2, hi({bad})) {op} ti(3, 2)"), format!("error:{kind}"), vec![1, 2]));
        cases.push((format!("ti(1, 8) {op} ti(2, 1) {op} ti(3, hi({bad})) {op} ti(4, 2)"), format!("error:{kind}"), vec![1, 2, 3]));
        cases.push((format!("ti(1, 8) {op} ti(2, 1) {op} ti(3, hi({bad}))"), format!("error:{kind}"), vec![1, 2, 3]));
        cases.push((format!("f := () -> int {{ return ti(1, 8) {op} ti(2, hi({bad})) {op} ti(3, 2) }}; f()"), format!("error:{kind}"), vec![1, 2]));
        cases.push((format!("c := mut 8; c {op}= ti(1, hi({bad})) {op} ti(2, 1); *c"), format!("error:{kind}"), if op == "**" { vec![1, 2] } else { vec![1, 2] }));
    }
    cases.push(("[ti(1, 1), ti(2, 2)][ti(3, 5)] + ti(4, 1)".into(), "error:IndexOutOfBounds".into(), vec![1, 2, 3]));
    cases.push(("ti(1, 1) + [ti(2, 2)][ti(3, 5)] + ti(4, 1)".into(), "error:IndexOutOfBounds".into(), vec![1, 2, 3]));
    cases.push(("[0; ti(1, 0 - 1)] + [ti(2, 1)]".into(), "error:NegativeLength".into(), vec![1]));
    // the same match instruction run several times
    cases.push(("pick := (x: int) -> int { return match x { ti(1, 1) => 10, ti(2, 2) => 20, ti(3, 3) => 30, => 0, } }; [pick(2), pick(1), pick(3), pick(3), pick(9)]".into(), "[20, 10, 30, 30, 0]".into(), vec![1, 2, 1, 1, 2, 3, 1, 2, 3, 1, 2, 3]));
    cases.push(("a := mut 1; b := mut 2; pick := (x: int) -> string { return match x { *a => \"first\", *b => \"second\", => \"none\", } }; r1 := pick(2); a = 2; r2 := pick(2); b = 7; a = 0; r3 := pick(7); (r1, r2, r3)".into(), "(\"second\", \"first\", \"second\")".into(), vec![]));
    cases.push(("out := mut [int] []; for x in [2, 1, 3, 3, 9, 2]~ { m := match x { ti(1, 1), ti(2, 2) => 10, ti(3, 3) => 30, => 0, }; out += [m]; }; *out".into(), "[10, 10, 30, 30, 0, 10]".into(), vec![1, 2, 1, 1, 2, 3, 1, 2, 3, 1, 2, 3, 1, 2]));
    cases.push(("pick := (x: any) -> int { return match x { p: int => 0, q: int|float => 1, r: string => 2, t: any => 3, } }; [pick(1), pick(2.5), pick(3), pick(\"s\"), pick(4), pick([1]), pick(5), pick(1.5), pick(6)]".into(), "[0, 1, 0, 2, 0, 3, 0, 1, 0]".into(), vec![]));
    cases.push(("out := mut [int] []; for x in [1, 2.5, 3, \"s\", 4, 2.5, 5]~ { m := match x { p: int => 0, q: int|float => 1, t: any => 3, }; out += [m]; }; *out".into(), "[0, 1, 0, 3, 0, 1, 0]".into(), vec![]));
    cases.push(("f := (x: any) -> int { if v: int = x { return 0 } if v: int|float = x { return 1 } return 2 }; [f(2.5), f(1), f(\"s\"), f(1), f(2.5)]".into(), "[1, 0, 2, 0, 1]".into(), vec![]));
    for (body, want, log) in cases {
        let src = format!("{PRELUDE}{body}");
        rep.evaluations += 1;
        rep.count("chain-and-rerun-templates");
        let run = run_real(&src, FUEL);
        let got = match &run.outcome {
            Outcome::Value(v) => canon(v),
            Outcome::ExecErr(Some(k), _) => format!("error:{}", k.name()),
            other => other.tag(),
        };
        if got.starts_with("panic:") && got != "panic:Panic" {
            rep.inconclusive("template:resource-or-fuel");
            continue;
        }
        let got_log = run.log.clone().unwrap_or_default();
        if got != want || got_log != log {
            rep.violation(&format!("{}:chain-and-rerun-template:{}", prop.to_lowercase(), truncate(&body, 50)), &format!("`{body}` gave {got} with effect log {got_log:?}, expected {want} with {log:?}"), "diff", &format!("#template {want}\n{src}\n"));
        }
    }
}

/// C13: `c = v` stores v itself - also when v is, or contains, the cell c: copies of a cell alias it wherever they sit,
/// inside the cell's own content too
fn cell_identity_templates(rep: &mut Report) {
    let cases: [(&str, &str); 12] = [
        ("c := mut any 0; c = c; (*c == c, 1)", "(true, 1)"),
        ("c := mut any 0; r := (c = c); (r == c, *c == c)", "(true, true)"),
        ("c := mut any 0; c = [c, 1]; e := *c; if a: [any] = e { (a[0] == c, a[1]) } else { (false, 0) }", "(true, 1)"),
        ("c := mut any 0; c = (c, 2); e := *c; if t: (any, int) = e { (t.0 == c, t.1) } else { (false, 0) }", "(true, 2)"),
        ("c := mut any 0; c = struct{me := c, n := 3}; e := *c; if s: struct{me: any, n: int} = e { (s.me == c, s.n) } else { (false, 0) }", "(true, 3)"),
        ("c := mut any 0; d := mut any c; c = d; x := *c; y := if m: mut any = x { *m } else { 0 }; (x == d, y == c)", "(true, true)"),
        ("c := mut [any] []; c += [c]; c += [c]; a := *c; (std.len(a), a[0] == c, a[1] == c)", "(2, true, true)"),
        ("c := mut any 1; d := c; c = [d]; d = 5; *c", "5"),
        ("c := mut any 0; c = [c]; inner := *c; w := if a: [any] = inner { a[0] } else { 0 }; if m: mut any = w { m = 7; } *c", "7"),
        ("c := mut any 0; f := () -> any { return c }; c = f; g := *c; if h: () -> any = g { h() == c } else { false }", "true"),
        ("c := mut int 1; d := mut mut int c; e := *d; e += 1; (*c, *d == c)", "(2, true)"),
        ("c := mut any 0; c = [[c]]; x := *c; if a: [[any]] = x { a[0][0] == c } else { false }", "true"),
    ];
    // a cell over a constant content is a new cell each time its expression is evaluated (in a function called again, in a loop)
    let mut fresh: Vec<(String, String)> = Vec::new();
    for (content, bump, read, one) in [
        ("(0, 10)", "t := *s; s = (t.0 + 1, t.1);", "u := *s; r := u.0;", "1"), ("(0, (1, 2))", "t := *s; s = (t.0 + 1, t.1);", "u := *s; r := u.0;", "1"), ("[0, 10]", "s += [1];", "r := std.len(*s);", "3"),
        ("struct{n := 0}", "t := *s; s = struct{n := t.n + 1};", "u := *s; r := u.n;", "1"), ("\"a\"", "s += \"b\";", "r := std.len(*s);", "2"), ("0", "s += 1;", "r := *s;", "1"), ("(true, 0)", "t := *s; s = (false, t.1 + 1);", "u := *s; r := u.1;", "1"), ("0.5", "s += 1.0;", "r := *s;", "1.5f"),
    ] {
        fresh.push((format!("mk := () -> any {{ s := mut {content}; {bump} {read} return r }}; (mk(), mk(), mk())"), format!("({one}, {one}, {one})")));
        fresh.push((format!("out := mut [any] []; i := mut 0; while *i < 3 {{ s := mut {content}; {bump} {read} out += [r]; i += 1; }} *out"), format!("[{one}, {one}, {one}]")));
        fresh.push((format!("mk := () -> any {{ return mut {content} }}; a := mk(); b := mk(); (a == b, a == a)"), "(false, true)".to_string()));
        fresh.push((format!("cs := [1, 2]~ @ (k: int) -> any {{ return mut {content} }} $]; cs[0] == cs[1]"), "false".to_string()));
    }
    let all: Vec<(String, String)> = cases.iter().map(|(a, b)| (a.to_string(), b.to_string())).chain(fresh).collect();
    for (src, want) in &all {
        let (src, want) = (src.as_str(), want.as_str());
        rep.evaluations += 1;
        rep.count("cell-identity-templates");
        let run = run_real(src, FUEL);
        let got = match &run.outcome {
            Outcome::Value(v) => canon(v),
            other => other.tag(),
        };
        if got.starts_with("panic:") && got != "panic:Panic" {
            rep.inconclusive("template:resource-or-fuel");
            continue;
        }
        if got != want {
            rep.violation(&format!("c13:cell-identity-template:{}", truncate(src, 60)), &format!("`{src}` gave {got}, expected {want} (a stored cell is the cell, not a copy)"), "diff", &format!("#template {want}\n{src}\n"));
        }
    }
}

pub fn run(cfg: &Cfg, rep: &mut Report, spec: &Spec) {
    let deadline = Deadline::new(cfg.budget_s);
    if spec.prop == "C07" && cfg.shard == 0 {
        short_circuit_templates(rep);
        chain_and_rerun_templates(rep, "C07");
    }
    if spec.prop == "C12" && cfg.shard == 0 {
        dead_branch_templates(rep);
        chain_and_rerun_templates(rep, "C12");
    }
    if spec.prop == "C13" && cfg.shard == 0 {
        cell_negative_templates(rep);
        cell_identity_templates(rep);
    }
    if spec.prop == "C06" && cfg.shard == 0 {
        closure_creation_templates(rep);
        name_shape_templates(rep);
    }
    if spec.prop == "C04" && cfg.shard == 0 {
        identity_twin_templates(rep);
    }
    if spec.prop == "C11" {
        crate::props::c11seq::run(cfg, rep);
    }
    if spec.prop == "C07" || spec.prop == "C12" {
        crate::props::c07order::run(cfg, rep, spec.prop);
    }
    if spec.prop == "C07" {
        crate::props::scale::run(cfg, rep, spec.prop);
    }
    if spec.prop == "C12" {
        crate::props::narrow::run(cfg, rep, spec.prop);
    }
    let n = cfg.per_shard(spec.quick, spec.thorough);
    let mut reported = 0;
    for i in 0..n {
        if i % 16 == 0 {
            if deadline.over() {
                break;
            }
            cfg.checkpoint(rep);
        }
        let profile = &spec.profiles[(i % spec.profiles.len() as u64) as usize];
        let (body, shapes) = gen_program(cfg.seed, cfg.shard, i, profile);
        for s in &shapes {
            rep.shape("constructs", s);
        }
        rep.count("programs");
        let text = prog::program_text(&body, Mode::Literal);
        rep.distinct_case(&text);
        rep.sample(profile.name, 2, || Obj::new().s("profile", profile.name).s("program", &truncate(&text[crate::ast::PRELUDE.len()..], 700)).render());
        if spec.prop == "C12" && i % 3 == 0 {
            stray_exits(&body, i, rep);
        }
        if let Ok(path) = std::env::var("VMON_DUMP_REJECTED") {
            // development aid: programs the generator believes well-typed but the checker refuses, shrunk
            let t = prog::program_text(&body, Mode::Hidden);
            if let Outcome::Rejected(v, _) = run_real(&t, FUEL).outcome {
                let st = t.clone();
                use std::io::Write;
                if let Ok(mut f) = std::fs::OpenOptions::new().create(true).append(true).open(&path) {
                    let _ = writeln!(f, "{v}\t{}\t{}", { let i = simplesl::Interpreter::with_stdlib(); simplesl::Code::parse(&i, &t).err().map(|e| e.to_string()).unwrap_or_default().replace('\n', " ") }, &st[crate::ast::PRELUDE.len()..].replace('\n', " "));
                }
            }
        }
        let Some((class, which, detail)) = examine(&body, spec, Some(rep)) else { continue };
        if reported >= 12 {
            rep.count(&format!("further-violations:{class}"));
            continue;
        }
        reported += 1;
        // shrink while the same class persists (not for a refused program: deleting parts of it makes ill-typed programs,
        // which are refused for a reason)
        let cls = class.clone();
        let small = if cls.starts_with("valid-program-rejected") { body.clone() } else { prog::shrink(&body, |c| examine(c, spec, None).is_some_and(|(k, _, _)| k == cls), 300) };
        let (class2, which2, detail2) = examine(&small, spec, None).unwrap_or((class.clone(), which.clone(), detail.clone()));
        let cons = prog::constructs(&small).join(",");
        let key = if class2 == "closure-creation-folding-error" || class2.starts_with("cell-content-after:") || class2.starts_with("valid-program-rejected:") { format!("{}:{class2}", spec.prop.to_lowercase()) } else { format!("{}:{class2}:{{{cons}}}", spec.prop.to_lowercase()) };
        let small_a = prog::program_text(&small, Mode::Literal);
        let small_b = prog::program_text(&small, Mode::Hidden);
        let payload = format!(
            "#gen seed={} shard={} nshards={} index={} profile={}\n#--- shrunk, literal twin\n{}\n#--- shrunk, hidden twin\n{}\n",
            cfg.seed,
            cfg.shard,
            cfg.nshards,
            i,
            profile.name,
            &small_a[crate::ast::PRELUDE.len()..],
            &small_b[crate::ast::PRELUDE.len()..]
        );
        rep.violation(&key, &format!("[{which2}] {detail2} :: {}", truncate(&small_a[crate::ast::PRELUDE.len()..], 500)), "diff", &payload);
    }
    // the per-process directory of import files (C06) is empty by now
    let _ = std::fs::remove_dir(format!("/verif/target/scratch/imp-{}", std::process::id()));
}

pub fn replay(cfg: &Cfg, payload: &str, rep: &mut Report, spec: &Spec) {
    // regenerate the program from its generator coordinates and judge it again
    let head = payload.lines().next().unwrap_or("");
    if let Some(want) = head.strip_prefix("#template ") {
        let src = payload.lines().skip(1).collect::<Vec<_>>().join("\n");
        let run = run_real(&src, FUEL);
        rep.evaluations += 1;
        let got = match &run.outcome {
            Outcome::Value(v) => canon(v),
            other => other.tag(),
        };
        if got != want.trim() && !got.starts_with("rejected-runtime-error:") {
            let family = if spec.prop == "C12" { "c12:dead-branch-template" } else { "c07:short-circuit-template" };
            rep.violation(&format!("{family}:{}", truncate(&src, 60)), &format!("`{src}` gave {got}, expected {want}"), "diff", payload);
        }
        return;
    }
    if let Some(what) = head.strip_prefix("#must-reject ") {
        let text = format!("{}{}", crate::ast::PRELUDE, payload.lines().skip(1).collect::<Vec<_>>().join("\n"));
        must_reject(&text, what.trim(), rep);
        return;
    }
    let get = |k: &str| -> Option<u64> { head.split_whitespace().find_map(|t| t.strip_prefix(&format!("{k}="))).and_then(|v| v.parse().ok()) };
    let pname = head.split_whitespace().find_map(|t| t.strip_prefix("profile=")).unwrap_or("");
    let (Some(seed), Some(shard), Some(index)) = (get("seed"), get("shard"), get("index")) else {
        // plain texts: `<literal twin>` then a line `#--- hidden twin` then `<hidden twin>` (prelude added here);
        // judged without the reference (twin comparison, panics, closure-creation classification)
        let mut parts = payload.split("#--- hidden twin\n");
        let a = parts.next().unwrap_or("").lines().filter(|l| !l.starts_with('#')).collect::<Vec<_>>().join("\n");
        let b = parts.next().map(|b| b.lines().filter(|l| !l.starts_with('#')).collect::<Vec<_>>().join("\n")).unwrap_or_else(|| a.clone());
        let (ta, tb) = (format!("{}{a}", crate::ast::PRELUDE), format!("{}{b}", crate::ast::PRELUDE));
        rep.count("programs");
        if let Some((class, which, detail)) = examine_texts(&ta, &tb, None, spec, Some(rep)) {
            let key = format!("{}:{class}", spec.prop.to_lowercase());
            rep.violation(&key, &format!("[{which}] {detail} :: {}", truncate(&a, 400)), "diff", payload);
        }
        return;
    };
    let profile = spec.profiles.iter().find(|p| p.name == pname).unwrap_or(&spec.profiles[0]);
    let (body, _) = gen_program(seed, shard, index, profile);
    let _ = cfg;
    rep.count("programs");
    if let Some((class, _, _)) = examine(&body, spec, Some(rep)) {
        let cls = class.clone();
        let small = if cls.starts_with("valid-program-rejected") { body.clone() } else { prog::shrink(&body, |c| examine(c, spec, None).is_some_and(|(k, _, _)| k == cls), 300) };
        let (class2, which2, detail2) = examine(&small, spec, None).unwrap_or((class, String::new(), String::new()));
        let cons = prog::constructs(&small).join(",");
        let key = if class2 == "closure-creation-folding-error" || class2.starts_with("cell-content-after:") || class2.starts_with("valid-program-rejected:") { format!("{}:{class2}", spec.prop.to_lowercase()) } else { format!("{}:{class2}:{{{cons}}}", spec.prop.to_lowercase()) };
        let small_a = prog::program_text(&small, Mode::Literal);
        rep.violation(&key, &format!("[{which2}] {detail2} :: {}", truncate(&small_a[crate::ast::PRELUDE.len()..], 500)), "diff", payload);
    }
}

fn profile(name: &'static str, f: impl FnOnce(&mut Profile)) -> Profile {
    let mut p = Profile::mixed();
    p.name = name;
    f(&mut p);
    p
}

pub fn spec_for(prop: &str) -> Option<Spec> {
    use crate::genp::NAMES_HOSTILE;
    // statement kind weights: let, fn, effect-expr, if, ifset, match, while, for, loop, destruct, block, typed-let-stm
    Some(match prop {
        "DIFF" => Spec { prop: "DIFF", profiles: vec![Profile::mixed()], ref_value: true, ref_log: true, twins: true, quick: 4000, thorough: 400_000 },
        // constants in every position, error-prone constant operands, closures capturing constants
        "C04" => Spec {
            prop: "C04",
            profiles: vec![
                profile("twins", |p| {
                    p.err = 12;
                    p.tick = 35;
                }),
                profile("twins-errors", |p| {
                    p.err = 35;
                    p.tick = 30;
                    p.closures = 30;
                }),
                profile("twins-control", |p| {
                    p.w = [20, 8, 10, 14, 6, 12, 8, 8, 5, 4, 6, 8];
                    p.tick = 40;
                }),
            ],
            ref_value: false,
            ref_log: false,
            twins: true,
            quick: 60_000,
            thorough: 3_000_000,
        },
        // scoping: hostile names (the helper closures' own locals), closures, blocks, modules, user iterators consumed by every operator
        "C06" => Spec {
            prop: "C06",
            profiles: vec![
                profile("scopes", |p| {
                    p.names = NAMES_HOSTILE;
                    p.err = 0;
                    p.closures = 40;
                    p.modules = 12;
                    p.iterators = 30;
                    p.w = [30, 18, 8, 8, 4, 6, 5, 8, 3, 5, 10, 8];
                }),
                profile("scopes-few-names", |p| {
                    p.names = &["a", "b", "res", "value"];
                    p.err = 0;
                    p.closures = 50;
                    p.modules = 10;
                    p.iterators = 35;
                    p.w = [34, 20, 6, 6, 3, 5, 4, 8, 2, 6, 12, 8];
                }),
            ],
            ref_value: true,
            ref_log: true,
            twins: false,
            quick: 60_000,
            thorough: 3_000_000,
        },
        // evaluation order: almost every scalar operand carries an effect marker; only the effect log is judged
        "C07" => Spec {
            prop: "C07",
            profiles: vec![
                profile("order", |p| {
                    p.tick = 85;
                    p.err = 4;
                }),
                profile("order-calls", |p| {
                    p.tick = 90;
                    p.err = 0;
                    p.closures = 35;
                    p.w = [34, 16, 14, 8, 4, 8, 3, 5, 2, 6, 4, 8];
                }),
            ],
            ref_value: false,
            ref_log: true,
            twins: false,
            quick: 60_000,
            thorough: 3_000_000,
        },
        "C11" => Spec {
            prop: "C11",
            profiles: vec![
                profile("iterators", |p| {
                    p.iterators = 90;
                    p.err = 0;
                    p.tick = 45;
                    p.w = [34, 8, 8, 5, 3, 5, 3, 16, 2, 4, 3, 9];
                }),
                profile("iterators-shared", |p| {
                    p.iterators = 100;
                    p.err = 0;
                    p.tick = 50;
                    p.names = &["a", "b", "it", "x"];
                    p.w = [40, 6, 10, 5, 2, 4, 2, 18, 2, 3, 2, 6];
                }),
            ],
            ref_value: true,
            ref_log: true,
            twins: false,
            quick: 60_000,
            thorough: 3_000_000,
        },
        "C12" => Spec {
            prop: "C12",
            profiles: vec![profile("control", |p| {
                p.err = 0;
                p.tick = 40;
                p.unions = 40;
                p.w = [18, 14, 8, 14, 12, 14, 12, 10, 8, 3, 6, 10];
                p.max_depth = 4;
            })],
            ref_value: true,
            ref_log: true,
            twins: false,
            quick: 60_000,
            thorough: 3_000_000,
        },
        "C13" => Spec {
            prop: "C13",
            profiles: vec![
                profile("cells", |p| {
                    p.cells = 90;
                    p.err = 14;
                    p.tick = 25;
                    p.unions = 30;
                    p.w = [30, 10, 30, 6, 4, 5, 5, 5, 3, 4, 4, 6];
                }),
                profile("cells-closures", |p| {
                    p.cells = 100;
                    p.err = 8;
                    p.closures = 40;
                    p.names = &["a", "b", "c", "x"];
                    p.w = [30, 16, 30, 5, 3, 4, 4, 5, 2, 4, 4, 5];
                }),
            ],
            ref_value: true,
            ref_log: true,
            twins: false,
            quick: 60_000,
            thorough: 3_000_000,
        },
        _ => return None,
    })
}
