//! Typed program generator over the harness AST. It knows the documented typing rules well enough
//! that most programs are accepted; programs the checker rejects are counted, never judged.
use crate::ast::{Arm, E, S};
use crate::oracle::{Ty, sub};
use crate::util::Rng;
use std::collections::{BTreeMap, BTreeSet};

#[derive(Clone)]
pub struct Profile {
    pub name: &'static str,
    pub min_stmts: usize,
    pub max_stmts: usize,
    pub max_depth: u32,
    /// percent chance that a scalar expression is wrapped in an effect marker
    pub tick: u32,
    /// percent chance of an error-prone operand (zero divisor, shift 64, index out of range, ...)
    pub err: u32,
    /// statement kind weights: let, fn, effect-expr, if, ifset, match, while, for, loop, destruct, block, typed-let-stm
    pub w: [u32; 12],
    pub names: &'static [&'static str],
    /// allow runtime type tests (if-set, match type arms, `? T`) - only on values with unambiguous tags
    pub type_tests: bool,
    pub iterators: u32,
    pub cells: u32,
    pub unions: u32,
    pub closures: u32,
    pub modules: u32,
    /// `mut e` (cell type inferred) also where the static type of `e` is a union
    pub inferred_union_cells: bool,
}

pub const NAMES_PLAIN: &[&str] = &["a", "b", "c", "x", "y", "z", "p", "q"];
pub const NAMES_HOSTILE: &[&str] = &[
    "a", "b", "x", "res", "con", "value", "func", "mapper", "predicate", "iterator", "default", "array", "i", "len", "acc", "curr", "iter",
];

impl Profile {
    pub fn mixed() -> Self {
        Profile {
            name: "mixed",
            min_stmts: 3,
            max_stmts: 10,
            max_depth: 3,
            tick: 25,
            err: 6,
            w: [30, 10, 12, 8, 4, 6, 5, 6, 3, 4, 4, 6],
            names: NAMES_PLAIN,
            type_tests: true,
            iterators: 20,
            cells: 20,
            unions: 15,
            closures: 15,
            modules: 4,
            inferred_union_cells: true,
        }
    }
}

pub struct Gen<'a> {
    pub rng: &'a mut Rng,
    pub p: Profile,
    scopes: Vec<Vec<(String, Ty)>>,
    next_tick: u32,
    in_loop: u32,
    fn_ret: Vec<Ty>,
    /// coverage tags of what was generated
    pub shapes: BTreeSet<String>,
    budget: i32,
    /// names of functions whose body is being generated (not called unconditionally from inside)
    defining: Vec<String>,
    /// loop counters: readable, but never assigned by generated code (termination)
    counters: Vec<String>,
    /// statements that must precede the statement being generated, in the same statement list
    pending: Vec<S>,
    /// the expression being generated may have a static type that mentions `!`
    never_ok: bool,
}

fn scalar_kind(t: &Ty) -> Option<char> {
    match t {
        Ty::Int => Some('i'),
        Ty::Float => Some('f'),
        Ty::Str => Some('s'),
        Ty::Bool => Some('b'),
        _ => None,
    }
}

pub fn iter_elem(t: &Ty) -> Option<Ty> {
    match t {
        Ty::Fun(ps, r) if ps.is_empty() => match &**r {
            Ty::Tup(ts) if ts.len() == 2 && ts[0] == Ty::Bool => Some(ts[1].clone()),
            _ => None,
        },
        _ => None,
    }
}

impl<'a> Gen<'a> {
    pub fn new(rng: &'a mut Rng, p: Profile) -> Self {
        Gen { rng, p, scopes: vec![Vec::new()], next_tick: 1, in_loop: 0, fn_ret: Vec::new(), shapes: BTreeSet::new(), budget: 400, defining: Vec::new(), counters: Vec::new(), pending: Vec::new(), never_ok: false }
    }

    fn tag(&mut self, s: &str) {
        self.shapes.insert(s.to_string());
    }

    pub fn fresh_tick(&mut self) -> u32 {
        self.next_tick += 1;
        self.next_tick - 1
    }

    fn pct(&mut self, p: u32) -> bool {
        self.rng.chance(p, 100)
    }

    // ----- scopes ------------------------------------------------------------------------

    pub fn push(&mut self) {
        self.scopes.push(Vec::new());
    }
    pub fn pop(&mut self) {
        self.scopes.pop();
    }
    pub fn declare(&mut self, name: &str, ty: Ty) {
        self.scopes.last_mut().unwrap().push((name.to_string(), ty));
    }
    /// visible variables (innermost declaration of each name)
    pub fn visible(&self) -> Vec<(String, Ty)> {
        let mut seen = BTreeSet::new();
        let mut out = Vec::new();
        for scope in self.scopes.iter().rev() {
            for (n, t) in scope.iter().rev() {
                if seen.insert(n.clone()) {
                    out.push((n.clone(), t.clone()));
                }
            }
        }
        out
    }
    fn vars_sub(&self, goal: &Ty) -> Vec<(String, Ty)> {
        // a variable whose type mentions `!` (an element of `[]`, the payload of `[]~`) fits every goal, but what is taken
        // out of it is `!` again, not the goal type: such variables are only used where they are asked for by name
        self.visible().into_iter().filter(|(_, t)| sub(t, goal) && !t.contains_never()).collect()
    }
    fn vars_where(&self, f: impl Fn(&Ty) -> bool) -> Vec<(String, Ty)> {
        self.visible().into_iter().filter(|(_, t)| f(t) && !t.contains_never()).collect()
    }
    fn name(&mut self) -> String {
        (*self.rng.pick(self.p.names)).to_string()
    }

    // ----- types -------------------------------------------------------------------------

    pub fn decl_type(&mut self) -> Ty {
        let int_or_str = Ty::union([Ty::Int, Ty::Str]);
        let w = [
            30,
            10,
            10,
            7,
            10,
            3,
            self.p.unions / 4,
            5,
            self.p.unions / 2,
            self.p.cells / 3,
            self.p.cells / 8 * (self.p.unions.min(1)),
            self.p.iterators / 4,
            self.p.closures / 4,
            3,
            1,
            1,
            self.p.cells / 8,
            self.p.unions / 4,
        ];
        match self.rng.weighted(&w) {
            0 => Ty::Int,
            1 => Ty::Str,
            2 => Ty::Bool,
            3 => Ty::Float,
            4 => Ty::arr(Ty::Int),
            5 => Ty::arr(Ty::Str),
            6 => Ty::arr(int_or_str),
            7 => Ty::Tup(vec![Ty::Int, Ty::Str]),
            8 => int_or_str,
            9 => Ty::mutc(Ty::Int),
            10 => Ty::mutc(int_or_str),
            11 => Ty::iter_of(Ty::Int),
            12 => Ty::fun(vec![Ty::Int], Ty::Int),
            13 => {
                let mut f = BTreeMap::new();
                f.insert("a".to_string(), Ty::Int);
                f.insert("b".to_string(), Ty::Str);
                Ty::Struct(f)
            }
            14 => Ty::Void,
            15 => Ty::arr(Ty::arr(Ty::Int)),
            16 => Ty::mutc(Ty::arr(Ty::Int)),
            _ => Ty::union([Ty::Int, Ty::Float]),
        }
    }

    // ----- expressions -------------------------------------------------------------------

    fn small_int(&mut self) -> i64 {
        match self.rng.below(12) {
            0 => 0,
            1 => 1,
            2 => 2,
            3 => -1,
            4 => 3,
            5 => 10,
            6 => 63,
            7 => 64,
            8 => i64::MAX,
            9 => self.rng.range(-5, 5),
            _ => self.rng.range(0, 7),
        }
    }

    /// a sum / product whose static type is `!` (over `[]~`): its value is the C01 finding, left open in the reference
    fn never_op(op: &'static str, t: &Ty) -> &'static str {
        if *t != Ty::Never {
            op
        } else if op.starts_with("$+") {
            "$+n"
        } else if op.starts_with("$*") {
            "$*n"
        } else {
            op
        }
    }

    fn maybe_tick(&mut self, e: E, t: &Ty) -> E {
        if let Some(k) = scalar_kind(t) {
            if self.pct(self.p.tick) {
                let id = self.fresh_tick();
                return E::Tick(id, k, Box::new(e));
            }
        }
        e
    }

    /// an expression whose static type is a subtype of `goal`; returns the type the checker computes
    pub fn expr(&mut self, goal: &Ty, depth: u32) -> (E, Ty) {
        self.budget -= 1;
        // an expression whose static type mentions `!` (`[]~ $+`, `[][k]`, an element of `[]`) fits every goal, but the
        // type of what is built *around* it follows rules of its own (`! * int` is `!`, `int * !` is int, an index of
        // type `!` is refused): it is generated only where a binding or an expression statement takes it as it is
        let top = std::mem::replace(&mut self.never_ok, false);
        let (e, t) = self.expr_inner(goal, if self.budget < 0 { 0 } else { depth });
        self.never_ok = top;
        if t.contains_never() && !top {
            if let Some(lit) = Self::plain_literal(goal) {
                return (lit, goal.clone());
            }
        }
        let e = self.maybe_tick(e, &t);
        (e, t)
    }

    fn plain_literal(goal: &Ty) -> Option<E> {
        Some(match goal {
            Ty::Int => E::Int(2),
            Ty::Str => E::Str("a".into()),
            Ty::Float => E::Float(1.5),
            Ty::Bool => E::Bool(true),
            Ty::Void => E::Void,
            Ty::Arr(e) => E::Arr(vec![Self::plain_literal(e)?]),
            Ty::Tup(ts) => E::Tup(ts.iter().map(Self::plain_literal).collect::<Option<Vec<_>>>()?),
            Ty::Union(ms) => Self::plain_literal(ms.iter().next()?)?,
            Ty::Any => E::Int(2),
            _ => return None,
        })
    }

    fn var_of(&mut self, goal: &Ty) -> Option<(E, Ty)> {
        let vs = self.vars_sub(goal);
        if vs.is_empty() {
            return None;
        }
        let (n, t) = self.rng.pick(&vs).clone();
        Some((E::Var(n), t))
    }

    fn expr_inner(&mut self, goal: &Ty, depth: u32) -> (E, Ty) {
        // prefer variables sometimes
        if self.pct(if depth == 0 { 45 } else { 25 }) {
            if let Some(r) = self.var_of(goal) {
                return r;
            }
        }
        match goal {
            Ty::Int => self.int_expr(depth),
            Ty::Float => self.float_expr(depth),
            Ty::Str => self.str_expr(depth),
            Ty::Bool => self.bool_expr(depth),
            Ty::Void => (E::Void, Ty::Void),
            Ty::Never => (E::Void, Ty::Void), // cannot be built; callers never ask
            Ty::Any => {
                let t = self.decl_type();
                self.expr(&t, depth)
            }
            Ty::Union(ms) => {
                let members: Vec<Ty> = ms.iter().cloned().collect();
                let simple = |t: &Ty| matches!(t, Ty::Int | Ty::Str | Ty::Float | Ty::Bool);
                if members.len() == 2 && members.iter().all(simple) && self.pct(self.p.unions * 2) {
                    // widened: the static type is the union although the value is one member
                    // (`[a, b][k]` - folded to one element when everything is constant)
                    let d = depth.saturating_sub(1).min(1);
                    let (a, ta) = self.expr(&members[0], d);
                    let (b, tb) = self.expr(&members[1], d);
                    let idx = E::Int(self.rng.range(0, 1));
                    self.tag("expr:widened-union");
                    return (E::Index(Box::new(E::Arr(vec![a, b])), Box::new(idx)), Ty::union([ta, tb]));
                }
                let m = self.rng.pick(&members).clone();
                self.expr(&m, depth)
            }
            Ty::Arr(e) => self.arr_expr(e, depth),
            Ty::Tup(ts) => {
                let mut es = Vec::new();
                let mut tys = Vec::new();
                for t in ts {
                    let (e, ty) = self.expr(t, depth.saturating_sub(1));
                    es.push(e);
                    tys.push(ty);
                }
                (E::Tup(es), Ty::Tup(tys))
            }
            Ty::Struct(fs) => {
                let mut es = Vec::new();
                let mut tys = BTreeMap::new();
                for (k, t) in fs {
                    let (e, ty) = self.expr(t, depth.saturating_sub(1));
                    es.push((k.clone(), e));
                    tys.insert(k.clone(), ty);
                }
                if self.pct(15) {
                    // width: an extra field
                    es.push(("zz".to_string(), E::Int(1)));
                    tys.insert("zz".to_string(), Ty::Int);
                }
                // fields are written in any order (initialisers run in source order), and a name may be given twice
                // (both initialisers run, the last one stays)
                for i in (1..es.len()).rev() {
                    let j = self.rng.below(i + 1);
                    es.swap(i, j);
                }
                if !es.is_empty() && self.pct(12) {
                    let k = self.rng.below(es.len());
                    let name = es[k].0.clone();
                    let t = self.rng.pick(&[Ty::Int, Ty::Str, Ty::Bool]).clone();
                    let (dup, _) = self.expr(&t, depth.saturating_sub(1).min(1));
                    let at = self.rng.below(k + 1);
                    es.insert(at, (name, dup));
                    self.tag("expr:struct-duplicate-field");
                }
                (E::Struct(es), Ty::Struct(tys))
            }
            Ty::Mut(inner) => {
                // cells are invariant: declare the content type explicitly
                // cell type inferred from the initial value's static type: only for initial values whose static type the
                // generator knows exactly (literals, and `[lit, lit][k]` for a union) - the types it tracks for other
                // expressions are upper bounds (a `!`-typed operand makes the real type `!`)
                if self.pct(35) {
                    let lit = |g: &mut Self, t: &Ty| -> Option<E> {
                        Some(match t {
                            Ty::Int => E::Int(g.small_int()),
                            Ty::Str => E::Str((*g.rng.pick(&["", "a", "bc"])).to_string()),
                            Ty::Float => E::Float(*g.rng.pick(&[0.0, 1.5, -0.5])),
                            Ty::Bool => E::Bool(g.rng.chance(1, 2)),
                            _ => return None,
                        })
                    };
                    let exact: Option<E> = match &**inner {
                        Ty::Union(ms) if self.p.inferred_union_cells && ms.len() == 2 => {
                            let ms: Vec<Ty> = ms.iter().cloned().collect();
                            match (lit(self, &ms[0]), lit(self, &ms[1])) {
                                (Some(a), Some(b)) => Some(E::Index(Box::new(E::Arr(vec![a, b])), Box::new(E::Int(self.rng.range(0, 1))))),
                                _ => None,
                            }
                        }
                        t => lit(self, t),
                    };
                    if let Some(e) = exact {
                        self.tag("expr:mut");
                        self.tag("expr:mut-inferred");
                        let e = self.maybe_tick(e, inner);
                        return (E::MutInf((**inner).clone(), Box::new(e)), Ty::mutc((**inner).clone()));
                    }
                }
                let (e, _) = self.expr(inner, depth.saturating_sub(1));
                self.tag("expr:mut");
                (E::Mut(Some((**inner).clone()), Box::new(e)), Ty::mutc((**inner).clone()))
            }
            Ty::Fun(ps, r) => self.fun_expr(ps, r, depth),
        }
    }

    fn int_expr(&mut self, depth: u32) -> (E, Ty) {
        if depth == 0 {
            return (E::Int(self.small_int()), Ty::Int);
        }
        let d = depth - 1;
        if self.pct(self.p.iterators / 5) {
            // manual pull: the element of the next step of a visible int iterator (unspecified once exhausted)
            let its = self.vars_where(|t| iter_elem(t) == Some(Ty::Int));
            if !its.is_empty() {
                let (n, _) = self.rng.pick(&its).clone();
                self.tag("iter:manual-pull-element");
                return (E::TupAcc(Box::new(E::Call(Box::new(E::Var(n)), vec![])), 1), Ty::Int);
            }
        }
        let choice = self.rng.weighted(&[14, 22, 4, 8, 6, 6, self.p.cells, 6, 5, self.p.iterators, 4, self.p.cells / 2, 3]);
        match choice {
            0 => (E::Int(self.small_int()), Ty::Int),
            1 => {
                let op = *self.rng.pick(&["+", "-", "*", "/", "%", "**", "<<", ">>", "&", "|", "^", "+", "-", "*"]);
                let (a, _) = self.expr(&Ty::Int, d);
                let b = if matches!(op, "/" | "%" | "**" | "<<" | ">>") && !self.pct(self.p.err) {
                    // usually safe right operands
                    let v = match op {
                        "/" | "%" => *self.rng.pick(&[1i64, 2, 3, -1, 7]),
                        "**" => self.rng.range(0, 5),
                        _ => self.rng.range(0, 8),
                    };
                    E::Int(v)
                } else {
                    self.expr(&Ty::Int, d).0
                };
                self.tag(&format!("binop:{op}"));
                (E::Bin(op, Box::new(a), Box::new(b)), Ty::Int)
            }
            2 => {
                let op = *self.rng.pick(&["-", "!"]);
                let (a, _) = self.expr(&Ty::Int, d);
                (E::Un(op, Box::new(a)), Ty::Int)
            }
            3 => {
                // index into an int array
                let (mut a, mut at) = self.expr(&Ty::arr(Ty::Int), d);
                if (a == E::Arr(vec![]) || at.contains_never()) && !self.pct(self.p.err) {
                    // indexing an empty array has static type `!`; keep that rare
                    a = E::Arr(vec![E::Int(self.small_int())]);
                    at = Ty::arr(Ty::Int);
                }
                let idx = self.index_expr(d);
                self.tag("expr:index-array");
                // the element type the checker computes (`!` for `[][k]`)
                let et = if a == E::Arr(vec![]) || at.contains_never() { Ty::Never } else { Ty::Int };
                (E::Index(Box::new(a), Box::new(idx)), et)
            }
            4 => {
                let (a, t) = self.expr(&Ty::union([Ty::arr(Ty::Any), Ty::Str]), d);
                let _ = t;
                self.tag("expr:len");
                (E::Len(Box::new(a)), Ty::Int)
            }
            5 => {
                // tuple access
                let (t, ty) = self.expr(&Ty::Tup(vec![Ty::Int, Ty::Str]), d);
                let _ = ty;
                self.tag("expr:tuple-access");
                (E::TupAcc(Box::new(t), 0), Ty::Int)
            }
            6 => {
                // read a cell
                if self.pct(30) {
                    if let Some((c, Ty::Int)) = self.cell_in_container() {
                        self.tag("expr:deref-through-container");
                        return (E::Un("*", Box::new(c)), Ty::Int);
                    }
                }
                if let Some((c, _)) = self.var_of(&Ty::mutc(Ty::Int)) {
                    self.tag("expr:deref");
                    (E::Un("*", Box::new(c)), Ty::Int)
                } else {
                    (E::Int(self.small_int()), Ty::Int)
                }
            }
            7 => {
                // call a function returning int
                let defining = self.defining.clone();
                let fs: Vec<(String, Ty)> = self
                    .vars_where(|t| matches!(t, Ty::Fun(ps, r) if **r == Ty::Int && ps.len() <= 3 && ps.iter().all(|p| !matches!(p, Ty::Never))))
                    .into_iter()
                    .filter(|(n, _)| !defining.contains(n))
                    .collect();
                if fs.is_empty() || self.budget < 50 {
                    return (E::Int(self.small_int()), Ty::Int);
                }
                let (n, t) = self.rng.pick(&fs).clone();
                let Ty::Fun(ps, _) = t else { unreachable!() };
                let args = ps.iter().map(|p| self.expr(p, d.min(1)).0).collect();
                self.tag("expr:call");
                (E::Call(Box::new(E::Var(n)), args), Ty::Int)
            }
            8 => {
                // field access
                let mut f = BTreeMap::new();
                f.insert("a".to_string(), Ty::Int);
                let (s, _) = self.expr(&Ty::Struct(f), d);
                self.tag("expr:field-access");
                (E::Field(Box::new(s), "a".to_string()), Ty::Int)
            }
            9 if self.p.type_tests && self.p.cells > 0 && self.pct(20) => {
                // how many elements of a mixed array have a structured type: `std.len(([..]~ ? T) $])` with T a cell,
                // array, tuple or function type (the filter type is printed into the helper and read back)
                let u = Ty::union([Ty::Int, Ty::Str]);
                let mut es: Vec<E> = Vec::new();
                for (n, t) in self.vars_where(|t| matches!(t, Ty::Mut(_))).into_iter().take(2) {
                    let _ = t;
                    es.push(E::Var(n));
                }
                let n = 2 + self.rng.below(4);
                for _ in 0..n {
                    let e = match self.rng.below(8) {
                        0 => E::Mut(Some(u.clone()), Box::new(self.expr(&Ty::Int, 0).0)),
                        1 => E::Mut(Some(u.clone()), Box::new(self.expr(&Ty::Str, 0).0)),
                        2 => E::Mut(Some(Ty::Int), Box::new(self.expr(&Ty::Int, 0).0)),
                        3 => E::Mut(Some(Ty::Str), Box::new(self.expr(&Ty::Str, 0).0)),
                        4 => self.expr(&Ty::Int, 0).0,
                        5 => self.expr(&Ty::Str, 0).0,
                        6 => E::Arr(vec![self.expr(&Ty::Int, 0).0, self.expr(&Ty::Str, 0).0]),
                        _ => E::Tup(vec![self.expr(&Ty::Int, 0).0, self.expr(&Ty::Str, 0).0]),
                    };
                    es.push(e);
                }
                let t = self
                    .rng
                    .pick(&[
                        Ty::mutc(u.clone()),
                        Ty::mutc(Ty::Int),
                        Ty::mutc(Ty::Str),
                        Ty::union([Ty::mutc(Ty::Int), Ty::Str]),
                        Ty::union([Ty::mutc(u.clone()), Ty::Int]),
                        Ty::arr(u.clone()),
                        Ty::Tup(vec![u.clone(), Ty::Str]),
                        Ty::mutc(Ty::Any),
                    ])
                    .clone();
                self.tag("iter:type-filter-structured");
                let it = E::TypeFilter(Box::new(E::Post("~", Box::new(E::Arr(es)))), t);
                (E::Len(Box::new(E::Post("$]", Box::new(it)))), Ty::Int)
            }
            9 => {
                // reduce an int iterator
                let (it, et) = self.iter_expr(&Ty::Int, d);
                let op = *self.rng.pick(&["$+i", "$*i", "$&", "$|", "$+i"]);
                self.tag(&format!("reduce:{op}"));
                // `$+` / `$*` are typed by the element type (`!` over `[]~`); `$&` / `$|` are calls returning int
                let t = if op.starts_with("$+") || op.starts_with("$*") { et } else { Ty::Int };
                if t == Ty::Never && !self.pct(25) {
                    // the value of a `!`-typed sum is left open in the reference: keep those rare
                    return (E::Int(self.small_int()), Ty::Int);
                }
                let op = Self::never_op(op, &t);
                (E::Post(op, Box::new(it)), t)
            }
            10 => {
                // immediately applied lambda
                let (arg, _) = self.expr(&Ty::Int, d);
                let pn = self.name();
                self.push();
                self.fn_ret.push(Ty::Int);
                let saved_loop = std::mem::replace(&mut self.in_loop, 0);
                self.declare(&pn, Ty::Int);
                let (body, _) = self.expr(&Ty::Int, d);
                self.in_loop = saved_loop;
                self.fn_ret.pop();
                self.pop();
                self.tag("expr:lambda-applied");
                (
                    E::Call(Box::new(E::Lambda(vec![(pn, Ty::Int)], Ty::Int, vec![S::Return(Some(Box::new(S::Expr(body))))])), vec![arg]),
                    Ty::Int,
                )
            }
            11 => {
                // assignment as an expression
                let wide = Ty::mutc(Ty::union([Ty::Int, Ty::Str]));
                if let Some((c, _)) = self.assignable_cell(Some(&wide)).filter(|_| self.rng.chance(1, 3)).map(|(n, t)| (E::Var(n), t)) {
                    // `c = v` yields v at v's own type even when the cell is wider (`mut int|string`)
                    let rhs = self.expr(&Ty::Int, d).0;
                    self.tag("assign:=:wider-cell");
                    (E::Bin("=", Box::new(c), Box::new(rhs)), Ty::Int)
                } else if let Some((c, _)) = self.assignable_cell(Some(&Ty::mutc(Ty::Int))).map(|(n, t)| (E::Var(n), t)) {
                    let op = *self.rng.pick(&["=", "+=", "-=", "*=", "&=", "|=", "^=", "/=", "%=", "<<=", ">>=", "**="]);
                    let rhs = if matches!(op, "/=" | "%=" | "<<=" | ">>=" | "**=") && !self.pct(self.p.err) {
                        E::Int(self.rng.range(1, 4))
                    } else {
                        self.expr(&Ty::Int, d).0
                    };
                    self.tag(&format!("assign:{op}"));
                    (E::Bin(op, Box::new(c), Box::new(rhs)), Ty::Int)
                } else {
                    (E::Int(self.small_int()), Ty::Int)
                }
            }
            _ => {
                // fold with an explicit function
                let (it, _) = self.iter_expr(&Ty::Int, d);
                let (init, _) = self.expr(&Ty::Int, d);
                let mut f = self.lambda2(&Ty::Int, &Ty::Int, &Ty::Int, d);
                if self.pct(self.p.tick) {
                    // the function operand is itself effectful (evaluation order of the three operands)
                    let id = self.fresh_tick();
                    f = E::Tick(id, 'g', Box::new(f));
                    self.tag("reduce:$init:effectful-function-operand");
                }
                self.tag("reduce:$init");
                (E::Reduce(Box::new(it), Box::new(init), Box::new(f)), Ty::Int)
            }
        }
    }

    fn index_expr(&mut self, d: u32) -> E {
        if self.pct(self.p.err) {
            // (an index / bound whose static type is `!` is refused by the checker: "Index must be int")
            match self.expr(&Ty::Int, d) {
                (e, Ty::Int) => e,
                _ => E::Int(0),
            }
        } else {
            E::Int(*self.rng.pick(&[0i64, 0, -1, 1]))
        }
    }

    fn float_expr(&mut self, depth: u32) -> (E, Ty) {
        let lit = |g: &mut Self| E::Float(*g.rng.pick(&[0.0, 1.5, 2.0, -0.5, 10.25, 1e10, 0.1]));
        if depth == 0 {
            return (lit(self), Ty::Float);
        }
        let d = depth - 1;
        match self.rng.below(if self.p.iterators > 0 { 6 } else { 5 }) {
            5 => {
                // sum / product of a float iterator
                let (it, et) = self.iter_expr(&Ty::Float, d);
                let op = *self.rng.pick(&["$+f", "$*f"]);
                self.tag(&format!("reduce:{op}"));
                if et == Ty::Never {
                    return (lit(self), Ty::Float);
                }
                (E::Post(op, Box::new(it)), et)
            }
            0 | 1 => (lit(self), Ty::Float),
            2 | 3 => {
                let op = *self.rng.pick(&["+", "-", "*", "/", "**"]);
                let (a, _) = self.expr(&Ty::Float, d);
                let (b, _) = self.expr(&Ty::Float, d);
                self.tag(&format!("fbinop:{op}"));
                (E::Bin(op, Box::new(a), Box::new(b)), Ty::Float)
            }
            _ => {
                let (a, _) = self.expr(&Ty::Float, d);
                (E::Un("-", Box::new(a)), Ty::Float)
            }
        }
    }

    fn str_expr(&mut self, depth: u32) -> (E, Ty) {
        let lit = |g: &mut Self| E::Str((*g.rng.pick(&["", "a", "bc", "héy", "x y", "日本"])).to_string());
        if depth == 0 {
            return (lit(self), Ty::Str);
        }
        let d = depth - 1;
        match self.rng.below(if self.p.iterators > 0 { 8 } else { 7 }) {
            7 => {
                // concatenation of a string iterator
                let (it, et) = self.iter_expr(&Ty::Str, d);
                self.tag("reduce:$+s");
                if et == Ty::Never {
                    return (lit(self), Ty::Str);
                }
                (E::Post("$+s", Box::new(it)), et)
            }
            0 | 1 => (lit(self), Ty::Str),
            2 | 3 => {
                let (a, _) = self.expr(&Ty::Str, d);
                let (b, _) = self.expr(&Ty::Str, d);
                self.tag("binop:+str");
                (E::Bin("+", Box::new(a), Box::new(b)), Ty::Str)
            }
            4 => {
                let (a, _) = self.expr(&Ty::Str, d);
                let (s, e, st) = self.slice_bounds(d);
                self.tag("expr:slice-string");
                (E::Slice(Box::new(a), s, e, st, false), Ty::Str)
            }
            5 => {
                let (a, _) = self.expr(&Ty::Tup(vec![Ty::Int, Ty::Str]), d);
                (E::TupAcc(Box::new(a), 1), Ty::Str)
            }
            _ => {
                let s = E::Str((*self.rng.pick(&["abc", "héy", "日本語"])).to_string());
                let idx = self.index_expr(d);
                self.tag("expr:index-string");
                (E::Index(Box::new(s), Box::new(idx)), Ty::Str)
            }
        }
    }

    fn slice_bounds(&mut self, d: u32) -> (Option<Box<E>>, Option<Box<E>>, Option<Box<E>>) {
        let mut b = |g: &mut Self| -> Option<Box<E>> {
            match g.rng.below(4) {
                0 | 1 => None,
                2 => Some(Box::new(E::Int(g.rng.range(-3, 3)))),
                _ => Some(Box::new(match g.expr(&Ty::Int, d.min(1)) {
                    (e, Ty::Int) => e,
                    _ => E::Int(1),
                })),
            }
        };
        (b(self), b(self), b(self))
    }

    fn bool_expr(&mut self, depth: u32) -> (E, Ty) {
        if depth == 0 {
            return (E::Bool(self.rng.chance(1, 2)), Ty::Bool);
        }
        let d = depth - 1;
        if self.pct(self.p.iterators / 4) {
            // manual pull: the flag of the next step of a visible iterator
            let its = self.vars_where(|t| iter_elem(t).is_some());
            if !its.is_empty() {
                let (n, _) = self.rng.pick(&its).clone();
                self.tag("iter:manual-pull-flag");
                return (E::TupAcc(Box::new(E::Call(Box::new(E::Var(n)), vec![])), 0), Ty::Bool);
            }
        }
        match self.rng.weighted(&[6, 12, 8, 8, 4, 6, self.p.iterators / 2]) {
            0 => (E::Bool(self.rng.chance(1, 2)), Ty::Bool),
            1 => {
                let op = *self.rng.pick(&["<", "<=", ">", ">=", "==", "!="]);
                let t = if self.pct(80) { Ty::Int } else { Ty::Float };
                let (a, _) = self.expr(&t, d);
                let (b, _) = self.expr(&t, d);
                self.tag(&format!("cmp:{op}"));
                (E::Bin(op, Box::new(a), Box::new(b)), Ty::Bool)
            }
            2 => {
                let op = *self.rng.pick(&["&&", "||"]);
                let (a, _) = self.expr(&Ty::Bool, d);
                let (b, _) = self.expr(&Ty::Bool, d);
                self.tag(&format!("logic:{op}"));
                (E::Bin(op, Box::new(a), Box::new(b)), Ty::Bool)
            }
            3 => {
                // equality of arbitrary values
                let t = self.decl_type();
                let t = if matches!(t, Ty::Fun(..) | Ty::Mut(_)) { Ty::Int } else { t };
                let (a, _) = self.expr(&t, d);
                let (b, _) = self.expr(&t, d);
                let op = *self.rng.pick(&["==", "!="]);
                self.tag("eq:structured");
                (E::Bin(op, Box::new(a), Box::new(b)), Ty::Bool)
            }
            4 => {
                let (a, _) = self.expr(&Ty::Bool, d);
                (E::Un("!", Box::new(a)), Ty::Bool)
            }
            5 => {
                let op = *self.rng.pick(&["&", "|", "^"]);
                let (a, _) = self.expr(&Ty::Bool, d);
                let (b, _) = self.expr(&Ty::Bool, d);
                (E::Bin(op, Box::new(a), Box::new(b)), Ty::Bool)
            }
            _ => {
                let (it, _) = self.iter_expr(&Ty::Bool, d);
                let op = *self.rng.pick(&["$&&", "$||"]);
                self.tag(&format!("reduce:{op}"));
                (E::Post(op, Box::new(it)), Ty::Bool)
            }
        }
    }

    /// an array expression whose static type is exactly an array type `[T]`, T <= elem
    fn arr_expr(&mut self, elem: &Ty, depth: u32) -> (E, Ty) {
        let (e, t) = self.arr_expr_any(elem, depth);
        if matches!(t, Ty::Arr(_)) {
            return (e, t);
        }
        // e.g. a variable typed `[int]|[string]`: fall back to a literal
        let (x, tx) = self.expr(elem, 0);
        (E::Arr(vec![x]), Ty::arr(tx))
    }

    fn arr_expr_any(&mut self, elem: &Ty, depth: u32) -> (E, Ty) {
        let d = depth.saturating_sub(1);
        let lit = |g: &mut Self, d: u32| -> (E, Ty) {
            let n = g.rng.below(4);
            let mut es = Vec::new();
            let mut tys = Vec::new();
            for _ in 0..n {
                let (e, t) = g.expr(elem, d);
                es.push(e);
                tys.push(t);
            }
            (E::Arr(es), Ty::arr(Ty::union(tys)))
        };
        if depth == 0 || *elem == Ty::Never {
            return lit(self, 0);
        }
        match self.rng.weighted(&[12, 6, 5, self.p.iterators, 4, self.p.iterators / 3]) {
            0 => lit(self, d),
            1 => {
                let (a, ta) = self.expr(&Ty::arr(elem.clone()), d);
                let (b, tb) = self.expr(&Ty::arr(elem.clone()), d);
                let (Ty::Arr(ea), Ty::Arr(eb)) = (ta, tb) else { return lit(self, d) };
                self.tag("binop:+array");
                (E::Bin("+", Box::new(a), Box::new(b)), Ty::arr(Ty::union([*ea, *eb])))
            }
            2 => {
                let (a, ta) = self.expr(&Ty::arr(elem.clone()), d);
                let (s, e, st) = self.slice_bounds(d);
                self.tag("expr:slice-array");
                (E::Slice(Box::new(a), s, e, st, self.rng.chance(1, 5)), ta)
            }
            3 => {
                let (it, et) = self.iter_expr(elem, d);
                self.tag("reduce:$]");
                (E::Post("$]", Box::new(it)), Ty::arr(et))
            }
            4 => {
                let (v, tv) = self.expr(elem, d);
                // lengths stay small (an enormous repeat only exhausts memory): error-prone ones are reduced to -3..=3
                let n = if self.pct(self.p.err) {
                    E::Bin("%", Box::new(self.expr(&Ty::Int, d).0), Box::new(E::Int(4)))
                } else {
                    E::Int(self.rng.range(0, 3))
                };
                self.tag("expr:repeat");
                (E::Rep(Box::new(v), Box::new(n)), Ty::arr(tv))
            }
            _ => {
                // one side of a partition
                let (it, et) = self.iter_expr(elem, d);
                let p = self.predicate(&et, d);
                let k = self.rng.below(2);
                self.tag("binop:partition");
                (E::TupAcc(Box::new(E::Bin("\\", Box::new(it), Box::new(p))), k), Ty::arr(et))
            }
        }
    }

    /// a function literal `(pn: pt) -> bool`
    fn predicate(&mut self, pt: &Ty, d: u32) -> E {
        let pn = self.name();
        self.push();
        self.fn_ret.push(Ty::Bool);
        let saved_loop = std::mem::replace(&mut self.in_loop, 0);
        self.declare(&pn, pt.clone());
        let (body, _) = self.expr(&Ty::Bool, d.min(2));
        self.in_loop = saved_loop;
        self.fn_ret.pop();
        self.pop();
        let f = E::Lambda(vec![(pn, pt.clone())], Ty::Bool, vec![S::Return(Some(Box::new(S::Expr(body))))]);
        self.maybe_effectful_fn(f, Ty::Fun(vec![pt.clone()], Box::new(Ty::Bool)))
    }

    /// sometimes `(() -> FT { ti(k, 0); return f })()`: a function operand whose evaluation is observable
    fn maybe_effectful_fn(&mut self, f: E, ft: Ty) -> E {
        if !self.pct(self.p.tick / 2) {
            return f;
        }
        let id = self.fresh_tick();
        self.tag("expr:effectful-function-operand");
        let body = vec![S::Expr(E::Tick(id, 'i', Box::new(E::Int(0)))), S::Return(Some(Box::new(S::Expr(f))))];
        E::Call(Box::new(E::Lambda(Vec::new(), ft, body)), Vec::new())
    }

    fn lambda1(&mut self, pt: &Ty, rt: &Ty, d: u32) -> E {
        let pn = self.name();
        self.push();
        self.fn_ret.push(rt.clone());
        let saved_loop = std::mem::replace(&mut self.in_loop, 0);
        self.declare(&pn, pt.clone());
        let (body, _) = self.expr(rt, d.min(2));
        self.in_loop = saved_loop;
        self.fn_ret.pop();
        self.pop();
        let f = E::Lambda(vec![(pn, pt.clone())], rt.clone(), vec![S::Return(Some(Box::new(S::Expr(body))))]);
        self.maybe_effectful_fn(f, Ty::Fun(vec![pt.clone()], Box::new(rt.clone())))
    }

    fn lambda2(&mut self, at: &Ty, xt: &Ty, rt: &Ty, d: u32) -> E {
        let (an, xn) = (self.name(), self.name());
        let xn = if xn == an { format!("{xn}2") } else { xn };
        self.push();
        self.fn_ret.push(rt.clone());
        let saved_loop = std::mem::replace(&mut self.in_loop, 0);
        self.declare(&an, at.clone());
        self.declare(&xn, xt.clone());
        let (body, _) = self.expr(rt, d.min(2));
        self.in_loop = saved_loop;
        self.fn_ret.pop();
        self.pop();
        E::Lambda(vec![(an, at.clone()), (xn, xt.clone())], rt.clone(), vec![S::Return(Some(Box::new(S::Expr(body))))])
    }

    /// an iterator expression yielding elements of (a subtype of) `elem`; returns (expr, element type)
    pub fn iter_expr(&mut self, elem: &Ty, depth: u32) -> (E, Ty) {
        let d = depth.saturating_sub(1);
        if self.pct(25) {
            let goal = Ty::iter_of(elem.clone());
            let vs = self.vars_sub(&goal);
            if !vs.is_empty() {
                let (n, t) = self.rng.pick(&vs).clone();
                if let Some(et) = iter_elem(&t) {
                    return (E::Var(n), et);
                }
            }
        }
        let base = |g: &mut Self| -> (E, Ty) {
            let (a, ta) = g.arr_expr(elem, d.min(1));
            let Ty::Arr(et) = ta else { unreachable!() };
            g.tag("iter:array");
            (E::Post("~", Box::new(a)), *et)
        };
        if depth == 0 {
            return base(self);
        }
        match self.rng.weighted(&[10, 6, 6, if self.p.type_tests { 3 } else { 0 }, 3]) {
            0 => base(self),
            1 => {
                // map from some source element type
                let src_t = if self.pct(70) { elem.clone() } else { Ty::Int };
                let (src, st) = self.iter_expr(&src_t, d);
                if st == Ty::Never {
                    return base(self);
                }
                let f = self.lambda1(&st, elem, d);
                self.tag("iter:map");
                (E::Bin("@", Box::new(src), Box::new(f)), elem.clone())
            }
            2 => {
                let (src, st) = self.iter_expr(elem, d);
                if st == Ty::Never {
                    return base(self);
                }
                let p = self.predicate(&st, d);
                self.tag("iter:filter");
                (E::Bin("?", Box::new(src), Box::new(p)), st)
            }
            3 => {
                // type filter over a mixed literal array (unambiguous runtime tags)
                let scalar = matches!(elem, Ty::Int | Ty::Str | Ty::Float | Ty::Bool);
                if !scalar {
                    return base(self);
                }
                let n = 1 + self.rng.below(4);
                let mut es = Vec::new();
                for _ in 0..n {
                    let t = self.rng.pick(&[Ty::Int, Ty::Str, Ty::Float, Ty::Bool]).clone();
                    es.push(self.expr(&t, 0).0);
                }
                self.tag("iter:type-filter");
                (E::TypeFilter(Box::new(E::Post("~", Box::new(E::Arr(es)))), elem.clone()), elem.clone())
            }
            _ => {
                // user-written stateful iterator: counts from lo to hi
                if *elem != Ty::Int {
                    return base(self);
                }
                let lo = self.rng.range(-1, 2);
                let hi = lo + self.rng.range(0, 4);
                let cn = self.name();
                let vn = {
                    let v = self.name();
                    if v == cn { format!("{v}v") } else { v }
                };
                self.tag("iter:user-written");
                let body = vec![
                    S::Let(vn.clone(), Box::new(S::Expr(E::Un("*", Box::new(E::Var(cn.clone())))))),
                    S::If(
                        E::Bin("<", Box::new(E::Var(vn.clone())), Box::new(E::Int(hi))),
                        Box::new(S::Block(vec![
                            S::Expr(E::Bin("+=", Box::new(E::Var(cn.clone())), Box::new(E::Int(1)))),
                            S::Return(Some(Box::new(S::Expr(E::Tup(vec![E::Bool(true), E::Var(vn.clone())]))))),
                        ])),
                        None,
                    ),
                    S::Return(Some(Box::new(S::Expr(E::Tup(vec![E::Bool(false), E::Var(vn)]))))),
                ];
                let maker = E::Lambda(
                    vec![],
                    Ty::iter_of(Ty::Int),
                    vec![
                        S::Let(cn, Box::new(S::Expr(E::MutInf(Ty::Int, Box::new(E::Int(lo)))))),
                        S::Return(Some(Box::new(S::Expr(E::Lambda(vec![], Ty::Tup(vec![Ty::Bool, Ty::Int]), body))))),
                    ],
                );
                (E::Call(Box::new(maker), vec![]), Ty::Int)
            }
        }
    }

    fn fun_expr(&mut self, ps: &[Ty], r: &Ty, depth: u32) -> (E, Ty) {
        if let Some(et) = iter_elem(&Ty::fun(ps.to_vec(), r.clone())) {
            if et != Ty::Never && self.pct(80) {
                let (e, t) = self.iter_expr(&et, depth);
                return (e, Ty::iter_of(t));
            }
        }
        // a function literal with a small body
        let mut params = Vec::new();
        self.push();
        for p in ps {
            let mut n = self.name();
            while params.iter().any(|(m, _): &(String, Ty)| *m == n) {
                n.push('_');
            }
            self.declare(&n, p.clone());
            params.push((n, p.clone()));
        }
        self.fn_ret.push(r.clone());
        let saved_loop = std::mem::replace(&mut self.in_loop, 0);
        let mut body = Vec::new();
        if depth > 0 && self.pct(40) {
            body.push(self.let_stm(depth - 1));
        }
        if *r == Ty::Void && self.pct(50) {
            if self.pct(50) {
                body.push(S::Return(None));
            }
        } else if *r != Ty::Never {
            let (e, _) = self.expr(r, depth.saturating_sub(1).min(2));
            body.push(S::Return(Some(Box::new(S::Expr(e)))));
        }
        self.in_loop = saved_loop;
        self.fn_ret.pop();
        self.pop();
        self.tag("expr:lambda");
        (E::Lambda(params, r.clone(), body), Ty::fun(ps.to_vec(), r.clone()))
    }

    // ----- statements --------------------------------------------------------------------

    fn let_stm(&mut self, depth: u32) -> S {
        if depth > 0 && self.pct(self.p.modules) {
            return self.module_stm(depth - 1);
        }
        if self.pct(self.p.cells / 2) {
            // alias an existing cell, or put cells into a container
            let cells = self.vars_where(|t| matches!(t, Ty::Mut(_)));
            if !cells.is_empty() {
                let (c, ct) = self.rng.pick(&cells).clone();
                let n = self.name();
                let (e, t) = match self.rng.below(7) {
                    0 => (E::Var(c), ct),
                    1 => (E::Arr(vec![E::Var(c.clone()), E::Var(c)]), Ty::arr(ct)),
                    2 => (E::Tup(vec![E::Var(c), E::Int(self.small_int())]), Ty::Tup(vec![ct, Ty::Int])),
                    3 => {
                        // every element of `[c; n]` is the cell itself
                        self.tag("stm:alias-cell-repeat");
                        (E::Rep(Box::new(E::Var(c)), Box::new(E::Int(self.rng.range(1, 3)))), Ty::arr(ct))
                    }
                    4 => {
                        self.tag("stm:alias-cell-nested");
                        (E::Arr(vec![E::Arr(vec![E::Var(c.clone())]), E::Rep(Box::new(E::Var(c)), Box::new(E::Int(2)))]), Ty::arr(Ty::arr(ct)))
                    }
                    5 => {
                        self.tag("stm:alias-cell-tuple-repeat");
                        (E::Rep(Box::new(E::Tup(vec![E::Var(c), E::Int(self.small_int())])), Box::new(E::Int(2))), Ty::arr(Ty::Tup(vec![ct, Ty::Int])))
                    }
                    _ => {
                        let mut f = BTreeMap::new();
                        f.insert("a".to_string(), ct);
                        (E::Struct(vec![("a".to_string(), E::Var(c))]), Ty::Struct(f))
                    }
                };
                self.tag("stm:alias-cell");
                self.declare(&n, t);
                return S::Let(n, Box::new(S::Expr(e)));
            }
        }
        let t = self.decl_type();
        let n = self.name();
        self.never_ok = true;
        let (e, et) = self.expr(&t, depth);
        self.never_ok = false;
        self.declare(&n, et);
        S::Let(n, Box::new(S::Expr(e)))
    }

    /// `m := mod { ... }`: a struct of exactly the module's own top-level names
    fn module_stm(&mut self, depth: u32) -> S {
        let n = self.name();
        self.push();
        let mut body = Vec::new();
        let k = 1 + self.rng.below(3);
        for _ in 0..k {
            let s = if self.pct(25) { self.fn_decl(depth) } else { self.let_stm(depth.min(1)) };
            body.push(s);
        }
        // the module's own names, in declaration order (later declarations win)
        let own: Vec<(String, Ty)> = self.scopes.last().unwrap().clone();
        self.pop();
        let mut fields = BTreeMap::new();
        for (name, t) in own {
            fields.insert(name, t);
        }
        self.tag("stm:module");
        self.declare(&n, Ty::Struct(fields));
        S::Let(n, Box::new(S::Expr(E::Mod(body))))
    }

    /// a statement producing a value of (a subtype of) `goal`, usable as `x := <stm>` or a function's tail
    fn value_stm(&mut self, goal: &Ty, depth: u32) -> (S, Ty) {
        let d = depth.saturating_sub(1);
        match self.rng.below(if depth == 0 { 1 } else { 5 }) {
            0 => {
                let (e, t) = self.expr(goal, depth);
                (S::Expr(e), t)
            }
            1 => {
                let (c, _) = self.expr(&Ty::Bool, d);
                let (a, ta) = self.value_block(goal, d);
                let (b, tb) = self.value_block(goal, d);
                self.tag("stm:if-value");
                (S::If(c, Box::new(a), Some(Box::new(b))), Ty::union([ta, tb]))
            }
            2 => {
                let (b, t) = self.value_block(goal, d);
                (b, t)
            }
            3 => {
                // match on an int (or on an int|string value) with value arms; candidates of a union-typed scrutinee may be
                // of either member type, whatever the scrutinee holds
                let union_scr = self.p.type_tests && self.pct(30);
                let (scr, _) = if union_scr { self.union_scrutinee(d) } else { self.expr(&Ty::Int, d) };
                if union_scr {
                    self.tag("stm:match-value-on-union");
                }
                let mut arms = Vec::new();
                let mut tys = Vec::new();
                for _ in 0..self.rng.below(3) {
                    let cands = (0..1 + self.rng.below(2))
                        .map(|_| {
                            let t = if union_scr && self.rng.chance(1, 2) { Ty::Str } else { Ty::Int };
                            self.expr(&t, d.min(1)).0
                        })
                        .collect();
                    let (b, t) = self.value_block(goal, d);
                    arms.push(Arm::Value(cands, Box::new(b)));
                    tys.push(t);
                }
                let (b, t) = self.value_block(goal, d);
                // the default arm usually comes last; anywhere else it makes the arms after it unreachable
                let at = if !arms.is_empty() && self.pct(20) { self.rng.below(arms.len()) } else { arms.len() };
                if at < arms.len() {
                    self.tag("stm:match-default-not-last");
                }
                arms.insert(at, Arm::Other(Box::new(b)));
                tys.push(t);
                self.tag("stm:match-value");
                (S::Match(scr, arms), Ty::union(tys))
            }
            _ => {
                if !self.p.type_tests {
                    let (e, t) = self.expr(goal, depth);
                    return (S::Expr(e), t);
                }
                // match on a union-typed scrutinee with type arms
                let (scr, _) = self.union_scrutinee(d);
                let mut arms = Vec::new();
                let mut tys = Vec::new();
                let order = self.rng.chance(1, 2);
                let members = if order { [Ty::Int, Ty::Str] } else { [Ty::Str, Ty::Int] };
                for m in members {
                    let n = self.name();
                    self.push();
                    self.declare(&n, m.clone());
                    let (b, t) = self.value_block(goal, d);
                    self.pop();
                    arms.push(Arm::Type(n, m, Box::new(b)));
                    tys.push(t);
                }
                if self.pct(20) {
                    // a default arm among the type arms (first, between or last)
                    let (b, t) = self.value_block(goal, d);
                    let at = self.rng.below(arms.len() + 1);
                    arms.insert(at, Arm::Other(Box::new(b)));
                    tys.push(t);
                    self.tag("stm:match-default-among-type-arms");
                }
                self.tag("stm:match-type");
                (S::Match(scr, arms), Ty::union(tys))
            }
        }
    }

    /// a scrutinee for a run-time type test together with the types worth testing it against: the scalar union
    /// int|string, or a structured value whose run-time type is narrower than its static type
    fn typed_scrutinee(&mut self, d: u32) -> (E, Vec<Ty>) {
        let u = Ty::union([Ty::Int, Ty::Str]);
        if !self.pct(self.p.unions * 2) {
            let (e, _) = self.union_scrutinee(d);
            return (e, vec![Ty::Int, Ty::Str, u, Ty::Any, Ty::Float]);
        }
        let d = d.min(1);
        let mut elem = |g: &mut Self| -> E {
            match g.rng.below(4) {
                0 => g.expr(&Ty::Int, d).0,
                1 => g.expr(&Ty::Str, d).0,
                _ => {
                    let (a, _) = g.expr(&Ty::Int, 0);
                    let (b, _) = g.expr(&Ty::Str, 0);
                    E::Index(Box::new(E::Arr(vec![a, b])), Box::new(E::Int(g.rng.range(0, 1))))
                }
            }
        };
        match self.rng.below(4) {
            3 => {
                // a struct behind a union (`[s, ()][k]`): tested against narrower, equal, other and unrelated struct types
                let a = self.expr(&Ty::Int, 0).0;
                let b = self.expr(&Ty::Str, 0).0;
                let st = E::Struct(vec![("a".to_string(), a), ("b".to_string(), b)]);
                let k = self.rng.range(0, 1);
                let scr = E::Index(Box::new(E::Arr(vec![st, E::Void])), Box::new(E::Int(k)));
                let mk = |fields: &[(&str, Ty)]| {
                    let mut m = BTreeMap::new();
                    for (n, t) in fields {
                        m.insert(n.to_string(), t.clone());
                    }
                    Ty::Struct(m)
                };
                self.tag("type-test:struct-behind-union");
                (
                    scr,
                    vec![
                        mk(&[("a", Ty::Int)]),
                        mk(&[("a", Ty::Int), ("b", Ty::Str)]),
                        mk(&[("b", Ty::Str)]),
                        mk(&[("a", Ty::Str)]),
                        mk(&[]),
                        mk(&[("a", Ty::Int), ("c", Ty::Int)]),
                        mk(&[("a", u.clone())]),
                        Ty::Void,
                        Ty::Any,
                        Ty::union([mk(&[("a", Ty::Int)]), Ty::Int]),
                    ],
                )
            }
            0 => {
                let n = 1 + self.rng.below(3);
                let es: Vec<E> = (0..n).map(|_| elem(self)).collect();
                self.tag("type-test:array-of-union");
                (E::Arr(es), vec![Ty::arr(Ty::Int), Ty::arr(Ty::Str), Ty::arr(u.clone()), Ty::arr(Ty::Any), Ty::Any, Ty::arr(Ty::Float)])
            }
            1 => {
                let a = elem(self);
                let b = elem(self);
                self.tag("type-test:tuple-of-union");
                (
                    E::Tup(vec![a, b]),
                    vec![
                        Ty::Tup(vec![Ty::Int, Ty::Int]),
                        Ty::Tup(vec![Ty::Int, Ty::Str]),
                        Ty::Tup(vec![Ty::Str, u.clone()]),
                        Ty::Tup(vec![u.clone(), u.clone()]),
                        Ty::Tup(vec![Ty::Any, Ty::Int]),
                        Ty::Any,
                    ],
                )
            }
            _ => {
                let cells = self.vars_where(|t| matches!(t, Ty::Mut(_)));
                if cells.is_empty() {
                    let (e, _) = self.union_scrutinee(d);
                    return (e, vec![Ty::Int, Ty::Str, u, Ty::Any, Ty::Float]);
                }
                let (n, _) = self.rng.pick(&cells).clone();
                self.tag("type-test:cell");
                (E::Var(n), vec![Ty::mutc(Ty::Int), Ty::mutc(u.clone()), Ty::mutc(Ty::Str), Ty::mutc(Ty::arr(Ty::Int)), Ty::mutc(Ty::Any), Ty::Any])
            }
        }
    }

    /// an expression of static type int|string whose runtime tag is unambiguous
    fn union_scrutinee(&mut self, d: u32) -> (E, Ty) {
        let u = Ty::union([Ty::Int, Ty::Str]);
        let vs = self.vars_where(|t| *t == u);
        if !vs.is_empty() && self.pct(50) {
            let (n, t) = self.rng.pick(&vs).clone();
            return (E::Var(n), t);
        }
        let cells = self.vars_where(|t| *t == Ty::mutc(u.clone()));
        if !cells.is_empty() && self.pct(50) {
            let (n, _) = self.rng.pick(&cells).clone();
            return (E::Un("*", Box::new(E::Var(n))), u);
        }
        // index into a mixed literal array
        let (a, _) = self.expr(&Ty::Int, d.min(1));
        let (b, _) = self.expr(&Ty::Str, d.min(1));
        let idx = E::Int(self.rng.range(0, 1));
        (E::Index(Box::new(E::Arr(vec![a, b])), Box::new(idx)), u)
    }

    fn value_block(&mut self, goal: &Ty, depth: u32) -> (S, Ty) {
        self.push();
        let mut body = Vec::new();
        for _ in 0..self.rng.below(3) {
            if depth > 0 {
                self.stm_into(&mut body, depth - 1);
            }
        }
        let (e, t) = self.expr(goal, depth);
        body.push(S::Expr(e));
        self.pop();
        (S::Block(body), t)
    }

    fn counter_name(&mut self) -> String {
        let n = self.name();
        let k = format!("{n}k");
        if !self.counters.contains(&k) {
            self.counters.push(k.clone());
        }
        k
    }

    /// a visible cell that generated code may assign to
    fn assignable_cell(&mut self, goal: Option<&Ty>) -> Option<(String, Ty)> {
        let counters = self.counters.clone();
        let cells: Vec<(String, Ty)> = self
            .vars_where(|t| matches!(t, Ty::Mut(_)))
            .into_iter()
            .filter(|(n, t)| !counters.contains(n) && goal.is_none_or(|g| t == g))
            .collect();
        if cells.is_empty() {
            return None;
        }
        Some(self.rng.pick(&cells).clone())
    }

    /// an expression denoting a cell that sits inside a container variable (`v[0]`, `v.0`, `v.a`, `v[1][0]`, `v[0].0`):
    /// writes and reads through it must reach the cell the container was built from
    fn cell_in_container(&mut self) -> Option<(E, Ty)> {
        fn path(e: E, t: &Ty, depth: u32) -> Option<(E, Ty)> {
            match t {
                Ty::Mut(inner) => Some((e, (**inner).clone())),
                Ty::Arr(el) if depth < 3 => path(E::Index(Box::new(e), Box::new(E::Int(0))), el, depth + 1),
                Ty::Tup(ts) if depth < 3 => ts.iter().position(|t| matches!(t, Ty::Mut(_))).and_then(|i| path(E::TupAcc(Box::new(e), i), &ts[i], depth + 1)),
                Ty::Struct(fs) if depth < 3 => fs.iter().find(|(_, t)| matches!(t, Ty::Mut(_))).and_then(|(n, t)| path(E::Field(Box::new(e), n.clone()), t, depth + 1)),
                _ => None,
            }
        }
        let counters = self.counters.clone();
        let vars: Vec<(String, Ty)> = self.vars_where(|t| matches!(t, Ty::Arr(_) | Ty::Tup(_) | Ty::Struct(_))).into_iter().filter(|(n, _)| !counters.contains(n)).collect();
        let cands: Vec<(E, Ty)> = vars.into_iter().filter_map(|(n, t)| path(E::Var(n), &t, 0)).filter(|(_, t)| matches!(t, Ty::Int | Ty::Str | Ty::Bool)).collect();
        if cands.is_empty() {
            return None;
        }
        Some(self.rng.pick(&cands).clone())
    }

    /// statements of a loop body (may break / continue)
    fn loop_body(&mut self, depth: u32) -> Vec<S> {
        let mut body = Vec::new();
        self.in_loop += 1;
        for _ in 0..1 + self.rng.below(3) {
            if self.pct(18) {
                let (c, _) = self.expr(&Ty::Bool, depth.min(1));
                let exit = if self.pct(50) { S::Break } else { S::Continue };
                self.tag(if exit == S::Break { "ctrl:break" } else { "ctrl:continue" });
                // where the exit stands: then-branch, else-branch, a nested block, a match arm
                let st = match self.rng.below(8) {
                    0 => {
                        self.tag("ctrl:exit-in-else");
                        let mut other = Vec::new();
                        self.push();
                        self.stm_into(&mut other, depth.min(1));
                        self.pop();
                        S::If(c, Box::new(S::Block(other)), Some(Box::new(S::Block(vec![exit]))))
                    }
                    1 => {
                        self.tag("ctrl:exit-in-then-with-else");
                        let mut other = Vec::new();
                        self.push();
                        self.stm_into(&mut other, depth.min(1));
                        self.pop();
                        S::If(c, Box::new(S::Block(vec![exit])), Some(Box::new(S::Block(other))))
                    }
                    2 => {
                        self.tag("ctrl:exit-in-nested-block");
                        S::Block(vec![S::If(c, Box::new(S::Block(vec![S::Block(vec![exit])])), None)])
                    }
                    3 => {
                        self.tag("ctrl:exit-in-match-arm");
                        S::Match(c, vec![Arm::Value(vec![E::Bool(true)], Box::new(S::Block(vec![exit]))), Arm::Other(Box::new(S::Block(vec![])))])
                    }
                    _ => S::If(c, Box::new(S::Block(vec![exit])), None),
                };
                body.push(st);
            } else {
                self.stm_into(&mut body, depth);
            }
        }
        self.in_loop -= 1;
        body
    }

    pub fn stm(&mut self, depth: u32) -> S {
        self.budget -= 1;
        if self.budget < 0 {
            return S::Expr(E::Int(0));
        }
        let mut w = self.p.w;
        if depth == 0 {
            for k in [1, 3, 4, 5, 6, 7, 8, 10] {
                w[k] = 0;
            }
        }
        if !self.p.type_tests {
            w[4] = 0;
        }
        let d = depth.saturating_sub(1);
        match self.rng.weighted(&w) {
            0 => self.let_stm(depth),
            1 => self.fn_decl(depth),
            2 => self.effect_stm(depth),
            3 => {
                let (c, _) = self.expr(&Ty::Bool, d);
                self.push();
                let t = { let n = 1 + self.rng.below(2); self.block(n, d) };
                self.pop();
                let e = if self.pct(50) {
                    self.push();
                    let b = { let n = 1 + self.rng.below(2); self.block(n, d) };
                    self.pop();
                    Some(Box::new(S::Block(b)))
                } else {
                    None
                };
                self.tag("stm:if");
                S::If(c, Box::new(S::Block(t)), e)
            }
            4 => {
                let (scr, tests) = self.typed_scrutinee(d);
                let n = self.name();
                let ty = self.rng.pick(&tests).clone();
                self.push();
                self.declare(&n, ty.clone());
                let t = { let n = 1 + self.rng.below(2); self.block(n, d) };
                self.pop();
                let e = if self.pct(60) {
                    self.push();
                    let b = self.block(1, d);
                    self.pop();
                    Some(Box::new(S::Block(b)))
                } else {
                    None
                };
                self.tag("stm:if-set");
                S::IfSet(n, ty, scr, Box::new(S::Block(t)), e)
            }
            5 => {
                let (s, _) = self.value_stm(&Ty::Any, depth.min(2));
                s
            }
            6 if self.p.type_tests && self.pct(12) => {
                // a while-set / if-set whose test can never succeed: the tested expression is still evaluated once
                let (st, tt) = self.rng.pick(&[(Ty::Int, Ty::Str), (Ty::Str, Ty::Int), (Ty::Bool, Ty::Float), (Ty::Int, Ty::arr(Ty::Int)), (Ty::Float, Ty::Int), (Ty::Str, Ty::Bool)]).clone();
                let (e, et) = self.expr(&st, d.min(1));
                let e = if et == st { e } else { Self::plain_literal(&st).unwrap_or(E::Int(1)) };
                let id = self.fresh_tick();
                let e = match scalar_kind(&st) {
                    Some(k) => E::Tick(id, k, Box::new(e)),
                    None => e,
                };
                let v = self.name();
                self.push();
                self.declare(&v, tt.clone());
                self.in_loop += 1;
                let body = self.block(1, d.min(1));
                self.in_loop -= 1;
                self.pop();
                self.tag("stm:while-set-never-matching");
                if self.rng.chance(1, 2) {
                    S::WhileSet(v, tt, e, Box::new(S::Block(body)))
                } else {
                    S::IfSet(v, tt, e, Box::new(S::Block(body)), None)
                }
            }
            6 if self.p.type_tests && self.pct(30) => {
                // while-set over a union-typed cell that the body turns into a string: the loop is emitted bare (no
                // wrapping block), its cell is declared beside it in the same statement list
                let u = Ty::union([Ty::Int, Ty::Str]);
                let k = self.counter_name();
                let v = self.name();
                let start = self.rng.range(0, 3);
                self.declare(&k, Ty::mutc(u.clone()));
                self.pending.push(S::Let(k.clone(), Box::new(S::Expr(E::Mut(Some(u.clone()), Box::new(E::Int(start)))))));
                self.push();
                self.declare(&v, Ty::Int);
                let step = S::If(
                    E::Bin("<=", Box::new(E::Var(v.clone())), Box::new(E::Int(0))),
                    Box::new(S::Block(vec![S::Expr(E::Bin("=", Box::new(E::Var(k.clone())), Box::new(E::Str("done".into()))))])),
                    Some(Box::new(S::Block(vec![S::Expr(E::Bin(
                        "=",
                        Box::new(E::Var(k.clone())),
                        Box::new(E::Bin("-", Box::new(E::Var(v.clone())), Box::new(E::Int(1)))),
                    ))]))),
                );
                let mut body = vec![step];
                body.extend(self.loop_body(d));
                self.pop();
                self.tag("stm:while-set");
                S::WhileSet(v, Ty::Int, E::Un("*", Box::new(E::Var(k))), Box::new(S::Block(body)))
            }
            6 => {
                // bounded while loop, emitted bare; its counter is declared beside it
                let k = self.counter_name();
                let limit = self.rng.range(0, 4);
                self.declare(&k, Ty::mutc(Ty::Int));
                self.pending.push(S::Let(k.clone(), Box::new(S::Expr(E::MutInf(Ty::Int, Box::new(E::Int(0)))))));
                self.push();
                let mut body = vec![S::Expr(E::Bin("+=", Box::new(E::Var(k.clone())), Box::new(E::Int(1))))];
                body.extend(self.loop_body(d));
                self.pop();
                self.tag("stm:while");
                let cond = E::Bin("<", Box::new(E::Un("*", Box::new(E::Var(k)))), Box::new(E::Int(limit)));
                S::While(cond, Box::new(S::Block(body)))
            }
            7 => {
                let et = self.rng.pick(&[Ty::Int, Ty::Int, Ty::Str, Ty::Bool]).clone();
                let (it, t) = self.iter_expr(&et, d.min(2));
                let n = self.name();
                self.push();
                self.declare(&n, t);
                let body = self.loop_body(d);
                self.pop();
                self.tag("stm:for");
                S::For(n, it, Box::new(S::Block(body)))
            }
            8 => {
                let k = self.counter_name();
                let limit = self.rng.range(1, 4);
                self.declare(&k, Ty::mutc(Ty::Int));
                self.pending.push(S::Let(k.clone(), Box::new(S::Expr(E::MutInf(Ty::Int, Box::new(E::Int(0)))))));
                self.push();
                let mut body = vec![
                    S::Expr(E::Bin("+=", Box::new(E::Var(k.clone())), Box::new(E::Int(1)))),
                    S::If(E::Bin(">=", Box::new(E::Un("*", Box::new(E::Var(k)))), Box::new(E::Int(limit))), Box::new(S::Block(vec![S::Break])), None),
                ];
                body.extend(self.loop_body(d));
                if self.pct(35) {
                    // the "breakable block" idiom: the body ends in an unconditional break (exits taken earlier in the
                    // body still belong to this loop; a `continue` starts the next pass, bounded by the counter)
                    self.tag("stm:loop-ending-in-break");
                    body.push(S::Break);
                }
                self.pop();
                self.tag("stm:loop");
                S::Loop(Box::new(S::Block(body)))
            }
            9 => {
                let (n1, n2) = (self.name(), self.name());
                let n2 = if n1 == n2 { format!("{n2}2") } else { n2 };
                let (t1, t2) = (self.decl_type(), self.decl_type());
                let (e, et) = self.expr(&Ty::Tup(vec![t1, t2]), depth);
                if let Ty::Tup(ts) = et {
                    self.declare(&n1, ts[0].clone());
                    self.declare(&n2, ts[1].clone());
                }
                self.tag("stm:destruct");
                S::Destruct(vec![n1, n2], Box::new(S::Expr(e)))
            }
            10 => {
                self.push();
                let b = { let n = 1 + self.rng.below(3); self.block(n, d) };
                self.pop();
                self.tag("stm:block");
                S::Block(b)
            }
            _ => {
                let t = self.decl_type();
                let n = self.name();
                let (s, st) = self.value_stm(&t, depth.min(2));
                self.declare(&n, st);
                self.tag("stm:let-stm");
                S::Let(n, Box::new(s))
            }
        }
    }

    fn effect_stm(&mut self, depth: u32) -> S {
        // assignment to a visible cell, or a bare effectful expression
        if self.pct(25) {
            if let Some((target, inner)) = self.cell_in_container() {
                let (op, rhs) = match inner {
                    Ty::Int => (*self.rng.pick(&["=", "+=", "*=", "^="]), self.expr(&Ty::Int, depth.min(1)).0),
                    other => ("=", self.expr(&other, depth.min(1)).0),
                };
                self.tag("assign:through-container");
                return S::Expr(E::Bin(op, Box::new(target), Box::new(rhs)));
            }
        }
        let cell = self.assignable_cell(None);
        if cell.is_some() && self.pct(70) {
            let (n, t) = cell.unwrap();
            let Ty::Mut(inner) = t else { unreachable!() };
            let (op, rhs): (&'static str, E) = match &*inner {
                Ty::Int => {
                    let op = *self.rng.pick(&["=", "+=", "-=", "*=", "/=", "%=", "**=", "<<=", ">>=", "&=", "|=", "^="]);
                    let rhs = if matches!(op, "/=" | "%=" | "**=" | "<<=" | ">>=") && !self.pct(self.p.err) {
                        E::Int(self.rng.range(1, 3))
                    } else {
                        self.expr(&Ty::Int, depth.min(2)).0
                    };
                    (op, rhs)
                }
                Ty::Arr(e) => {
                    let op = *self.rng.pick(&["=", "+="]);
                    (op, self.expr(&Ty::arr((**e).clone()), depth.min(2)).0)
                }
                other => ("=", self.expr(other, depth.min(2)).0),
            };
            self.tag(&format!("assign:{op}"));
            return S::Expr(E::Bin(op, Box::new(E::Var(n)), Box::new(rhs)));
        }
        let t = self.rng.pick(&[Ty::Int, Ty::Bool, Ty::Str]).clone();
        let (e, ty) = self.expr(&t, depth.min(2));
        let id = self.fresh_tick();
        S::Expr(E::Tick(id, scalar_kind(&ty).unwrap_or('n'), Box::new(e)))
    }

    fn fn_decl(&mut self, depth: u32) -> S {
        let fname = (*self.rng.pick(&["f", "g", "h", "f", "res", "iter"])).to_string();
        let np = self.rng.below(3);
        let mut params: Vec<(String, Ty)> = Vec::new();
        for _ in 0..np {
            let mut n = self.name();
            while params.iter().any(|(m, _)| *m == n) {
                n.push('_');
            }
            let t = match self.rng.below(6) {
                0 => Ty::Str,
                1 => self.decl_type(),
                _ => Ty::Int,
            };
            params.push((n, t));
        }
        let ret = match self.rng.below(8) {
            0 => Ty::Str,
            1 => Ty::Void,
            2 => self.decl_type(),
            3 => Ty::union([Ty::Int, Ty::Str]),
            _ => Ty::Int,
        };
        let fty = Ty::fun(params.iter().map(|(_, t)| t.clone()).collect(), ret.clone());
        // the function's own name is visible in its body
        self.declare(&fname, fty.clone());
        self.defining.push(fname.clone());
        self.push();
        for (n, t) in &params {
            self.declare(n, t.clone());
        }
        self.fn_ret.push(ret.clone());
        let saved_loop = std::mem::replace(&mut self.in_loop, 0);
        let mut body = Vec::new();
        // optional bounded recursion through the first int parameter
        let rec_param = params.iter().find(|(_, t)| *t == Ty::Int).map(|(n, _)| n.clone());
        // no recursion through a name that a parameter shadows (`res := (res: int) -> int {..}`: `res` is the parameter)
        let recursive = rec_param.is_some() && ret == Ty::Int && !params.iter().any(|(n, _)| *n == fname) && self.pct(30);
        if recursive {
            let (base, _) = self.expr(&Ty::Int, 1);
            body.push(S::If(
                E::Bin("<=", Box::new(E::Var(rec_param.clone().unwrap())), Box::new(E::Int(0))),
                Box::new(S::Block(vec![S::Return(Some(Box::new(S::Expr(base))))])),
                None,
            ));
            self.tag("fn:recursive");
        }
        for _ in 0..self.rng.below(3) {
            self.stm_into(&mut body, depth.saturating_sub(1));
        }
        // early return
        if ret != Ty::Void && self.pct(30) {
            let (c, _) = self.expr(&Ty::Bool, 1);
            let (e, _) = self.expr(&ret, 1);
            body.push(S::If(c, Box::new(S::Block(vec![S::Return(Some(Box::new(S::Expr(e))))])), None));
            self.tag("ctrl:early-return");
        }
        // body statements may have re-declared the function's name or the counting parameter
        let lookup = |g: &Self, n: &str| g.visible().into_iter().find(|(m, _)| m == n).map(|(_, t)| t);
        let still_recursive = recursive && lookup(self, &fname) == Some(fty.clone()) && rec_param.as_ref().is_some_and(|p| lookup(self, p) == Some(Ty::Int));
        if recursive && !still_recursive {
            let (e, _) = self.expr(&Ty::Int, 1);
            body.push(S::Return(Some(Box::new(S::Expr(e)))));
        } else if recursive {
            let p = rec_param.unwrap();
            let args: Vec<E> = params
                .iter()
                .map(|(n, t)| {
                    if *n == p {
                        E::Bin("-", Box::new(E::Var(n.clone())), Box::new(E::Int(1 + self.rng.range(0, 1))))
                    } else {
                        self.expr(t, 0).0
                    }
                })
                .collect();
            let call = E::Call(Box::new(E::Var(fname.clone())), args);
            let (other, _) = self.expr(&Ty::Int, 1);
            let op = *self.rng.pick(&["+", "*", "-"]);
            body.push(S::Return(Some(Box::new(S::Expr(E::Bin(op, Box::new(call), Box::new(other)))))));
        } else if ret == Ty::Void {
            if self.pct(30) {
                body.push(S::Return(None));
            }
        } else {
            if self.pct(22) {
                // the function's way out stands at the end of a loop body: `loop { ..exits..; return e }; return e2`
                // (a `break` leaves the loop and reaches the final return, a `continue` starts the next pass, bounded by the counter)
                let k = self.counter_name();
                let limit = self.rng.range(1, 3);
                self.declare(&k, Ty::mutc(Ty::Int));
                body.push(S::Let(k.clone(), Box::new(S::Expr(E::MutInf(Ty::Int, Box::new(E::Int(0)))))));
                self.push();
                let mut lb = vec![
                    S::Expr(E::Bin("+=", Box::new(E::Var(k.clone())), Box::new(E::Int(1)))),
                    S::If(E::Bin(">=", Box::new(E::Un("*", Box::new(E::Var(k)))), Box::new(E::Int(limit))), Box::new(S::Block(vec![S::Break])), None),
                ];
                lb.extend(self.loop_body(depth.min(2)));
                let (e, _) = self.expr(&ret, 1);
                lb.push(S::Return(Some(Box::new(S::Expr(e)))));
                self.pop();
                self.tag("stm:loop-ending-in-return");
                let as_while = self.pct(30);
                body.push(if as_while { S::While(E::Bool(true), Box::new(S::Block(lb))) } else { S::Loop(Box::new(S::Block(lb))) });
            }
            let (s, _) = self.value_stm(&ret, depth.min(2));
            body.push(S::Return(Some(Box::new(s))));
        }
        self.in_loop = saved_loop;
        self.fn_ret.pop();
        self.pop();
        self.defining.pop();
        self.tag("stm:fn-decl");
        S::FnDecl(fname, params, ret, body)
    }

    /// generate one statement into `out`, preceded by whatever it needs declared beside it (loop counters)
    pub fn stm_into(&mut self, out: &mut Vec<S>, depth: u32) {
        let saved = std::mem::take(&mut self.pending);
        let s = self.stm(depth);
        out.append(&mut self.pending);
        out.push(s);
        self.pending = saved;
    }

    pub fn block(&mut self, n: usize, depth: u32) -> Vec<S> {
        let mut out = Vec::new();
        for _ in 0..n {
            self.stm_into(&mut out, depth);
        }
        out
    }

    /// a whole program: statements, then a final expression collecting visible first-order variables
    pub fn program(&mut self) -> Vec<S> {
        let n = self.p.min_stmts + self.rng.below(self.p.max_stmts - self.p.min_stmts + 1);
        let mut body = Vec::new();
        for _ in 0..n {
            let d = self.p.max_depth;
            self.stm_into(&mut body, d);
        }
        body.push(S::Expr(self.final_expr()));
        body
    }

    /// tuple of (up to 6) visible variables and cell reads: makes the final state observable
    pub fn final_expr(&mut self) -> E {
        let vis: Vec<(String, Ty)> = self.scopes[0].clone();
        let mut seen = BTreeSet::new();
        let mut items = Vec::new();
        for (n, t) in vis.iter().rev() {
            if !seen.insert(n.clone()) || items.len() >= 6 {
                continue;
            }
            items.push(E::Var(n.clone()));
            let _ = t;
        }
        match items.len() {
            0 => E::Int(0),
            1 => E::Tup(vec![items.pop().unwrap(), E::Int(0)]),
            _ => E::Tup(items),
        }
    }
}
