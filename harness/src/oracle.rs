//! Independent type / value oracles: the harness's own type representation, the documented subtype
//! relation, value-in-type membership judged on actual contents, canonical forms, value generation.
use crate::util::Rng;
use simplesl::variable::{Array, FunctionType, Mut, StructType, Type, Typed, Variable};
use std::collections::{BTreeMap, BTreeSet, HashMap};
use std::str::FromStr;
use std::sync::{Arc, RwLock};

#[derive(Clone, PartialEq, Eq, Hash, PartialOrd, Ord, Debug)]
pub enum Ty {
    Bool,
    Int,
    Float,
    Str,
    Void,
    Any,
    Never,
    Arr(Box<Ty>),
    Tup(Vec<Ty>),
    Fun(Vec<Ty>, Box<Ty>),
    Mut(Box<Ty>),
    Struct(BTreeMap<String, Ty>),
    /// normalised: >= 2 members, none of them Union / Any / Never, sorted, no duplicates
    Union(BTreeSet<Ty>),
}

impl Ty {
    /// the documented union: flatten, `any` absorbs, `!` is the identity, duplicates collapse
    pub fn union<I: IntoIterator<Item = Ty>>(members: I) -> Ty {
        let mut set = BTreeSet::new();
        for m in members {
            match m {
                Ty::Any => return Ty::Any,
                Ty::Never => {}
                Ty::Union(inner) => set.extend(inner),
                other => {
                    set.insert(other);
                }
            }
        }
        match set.len() {
            0 => Ty::Never,
            1 => set.into_iter().next().unwrap(),
            _ => Ty::Union(set),
        }
    }
    pub fn arr(e: Ty) -> Ty {
        Ty::Arr(Box::new(e))
    }
    pub fn fun(p: Vec<Ty>, r: Ty) -> Ty {
        Ty::Fun(p, Box::new(r))
    }
    pub fn mutc(e: Ty) -> Ty {
        Ty::Mut(Box::new(e))
    }
    pub fn iter_of(e: Ty) -> Ty {
        Ty::fun(vec![], Ty::Tup(vec![Ty::Bool, e]))
    }
    pub fn members(&self) -> Vec<&Ty> {
        match self {
            Ty::Union(s) => s.iter().collect(),
            other => vec![other],
        }
    }
    pub fn is_union(&self) -> bool {
        matches!(self, Ty::Union(_))
    }
    /// does `!` occur anywhere inside the type?
    pub fn contains_never(&self) -> bool {
        match self {
            Ty::Never => true,
            Ty::Arr(e) | Ty::Mut(e) => e.contains_never(),
            Ty::Tup(ts) => ts.iter().any(Ty::contains_never),
            Ty::Fun(ps, r) => ps.iter().any(Ty::contains_never) || r.contains_never(),
            Ty::Struct(fs) => fs.values().any(Ty::contains_never),
            Ty::Union(ms) => ms.iter().any(Ty::contains_never),
            _ => false,
        }
    }
    pub fn depth(&self) -> usize {
        match self {
            Ty::Arr(e) | Ty::Mut(e) => 1 + e.depth(),
            Ty::Tup(ts) => 1 + ts.iter().map(Ty::depth).max().unwrap_or(0),
            Ty::Fun(ps, r) => 1 + ps.iter().map(Ty::depth).max().unwrap_or(0).max(r.depth()),
            Ty::Struct(fs) => 1 + fs.values().map(Ty::depth).max().unwrap_or(0),
            Ty::Union(ms) => ms.iter().map(Ty::depth).max().unwrap_or(0),
            _ => 0,
        }
    }

    /// text in SimpleSL type syntax; `order` permutes union members / struct fields (0 = sorted)
    pub fn text(&self) -> String {
        self.text_ord(0)
    }
    pub fn text_ord(&self, order: u64) -> String {
        fn paren_if_union(t: &Ty, order: u64) -> String {
            if t.is_union() {
                format!("({})", t.text_ord(order))
            } else {
                t.text_ord(order)
            }
        }
        fn permute<T>(mut v: Vec<T>, order: u64) -> Vec<T> {
            if order != 0 && v.len() > 1 {
                let mut rng = Rng::new(order.wrapping_add(v.len() as u64));
                rng.shuffle(&mut v);
            }
            v
        }
        match self {
            Ty::Bool => "bool".into(),
            Ty::Int => "int".into(),
            Ty::Float => "float".into(),
            Ty::Str => "string".into(),
            Ty::Void => "()".into(),
            Ty::Any => "any".into(),
            Ty::Never => "!".into(),
            Ty::Arr(e) => {
                if **e == Ty::Never {
                    "[]".into()
                } else {
                    format!("[{}]", e.text_ord(order))
                }
            }
            Ty::Tup(ts) => format!(
                "({})",
                ts.iter().map(|t| t.text_ord(order)).collect::<Vec<_>>().join(", ")
            ),
            Ty::Fun(ps, r) => format!(
                "({})->{}",
                ps.iter().map(|t| t.text_ord(order)).collect::<Vec<_>>().join(", "),
                paren_if_union(r, order)
            ),
            Ty::Mut(e) => format!("mut {}", paren_if_union(e, order)),
            Ty::Struct(fs) => {
                let items: Vec<String> = fs
                    .iter()
                    .map(|(k, v)| format!("{k}: {}", v.text_ord(order)))
                    .collect();
                format!("struct{{{}}}", permute(items, order).join(", "))
            }
            Ty::Union(ms) => {
                let items: Vec<String> = ms.iter().map(|t| t.text_ord(order)).collect();
                permute(items, order).join("|")
            }
        }
    }

    /// conversion from the crate's own type (structure only; no crate logic involved)
    pub fn from_real(t: &Type) -> Ty {
        match t {
            Type::Bool => Ty::Bool,
            Type::Int => Ty::Int,
            Type::Float => Ty::Float,
            Type::String => Ty::Str,
            Type::Void => Ty::Void,
            Type::Any => Ty::Any,
            Type::Never => Ty::Never,
            Type::Array(e) => Ty::arr(Ty::from_real(e)),
            Type::Tuple(ts) => Ty::Tup(ts.iter().map(Ty::from_real).collect()),
            Type::Function(f) => Ty::fun(
                f.params.iter().map(Ty::from_real).collect(),
                Ty::from_real(&f.return_type),
            ),
            Type::Mut(e) => Ty::mutc(Ty::from_real(e)),
            Type::Struct(s) => Ty::Struct(
                s.0.iter()
                    .map(|(k, v)| (k.to_string(), Ty::from_real(v)))
                    .collect(),
            ),
            Type::Multi(m) => {
                // keep exactly the members the crate holds (no normalisation beyond ordering), so a
                // malformed union (nested union, any / ! inside, one member) stays visible
                let mut members: BTreeSet<Ty> = m.iter().map(Ty::from_real).collect();
                if members.len() != m.iter().count() {
                    // the crate's set holds two structurally equal members: keep that visible
                    let mut marker = BTreeMap::new();
                    marker.insert("<duplicate-union-member>".to_string(), Ty::Never);
                    members.insert(Ty::Struct(marker));
                }
                Ty::Union(members)
            }
        }
    }

    /// is this union value well formed (>= 2 members, no nested union / any / never)?
    pub fn well_formed(&self) -> bool {
        match self {
            Ty::Union(ms) => {
                ms.len() >= 2
                    && ms.iter().all(|m| {
                        !matches!(m, Ty::Union(_) | Ty::Any | Ty::Never) && m.well_formed()
                    })
            }
            Ty::Arr(e) | Ty::Mut(e) => e.well_formed(),
            Ty::Tup(ts) => ts.iter().all(Ty::well_formed),
            Ty::Fun(ps, r) => ps.iter().all(Ty::well_formed) && r.well_formed(),
            Ty::Struct(fs) => fs.values().all(Ty::well_formed),
            _ => true,
        }
    }

    /// build the crate's type through its public constructors (no parsing)
    pub fn to_real(&self) -> Type {
        match self {
            Ty::Bool => Type::Bool,
            Ty::Int => Type::Int,
            Ty::Float => Type::Float,
            Ty::Str => Type::String,
            Ty::Void => Type::Void,
            Ty::Any => Type::Any,
            Ty::Never => Type::Never,
            Ty::Arr(e) => Type::Array(Arc::new(e.to_real())),
            Ty::Tup(ts) => Type::Tuple(ts.iter().map(Ty::to_real).collect()),
            Ty::Fun(ps, r) => Type::Function(Arc::new(FunctionType {
                params: ps.iter().map(Ty::to_real).collect(),
                return_type: r.to_real(),
            })),
            Ty::Mut(e) => Type::Mut(Arc::new(e.to_real())),
            Ty::Struct(fs) => {
                let map: HashMap<Arc<str>, Type> = fs
                    .iter()
                    .map(|(k, v)| (Arc::from(k.as_str()), v.to_real()))
                    .collect();
                Type::Struct(StructType(Arc::new(map)))
            }
            Ty::Union(ms) => ms
                .iter()
                .map(Ty::to_real)
                .reduce(|a, b| a | b)
                .unwrap_or(Type::Never),
        }
    }

    /// build the crate's type by parsing the text (order = print order of members / fields)
    pub fn parse_real(&self, order: u64) -> Option<Type> {
        Type::from_str(&self.text_ord(order)).ok()
    }
}

/// the documented subtype relation, written from the property statement (not from `Type::matches`)
pub fn sub(a: &Ty, b: &Ty) -> bool {
    match (a, b) {
        (Ty::Never, _) => true,
        (_, Ty::Any) => true,
        (Ty::Union(ms), _) => ms.iter().all(|m| sub(m, b)),
        (_, Ty::Union(ms)) => ms.iter().any(|m| sub(a, m)),
        (Ty::Arr(x), Ty::Arr(y)) => sub(x, y),
        (Ty::Tup(xs), Ty::Tup(ys)) => xs.len() == ys.len() && xs.iter().zip(ys).all(|(x, y)| sub(x, y)),
        (Ty::Fun(p1, r1), Ty::Fun(p2, r2)) => {
            p1.len() == p2.len() && p1.iter().zip(p2).all(|(x, y)| sub(y, x)) && sub(r1, r2)
        }
        (Ty::Mut(x), Ty::Mut(y)) => sub(x, y) && sub(y, x),
        (Ty::Struct(f1), Ty::Struct(f2)) => f2.iter().all(|(k, t2)| f1.get(k).is_some_and(|t1| sub(t1, t2))),
        (x, y) => x == y,
    }
}

pub fn equiv(a: &Ty, b: &Ty) -> bool {
    sub(a, b) && sub(b, a)
}

/// Why a value does not belong to a type (None = it does).
pub fn inhabits_why(v: &Variable, t: &Ty) -> Option<String> {
    let mut visiting = Vec::new();
    inh(v, t, &mut visiting, 0)
}

pub fn inhabits(v: &Variable, t: &Ty) -> bool {
    inhabits_why(v, t).is_none()
}

fn kind_of(v: &Variable) -> &'static str {
    match v {
        Variable::Bool(_) => "bool",
        Variable::Int(_) => "int",
        Variable::Float(_) => "float",
        Variable::String(_) => "string",
        Variable::Function(_) => "function",
        Variable::Array(_) => "array",
        Variable::Tuple(_) => "tuple",
        Variable::Mut(_) => "mut",
        Variable::Struct(_) => "struct",
        Variable::Void => "()",
    }
}

fn inh(v: &Variable, t: &Ty, visiting: &mut Vec<(usize, Ty)>, depth: usize) -> Option<String> {
    if depth > 64 {
        return None; // deeper than any generated value: not judged
    }
    let mismatch = || Some(format!("{} value is not a {}", kind_of(v), t.text()));
    match t {
        Ty::Any => None,
        Ty::Never => Some(format!("{} value in uninhabited type !", kind_of(v))),
        Ty::Union(ms) => {
            let mut why = Vec::new();
            for m in ms {
                match inh(v, m, visiting, depth + 1) {
                    None => return None,
                    Some(w) => why.push(w),
                }
            }
            Some(format!("no member of {} admits it ({})", t.text(), why.join("; ")))
        }
        Ty::Bool => matches!(v, Variable::Bool(_)).then_some(()).map_or_else(mismatch, |_| None),
        Ty::Int => matches!(v, Variable::Int(_)).then_some(()).map_or_else(mismatch, |_| None),
        Ty::Float => matches!(v, Variable::Float(_)).then_some(()).map_or_else(mismatch, |_| None),
        Ty::Str => matches!(v, Variable::String(_)).then_some(()).map_or_else(mismatch, |_| None),
        Ty::Void => matches!(v, Variable::Void).then_some(()).map_or_else(mismatch, |_| None),
        Ty::Arr(e) => {
            let Variable::Array(a) = v else { return mismatch() };
            for (i, el) in a.iter().enumerate() {
                if let Some(w) = inh(el, e, visiting, depth + 1) {
                    return Some(format!("element {i}: {w}"));
                }
            }
            None
        }
        Ty::Tup(ts) => {
            let Variable::Tuple(els) = v else { return mismatch() };
            if els.len() != ts.len() {
                return Some(format!("tuple of {} elements is not a {}", els.len(), t.text()));
            }
            for (i, (el, et)) in els.iter().zip(ts).enumerate() {
                if let Some(w) = inh(el, et, visiting, depth + 1) {
                    return Some(format!("tuple element {i}: {w}"));
                }
            }
            None
        }
        Ty::Struct(fs) => {
            let Variable::Struct(vm) = v else { return mismatch() };
            for (k, ft) in fs {
                let Some(fv) = vm.get(k.as_str()) else {
                    return Some(format!("struct lacks field {k}"));
                };
                if let Some(w) = inh(fv, ft, visiting, depth + 1) {
                    return Some(format!("field {k}: {w}"));
                }
            }
            None
        }
        Ty::Fun(..) => {
            let Variable::Function(f) = v else { return mismatch() };
            let declared = Ty::from_real(&f.as_type());
            if sub(&declared, t) {
                None
            } else {
                Some(format!("function declared {} is not a {}", declared.text(), t.text()))
            }
        }
        Ty::Mut(e) => {
            let Variable::Mut(cell) = v else { return mismatch() };
            let declared = Ty::from_real(&cell.var_type);
            if !equiv(&declared, e) {
                return Some(format!("cell declared mut {} is not a {}", declared.text(), t.text()));
            }
            let key = (Arc::as_ptr(cell) as usize, (**e).clone());
            if visiting.contains(&key) {
                return None; // cyclic: already being judged against this type
            }
            visiting.push(key);
            let content = match cell.variable.try_read() {
                Ok(g) => g.clone(),
                Err(_) => {
                    visiting.pop();
                    return None; // locked by someone else: not judged
                }
            };
            let r = inh(&content, e, visiting, depth + 1).map(|w| format!("cell content: {w}"));
            visiting.pop();
            r
        }
    }
}

/// every mutable cell reachable from `v` holds a value of its own declared type
pub fn cells_ok(v: &Variable) -> Option<String> {
    fn walk(v: &Variable, seen: &mut Vec<usize>, depth: usize) -> Option<String> {
        if depth > 64 {
            return None;
        }
        match v {
            Variable::Array(a) => a.iter().find_map(|e| walk(e, seen, depth + 1)),
            Variable::Tuple(t) => t.iter().find_map(|e| walk(e, seen, depth + 1)),
            Variable::Struct(s) => s.values().find_map(|e| walk(e, seen, depth + 1)),
            Variable::Mut(cell) => {
                let key = Arc::as_ptr(cell) as usize;
                if seen.contains(&key) {
                    return None;
                }
                seen.push(key);
                let content = cell.variable.try_read().ok()?.clone();
                let declared = Ty::from_real(&cell.var_type);
                if let Some(w) = inhabits_why(&content, &declared) {
                    return Some(format!("cell declared mut {} holds {:?}: {w}", declared.text(), content));
                }
                walk(&content, seen, depth + 1)
            }
            _ => None,
        }
    }
    walk(v, &mut Vec::new(), 0)
}

/// canonical rendering of a value: struct fields sorted, NaNs unified, -0.0 kept distinct,
/// functions by declared type, cells by content + alias number
pub fn canon(v: &Variable) -> String {
    let mut cells: Vec<usize> = Vec::new();
    let mut out = String::new();
    canon_into(v, &mut out, &mut cells, 0);
    out
}

fn canon_into(v: &Variable, out: &mut String, cells: &mut Vec<usize>, depth: usize) {
    use std::fmt::Write;
    if depth > 40 {
        out.push_str("…");
        return;
    }
    match v {
        Variable::Bool(b) => {
            let _ = write!(out, "{b}");
        }
        Variable::Int(i) => {
            let _ = write!(out, "{i}");
        }
        Variable::Float(f) => {
            if f.is_nan() {
                out.push_str("NaN");
            } else {
                let _ = write!(out, "{f:?}f");
            }
        }
        Variable::String(s) => {
            let _ = write!(out, "{s:?}");
        }
        Variable::Void => out.push_str("()"),
        Variable::Function(f) => {
            let _ = write!(out, "<fn {}>", Ty::from_real(&f.as_type()).text());
        }
        Variable::Array(a) => {
            out.push('[');
            for (i, e) in a.iter().enumerate() {
                if i > 0 {
                    out.push_str(", ");
                }
                canon_into(e, out, cells, depth + 1);
            }
            out.push(']');
        }
        Variable::Tuple(t) => {
            out.push('(');
            for (i, e) in t.iter().enumerate() {
                if i > 0 {
                    out.push_str(", ");
                }
                canon_into(e, out, cells, depth + 1);
            }
            out.push(')');
        }
        Variable::Struct(s) => {
            let mut keys: Vec<&Arc<str>> = s.keys().collect();
            keys.sort();
            out.push_str("struct{");
            for (i, k) in keys.iter().enumerate() {
                if i > 0 {
                    out.push_str(", ");
                }
                let _ = write!(out, "{k}=");
                canon_into(&s[*k], out, cells, depth + 1);
            }
            out.push('}');
        }
        Variable::Mut(cell) => {
            let key = Arc::as_ptr(cell) as usize;
            if let Some(pos) = cells.iter().position(|c| *c == key) {
                let _ = write!(out, "<cell#{pos}>");
                return;
            }
            cells.push(key);
            let n = cells.len() - 1;
            let _ = write!(out, "<cell#{n} mut {} ", Ty::from_real(&cell.var_type).text());
            match cell.variable.try_read() {
                Ok(g) => {
                    let content = g.clone();
                    drop(g);
                    canon_into(&content, out, cells, depth + 1);
                }
                Err(_) => out.push_str("<locked>"),
            }
            out.push('>');
        }
    }
}

/// structural equality used by the harness (independent of the crate's PartialEq)
pub fn same_value(a: &Variable, b: &Variable) -> bool {
    canon(a) == canon(b)
}

// ---------------------------------------------------------------------------------------------
// value generation

pub struct ValueGen<'a> {
    pub rng: &'a mut Rng,
    /// function values are obtained by parsing lambdas; cache by type text
    pub fn_cache: HashMap<String, Option<Variable>>,
}

pub const STRINGS: [&str; 14] = [
    "", "a", "ab", "héllo", "日本", "🦀x", "a\u{301}", " \t", "0", "x\"y", "back\\slash", "\n", "ß", "abc def",
];

impl<'a> ValueGen<'a> {
    pub fn new(rng: &'a mut Rng) -> Self {
        ValueGen {
            rng,
            fn_cache: HashMap::new(),
        }
    }

    /// a value whose contents belong to `t` (None if `t` is uninhabited or too deep)
    pub fn value(&mut self, t: &Ty, depth: usize) -> Option<Variable> {
        match t {
            Ty::Bool => Some(Variable::Bool(self.rng.chance(1, 2))),
            Ty::Int => Some(Variable::Int(self.rng.int())),
            Ty::Float => Some(Variable::Float(self.rng.float())),
            Ty::Str => Some(Variable::String(Arc::from(*self.rng.pick(&STRINGS)))),
            Ty::Void => Some(Variable::Void),
            Ty::Never => None,
            Ty::Any => {
                let choices = [
                    Ty::Int,
                    Ty::Bool,
                    Ty::Str,
                    Ty::Void,
                    Ty::Float,
                    Ty::arr(Ty::Int),
                    Ty::Tup(vec![Ty::Int, Ty::Str]),
                ];
                let c = self.rng.pick(&choices).clone();
                self.value(&c, depth + 1)
            }
            Ty::Union(ms) => {
                let members: Vec<&Ty> = ms.iter().collect();
                let start = self.rng.below(members.len());
                for i in 0..members.len() {
                    if let Some(v) = self.value(members[(start + i) % members.len()], depth + 1) {
                        return Some(v);
                    }
                }
                None
            }
            Ty::Arr(e) => {
                let len = if depth > 3 { 0 } else { self.rng.below(4) };
                let mut els = Vec::new();
                for _ in 0..len {
                    match self.value(e, depth + 1) {
                        Some(v) => els.push(v),
                        None => break,
                    }
                }
                // stored element type: the declared one, or the one computed from the elements
                if self.rng.chance(1, 2) {
                    Some(Variable::Array(Arc::new(Array::new_with_type(e.to_real(), els.into()))))
                } else {
                    Some(Variable::from(els))
                }
            }
            Ty::Tup(ts) => {
                let els: Option<Vec<Variable>> = ts.iter().map(|t| self.value(t, depth + 1)).collect();
                Some(Variable::Tuple(els?.into()))
            }
            Ty::Struct(fs) => {
                let mut map: HashMap<Arc<str>, Variable> = HashMap::new();
                for (k, ft) in fs {
                    map.insert(Arc::from(k.as_str()), self.value(ft, depth + 1)?);
                }
                // width: sometimes an extra field
                if self.rng.chance(1, 4) {
                    map.insert(Arc::from("zz_extra"), Variable::Int(7));
                }
                Some(Variable::Struct(Arc::new(map)))
            }
            Ty::Mut(e) => {
                let content = self.value(e, depth + 1)?;
                Some(Variable::Mut(Arc::new(Mut {
                    var_type: e.to_real(),
                    variable: RwLock::new(content),
                })))
            }
            Ty::Fun(ps, r) => self.function(ps, r, depth),
        }
    }

    fn function(&mut self, ps: &[Ty], r: &Ty, depth: usize) -> Option<Variable> {
        if depth > 5 {
            return None;
        }
        let key = Ty::fun(ps.to_vec(), r.clone()).text();
        if let Some(v) = self.fn_cache.get(&key) {
            return v.clone();
        }
        let text = self.lambda_text(ps, r, depth)?;
        let result = crate::real::guarded(|| {
            let interp = simplesl::Interpreter::without_stdlib();
            simplesl::Code::parse(&interp, &text).ok()?.exec().ok()
        })
        .ok()
        .flatten()
        .filter(|v| matches!(v, Variable::Function(_)));
        self.fn_cache.insert(key, result.clone());
        result
    }

    pub fn lambda_text(&mut self, ps: &[Ty], r: &Ty, depth: usize) -> Option<String> {
        let params: Vec<String> = ps.iter().enumerate().map(|(i, t)| format!("q{i}: {}", t.text())).collect();
        let body = if *r == Ty::Void && self.rng.chance(1, 2) {
            String::new()
        } else {
            format!("return {}", self.expr_text(r, depth + 1)?)
        };
        // a function literal declares a union result without parentheses: `-> int|float {`
        Some(format!("({}) -> {} {{ {} }}", params.join(", "), r.text(), body))
    }

    /// source text of an expression whose static type is a subtype of `t`
    pub fn expr_text(&mut self, t: &Ty, depth: usize) -> Option<String> {
        if depth > 7 {
            return None;
        }
        Some(match t {
            Ty::Bool => self.rng.chance(1, 2).to_string(),
            Ty::Int => crate::props::c08::int_lit(self.rng.range(-9, 99)),
            Ty::Float => format!("{:?}", (self.rng.range(0, 40) as f64) / 4.0),
            Ty::Str => format!("{:?}", *self.rng.pick(&["", "a", "xyz", "q r"])),
            Ty::Void => "()".into(),
            Ty::Never => return None,
            Ty::Any => {
                let c = self.rng.pick(&[Ty::Int, Ty::Str, Ty::Void, Ty::Bool]).clone();
                return self.expr_text(&c, depth + 1);
            }
            Ty::Union(ms) => {
                let members: Vec<&Ty> = ms.iter().collect();
                let start = self.rng.below(members.len());
                for i in 0..members.len() {
                    if let Some(s) = self.expr_text(members[(start + i) % members.len()], depth + 1) {
                        return Some(s);
                    }
                }
                return None;
            }
            Ty::Arr(e) => {
                let len = self.rng.below(3);
                let mut items = Vec::new();
                for _ in 0..len {
                    match self.expr_text(e, depth + 1) {
                        Some(s) => items.push(s),
                        None => break,
                    }
                }
                format!("[{}]", items.join(", "))
            }
            Ty::Tup(ts) => {
                let items: Option<Vec<String>> = ts.iter().map(|t| self.expr_text(t, depth + 1)).collect();
                format!("({})", items?.join(", "))
            }
            Ty::Struct(fs) => {
                let items: Option<Vec<String>> = fs
                    .iter()
                    .map(|(k, t)| Some(format!("{k} := {}", self.expr_text(t, depth + 1)?)))
                    .collect();
                format!("struct{{{}}}", items?.join(", "))
            }
            Ty::Mut(e) => format!("(mut {} {})", e.text(), self.expr_text(e, depth + 1)?),
            Ty::Fun(ps, r) => self.lambda_text(ps, r, depth + 1)?,
        })
    }
}

/// random type from a universe closed under all constructors
pub fn gen_type(rng: &mut Rng, depth: usize) -> Ty {
    let leaf = depth == 0 || rng.chance(2, 5);
    if leaf {
        return match rng.below(12) {
            0 | 1 => Ty::Int,
            2 => Ty::Float,
            3 => Ty::Str,
            4 => Ty::Bool,
            5 => Ty::Void,
            6 => Ty::Any,
            7 => Ty::Never,
            8 => Ty::arr(Ty::Never),
            9 => Ty::Int,
            10 => Ty::Str,
            _ => Ty::Float,
        };
    }
    match rng.below(9) {
        0 | 1 => Ty::arr(gen_type(rng, depth - 1)),
        2 => Ty::Tup((0..2 + rng.below(2)).map(|_| gen_type(rng, depth - 1)).collect()),
        3 | 4 => Ty::fun(
            (0..rng.below(3)).map(|_| gen_type(rng, depth - 1)).collect(),
            gen_type(rng, depth - 1),
        ),
        5 => Ty::mutc(gen_type(rng, depth - 1)),
        6 => {
            let names = ["a", "b", "c"];
            let mut fs = BTreeMap::new();
            for n in names {
                if rng.chance(1, 2) {
                    fs.insert(n.to_string(), gen_type(rng, depth - 1));
                }
            }
            Ty::Struct(fs)
        }
        _ => Ty::union((0..2 + rng.below(2)).map(|_| gen_type(rng, depth - 1))),
    }
}

/// the depth-<=1 universe, enumerated completely
pub fn universe_depth1() -> Vec<Ty> {
    let base = vec![Ty::Bool, Ty::Int, Ty::Float, Ty::Str, Ty::Void, Ty::Any, Ty::Never];
    let mut out: BTreeSet<Ty> = base.iter().cloned().collect();
    for a in &base {
        out.insert(Ty::arr(a.clone()));
        out.insert(Ty::mutc(a.clone()));
        out.insert(Ty::fun(vec![], a.clone()));
        for b in &base {
            out.insert(Ty::Tup(vec![a.clone(), b.clone()]));
            out.insert(Ty::fun(vec![a.clone()], b.clone()));
            out.insert(Ty::union([a.clone(), b.clone()]));
            let mut fs = BTreeMap::new();
            fs.insert("a".to_string(), a.clone());
            out.insert(Ty::Struct(fs.clone()));
            fs.insert("b".to_string(), b.clone());
            out.insert(Ty::Struct(fs));
        }
    }
    out.insert(Ty::Struct(BTreeMap::new()));
    // field names are whole, case-sensitive identifiers: structs that differ only in the spelling of a name
    for names in [vec!["A"], vec!["a", "A"], vec!["ab"], vec!["aB"], vec!["a_"], vec!["a", "a_"], vec!["int"], vec!["A", "b"]] {
        for t in [Ty::Int, Ty::Any] {
            let fs: BTreeMap<String, Ty> = names.iter().map(|n| (n.to_string(), t.clone())).collect();
            out.insert(Ty::Struct(fs));
        }
    }
    for a in &base[..5] {
        for b in &base[..5] {
            for c in &base[..5] {
                out.insert(Ty::union([a.clone(), b.clone(), c.clone()]));
                out.insert(Ty::Tup(vec![a.clone(), b.clone(), c.clone()]));
                out.insert(Ty::fun(vec![a.clone(), b.clone()], c.clone()));
            }
        }
    }
    // unions of same-arity function types next to single function types whose parameter / result is the union of
    // theirs, and the same with a non-function member: "callable like the union" is not "a member of the union"
    let (i, st, f) = (Ty::Int, Ty::Str, Ty::Float);
    let is = Ty::union([i.clone(), st.clone()]);
    for p in [i.clone(), Ty::Any, is.clone()] {
        let rs = [i.clone(), st.clone(), is.clone(), Ty::Any];
        for (k, r1) in rs.iter().enumerate() {
            out.insert(Ty::fun(vec![p.clone()], r1.clone()));
            out.insert(Ty::fun(vec![], Ty::Tup(vec![Ty::Bool, r1.clone()])));
            for r2 in &rs[k + 1..] {
                let u = Ty::union([Ty::fun(vec![p.clone()], r1.clone()), Ty::fun(vec![p.clone()], r2.clone())]);
                out.insert(u.clone());
                out.insert(Ty::union([u, f.clone()]));
            }
        }
    }
    out.insert(Ty::union([Ty::fun(vec![i.clone()], i.clone()), Ty::fun(vec![st.clone()], i.clone())]));
    out.insert(Ty::fun(vec![is.clone()], i.clone()));
    out.insert(Ty::union([Ty::fun(vec![], Ty::Tup(vec![Ty::Bool, i.clone()])), Ty::fun(vec![], Ty::Tup(vec![Ty::Bool, f.clone()]))]));
    out.insert(Ty::fun(vec![], Ty::Tup(vec![Ty::Bool, Ty::union([i.clone(), f.clone()])])));
    out.insert(Ty::fun(vec![], Ty::union([Ty::Tup(vec![Ty::Bool, i.clone()]), Ty::Tup(vec![Ty::Bool, f])])));
    out.into_iter().collect()
}
