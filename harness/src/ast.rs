//! The harness's own program AST (what the generator emits and the reference evaluator runs)
//! and its printer into SimpleSL source text.
use crate::oracle::Ty;
use std::fmt::Write;

#[derive(Clone, Debug, PartialEq)]
pub enum E {
    Int(i64),
    Float(f64),
    Str(String),
    Bool(bool),
    Void,
    Var(String),
    /// prefix operator: "!", "-", "*"
    Un(&'static str, Box<E>),
    /// infix operator (everything in the Pratt table except `$ init`)
    Bin(&'static str, Box<E>, Box<E>),
    /// `it $ init f`
    Reduce(Box<E>, Box<E>, Box<E>),
    /// postfix reducer / iterate: "$+", "$*", "$&&", "$||", "$&", "$|", "$]", "~"
    Post(&'static str, Box<E>),
    TypeFilter(Box<E>, Ty),
    Call(Box<E>, Vec<E>),
    Index(Box<E>, Box<E>),
    /// start, stop, step, written with two colons even when step is absent
    Slice(Box<E>, Option<Box<E>>, Option<Box<E>>, Option<Box<E>>, bool),
    TupAcc(Box<E>, usize),
    Field(Box<E>, String),
    Arr(Vec<E>),
    Rep(Box<E>, Box<E>),
    Tup(Vec<E>),
    Struct(Vec<(String, E)>),
    Mut(Option<Ty>, Box<E>),
    /// `mut e` with the cell type inferred from the static type of `e` (carried here for the reference)
    MutInf(Ty, Box<E>),
    Lambda(Vec<(String, Ty)>, Ty, Vec<S>),
    Mod(Vec<S>),
    /// effect marker: appends `k` to the log, then yields the value of the inner expression,
    /// printed as a call of a typed tick helper (`ti(k, e)`, `tf`, `ts`, `tb`)
    Tick(u32, char, Box<E>),
    /// std.len(e)
    Len(Box<E>),
}

#[derive(Clone, Debug, PartialEq)]
pub enum Arm {
    Type(String, Ty, Box<S>),
    Value(Vec<E>, Box<S>),
    Other(Box<S>),
}

#[derive(Clone, Debug, PartialEq)]
pub enum S {
    Expr(E),
    Let(String, Box<S>),
    Destruct(Vec<String>, Box<S>),
    FnDecl(String, Vec<(String, Ty)>, Ty, Vec<S>),
    Block(Vec<S>),
    If(E, Box<S>, Option<Box<S>>),
    IfSet(String, Ty, E, Box<S>, Option<Box<S>>),
    Match(E, Vec<Arm>),
    Loop(Box<S>),
    While(E, Box<S>),
    WhileSet(String, Ty, E, Box<S>),
    For(String, E, Box<S>),
    Break,
    Continue,
    Return(Option<Box<S>>),
}

/// how literal constants are rendered
#[derive(Clone, Copy, PartialEq, Eq, Debug)]
pub enum Mode {
    /// as literals: the folder sees them
    Literal,
    /// behind identity functions (`hi(5)`): opaque to the folder
    Hidden,
}

pub const PRELUDE: &str = "log := mut [int] [];\n\
ti := (k: int, v: int) -> int { log += [k]; return v };\n\
tf := (k: int, v: float) -> float { log += [k]; return v };\n\
ts := (k: int, v: string) -> string { log += [k]; return v };\n\
tb := (k: int, v: bool) -> bool { log += [k]; return v };\n\
tu := (k: int, v: int|string) -> int|string { log += [k]; return v };\n\
ta := (k: int, v: [int]) -> [int] { log += [k]; return v };\n\
tn := (k: int, v: any) -> any { log += [k]; return v };\n\
tg := (k: int, v: (int, int) -> int) -> (int, int) -> int { log += [k]; return v };\n\
hi := (v: int) -> int { return v };\n\
hf := (v: float) -> float { return v };\n\
hs := (v: string) -> string { return v };\n\
hb := (v: bool) -> bool { return v };\n";

pub fn int_text(v: i64) -> String {
    if v == i64::MIN {
        "(-9223372036854775807 - 1)".into()
    } else if v < 0 {
        format!("(-{})", -(v as i128))
    } else {
        v.to_string()
    }
}

pub fn float_text(v: f64) -> String {
    if v.is_nan() {
        "(0.0 / 0.0)".into()
    } else if v.is_infinite() {
        if v > 0.0 { "(1.0 / 0.0)".into() } else { "(-1.0 / 0.0)".into() }
    } else if v.is_sign_negative() {
        format!("(-{:?})", v.abs())
    } else {
        format!("{v:?}")
    }
}

pub fn str_text(s: &str) -> String {
    // only plain characters are generated; quotes and backslashes are escaped
    let mut out = String::from("\"");
    for c in s.chars() {
        match c {
            '"' => out.push_str("\\\""),
            '\\' => out.push_str("\\\\"),
            '\n' => out.push_str("\\n"),
            c => out.push(c),
        }
    }
    out.push('"');
    out
}

pub struct Printer {
    pub mode: Mode,
    pub out: String,
    /// when set, `mod { body }` is rendered as `import "<dir>/m<k>.ssl"` and the body text is collected in `files`
    pub import_dir: Option<String>,
    pub files: Vec<(String, String)>,
}

impl Printer {
    pub fn new(mode: Mode) -> Self {
        Printer { mode, out: String::new(), import_dir: None, files: Vec::new() }
    }

    fn lit(&mut self, helper: &str, text: &str) {
        if self.mode == Mode::Hidden {
            let _ = write!(self.out, "{helper}({text})");
        } else {
            self.out.push_str(text);
        }
    }

    /// expression in operand position: compound expressions are parenthesised
    pub fn operand(&mut self, e: &E) {
        let atomic = matches!(
            e,
            E::Int(_) | E::Float(_) | E::Str(_) | E::Bool(_) | E::Void | E::Var(_) | E::Arr(_) | E::Rep(..) | E::Tup(_)
                | E::Struct(_) | E::Tick(..) | E::Len(_) | E::Call(..) | E::Index(..) | E::Slice(..) | E::TupAcc(..) | E::Field(..)
        );
        let lit_ok = match e {
            // negative literals are already parenthesised by their text; hidden literals are calls
            E::Int(_) | E::Float(_) => true,
            _ => atomic,
        };
        if lit_ok {
            self.expr(e);
        } else {
            self.out.push('(');
            self.expr(e);
            self.out.push(')');
        }
    }

    pub fn expr(&mut self, e: &E) {
        match e {
            E::Int(v) => self.lit("hi", &int_text(*v)),
            E::Float(v) => {
                if v.is_finite() {
                    self.lit("hf", &float_text(*v))
                } else {
                    self.out.push_str(&float_text(*v))
                }
            }
            E::Str(s) => self.lit("hs", &str_text(s)),
            E::Bool(b) => self.lit("hb", &b.to_string()),
            E::Void => self.out.push_str("()"),
            E::Var(n) => self.out.push_str(n),
            E::Un(op, a) => {
                self.out.push_str(op);
                // a prefix operator applies to one primary: always parenthesise its operand unless atomic
                match **a {
                    E::Var(_) | E::Tick(..) | E::Call(..) | E::Index(..) | E::TupAcc(..) | E::Field(..) | E::Len(_) | E::Bool(_) | E::Str(_) => self.expr(a),
                    _ => {
                        self.out.push('(');
                        self.expr(a);
                        self.out.push(')');
                    }
                }
            }
            E::Bin(op, a, b) => {
                self.operand(a);
                let _ = write!(self.out, " {op} ");
                self.operand(b);
            }
            E::Reduce(it, init, f) => {
                self.operand(it);
                self.out.push_str(" $ ");
                self.operand(init);
                self.out.push(' ');
                // `$ init (f)` would be read as the call `init(f)`: the function operand is written bare
                match **f {
                    E::Lambda(..) | E::Var(_) => self.expr(f),
                    _ => self.operand(f),
                }
            }
            E::Post(op, a) => {
                self.operand(a);
                // "$+i" / "$+f" / "$+s" / "$*i" / "$*f" carry the static element kind for the reference only
                let shown = if op.starts_with("$+") { "$+" } else if op.starts_with("$*") { "$*" } else { op };
                let _ = write!(self.out, " {shown}");
            }
            E::TypeFilter(a, t) => {
                self.operand(a);
                let _ = write!(self.out, " ? {}", t.text());
            }
            E::Call(f, args) => {
                self.callee(f);
                self.out.push('(');
                for (i, a) in args.iter().enumerate() {
                    if i > 0 {
                        self.out.push_str(", ");
                    }
                    self.expr(a);
                }
                self.out.push(')');
            }
            E::Index(a, i) => {
                self.callee(a);
                self.out.push('[');
                self.expr(i);
                self.out.push(']');
            }
            E::Slice(a, s, e2, st, two) => {
                self.callee(a);
                self.out.push('[');
                if let Some(s) = s {
                    self.expr(s);
                }
                self.out.push(':');
                if let Some(e2) = e2 {
                    self.expr(e2);
                }
                if st.is_some() || *two {
                    self.out.push(':');
                    if let Some(st) = st {
                        self.expr(st);
                    }
                }
                self.out.push(']');
            }
            E::TupAcc(a, k) => {
                self.callee(a);
                let _ = write!(self.out, ".{k}");
            }
            E::Field(a, n) => {
                self.callee(a);
                let _ = write!(self.out, ".{n}");
            }
            E::Arr(items) => {
                self.out.push('[');
                for (i, a) in items.iter().enumerate() {
                    if i > 0 {
                        self.out.push_str(", ");
                    }
                    self.expr(a);
                }
                self.out.push(']');
            }
            E::Rep(v, n) => {
                self.out.push('[');
                self.expr(v);
                self.out.push_str("; ");
                self.expr(n);
                self.out.push(']');
            }
            E::Tup(items) => {
                self.out.push('(');
                for (i, a) in items.iter().enumerate() {
                    if i > 0 {
                        self.out.push_str(", ");
                    }
                    self.expr(a);
                }
                self.out.push(')');
            }
            E::Struct(fields) => {
                self.out.push_str("struct{");
                for (i, (k, a)) in fields.iter().enumerate() {
                    if i > 0 {
                        self.out.push_str(", ");
                    }
                    let _ = write!(self.out, "{k} := ");
                    self.expr(a);
                }
                self.out.push('}');
            }
            E::Mut(t, a) => {
                self.out.push_str("mut ");
                if let Some(t) = t {
                    let _ = write!(self.out, "{} ", t.text());
                }
                self.operand(a);
            }
            E::MutInf(_, a) => {
                // `mut [..` would be read as a type: parenthesised
                self.out.push_str("mut (");
                self.expr(a);
                self.out.push(')');
            }
            E::Lambda(params, ret, body) => {
                self.out.push('(');
                for (i, (n, t)) in params.iter().enumerate() {
                    if i > 0 {
                        self.out.push_str(", ");
                    }
                    let _ = write!(self.out, "{n}: {}", t.text());
                }
                let _ = write!(self.out, ") -> {} {{ ", ret.text());
                self.stms(body);
                self.out.push_str(" }");
            }
            E::Mod(body) if self.import_dir.is_some() => {
                let mut sub = Printer::new(self.mode);
                sub.import_dir = self.import_dir.clone();
                // nested modules get their numbers after ours
                sub.files = std::mem::take(&mut self.files);
                let path = format!("{}/m{}.ssl", self.import_dir.as_deref().unwrap(), sub.files.len());
                sub.files.push((path.clone(), String::new()));
                let slot = sub.files.len() - 1;
                sub.stms(body);
                sub.files[slot].1 = std::mem::take(&mut sub.out);
                self.files = sub.files;
                let _ = write!(self.out, "import {}", str_text(&path));
            }
            E::Mod(body) => {
                self.out.push_str("mod { ");
                self.stms(body);
                self.out.push_str(" }");
            }
            E::Tick(k, kind, a) => {
                let _ = write!(self.out, "t{kind}({k}, ");
                self.expr(a);
                self.out.push(')');
            }
            E::Len(a) => {
                self.out.push_str("std.len(");
                self.expr(a);
                self.out.push(')');
            }
        }
    }

    /// expression followed by a postfix bracket / call / access
    fn callee(&mut self, e: &E) {
        match e {
            E::Var(_) | E::Call(..) | E::Index(..) | E::Slice(..) | E::TupAcc(..) | E::Field(..) | E::Arr(_) | E::Tup(_) | E::Str(_) | E::Tick(..) | E::Len(_) | E::Rep(..) | E::Struct(_) => {
                if self.mode == Mode::Hidden && matches!(e, E::Str(_)) {
                    self.expr(e)
                } else {
                    self.expr(e)
                }
            }
            _ => {
                self.out.push('(');
                self.expr(e);
                self.out.push(')');
            }
        }
    }

    pub fn stms(&mut self, body: &[S]) {
        for (i, s) in body.iter().enumerate() {
            if i > 0 {
                self.out.push(' ');
            }
            self.stm(s);
            self.out.push(';');
        }
    }

    /// statement in `body` position of if / arms (block | return | expr)
    fn body(&mut self, s: &S) {
        match s {
            S::Block(_) | S::Return(_) | S::Expr(_) => self.stm(s),
            other => {
                self.out.push_str("{ ");
                self.stm(other);
                self.out.push_str("; }");
            }
        }
    }

    pub fn stm(&mut self, s: &S) {
        match s {
            S::Expr(e) => self.expr(e),
            S::Let(n, rhs) => {
                let _ = write!(self.out, "{n} := ");
                if matches!(&**rhs, S::Expr(E::Lambda(..))) {
                    // `name := (params) -> T {..}` is a function *declaration* (the name is bound to the function inside
                    // its own body); a plain binding of an anonymous function is written with parentheses
                    self.out.push('(');
                    self.stm(rhs);
                    self.out.push(')');
                } else {
                    self.stm(rhs);
                }
            }
            S::Destruct(names, rhs) => {
                let _ = write!(self.out, "({}) := ", names.join(", "));
                self.stm(rhs);
            }
            S::FnDecl(n, params, ret, body) => {
                let _ = write!(self.out, "{n} := ");
                self.expr(&E::Lambda(params.clone(), ret.clone(), body.clone()));
            }
            S::Block(body) => {
                self.out.push_str("{ ");
                self.stms(body);
                self.out.push_str(" }");
            }
            S::If(c, t, e) => {
                self.out.push_str("if ");
                self.operand_cond(c);
                self.out.push(' ');
                self.body(t);
                if let Some(e) = e {
                    self.out.push_str(" else ");
                    self.stm(e);
                }
            }
            S::IfSet(n, ty, e, t, el) => {
                let _ = write!(self.out, "if {n}: {} = ", ty.text());
                self.operand_cond(e);
                self.out.push(' ');
                self.body(t);
                if let Some(el) = el {
                    self.out.push_str(" else ");
                    self.stm(el);
                }
            }
            S::Match(e, arms) => {
                self.out.push_str("match ");
                self.operand_cond(e);
                self.out.push_str(" { ");
                for arm in arms {
                    match arm {
                        Arm::Type(n, t, b) => {
                            let _ = write!(self.out, "{n}: {} => ", t.text());
                            self.body(b);
                        }
                        Arm::Value(vals, b) => {
                            for (i, v) in vals.iter().enumerate() {
                                if i > 0 {
                                    self.out.push_str(", ");
                                }
                                self.operand(v);
                            }
                            self.out.push_str(" => ");
                            self.body(b);
                        }
                        Arm::Other(b) => {
                            self.out.push_str("=> ");
                            self.body(b);
                        }
                    }
                    self.out.push_str(", ");
                }
                self.out.push('}');
            }
            S::Loop(b) => {
                self.out.push_str("loop ");
                self.stm(b);
            }
            S::While(c, b) => {
                self.out.push_str("while ");
                self.operand_cond(c);
                self.out.push(' ');
                self.stm(b);
            }
            S::WhileSet(n, ty, e, b) => {
                let _ = write!(self.out, "while {n}: {} = ", ty.text());
                self.operand_cond(e);
                self.out.push(' ');
                self.stm(b);
            }
            S::For(n, e, b) => {
                let _ = write!(self.out, "for {n} in ");
                self.operand_cond(e);
                self.out.push(' ');
                self.stm(b);
            }
            S::Break => self.out.push_str("break"),
            S::Continue => self.out.push_str("continue"),
            S::Return(None) => self.out.push_str("return"),
            S::Return(Some(s)) => {
                self.out.push_str("return ");
                self.stm(s);
            }
        }
    }

    /// condition / scrutinee position: followed by `{`, so struct-like or ambiguous forms are parenthesised
    fn operand_cond(&mut self, e: &E) {
        match e {
            E::Var(_) | E::Tick(..) | E::Call(..) | E::Len(_) | E::Index(..) | E::TupAcc(..) | E::Field(..) => self.expr(e),
            _ => {
                self.out.push('(');
                self.expr(e);
                self.out.push(')');
            }
        }
    }
}

pub fn print_program(body: &[S], mode: Mode) -> String {
    let mut p = Printer::new(mode);
    p.out.push_str(PRELUDE);
    p.stms(body);
    p.out
}

/// the program with every module written as an import of a file; returns (text, files to write)
pub fn print_program_imports(body: &[S], mode: Mode, dir: &str) -> (String, Vec<(String, String)>) {
    let mut p = Printer::new(mode);
    p.import_dir = Some(dir.to_string());
    p.out.push_str(PRELUDE);
    p.stms(body);
    (p.out, p.files)
}

pub fn print_stm(s: &S, mode: Mode) -> String {
    let mut p = Printer::new(mode);
    p.stm(s);
    p.out
}

pub fn print_expr(e: &E, mode: Mode) -> String {
    let mut p = Printer::new(mode);
    p.expr(e);
    p.out
}
