//! Operator x operand-type family: every operator applied to parameters of every type of a small universe that
//! includes unions. The checker decides acceptance; whatever it accepts is then called with every combination of
//! representative values of the member types, under the soundness / panic monitors (C01, C02), and every text
//! is also a parse-totality input (C03). No acceptance oracle is needed: "accepted => no admitted argument list
//! goes wrong" is the property itself.

/// (type text, representative values of each member)
pub fn universe() -> Vec<(&'static str, Vec<&'static str>)> {
    let int = vec!["0", "3", "(-1)"];
    let float = vec!["2.5"];
    let boolean = vec!["true", "false"];
    let string = vec!["\"s\"", "\"\""];
    let ints = vec!["[1, 2]", "[]"];
    let strs = vec!["[\"a\"]"];
    let cat = |parts: &[&Vec<&'static str>]| -> Vec<&'static str> { parts.iter().flat_map(|p| p.iter().copied()).collect() };
    vec![
        ("int", int.clone()),
        ("float", float.clone()),
        ("bool", boolean.clone()),
        ("string", string.clone()),
        ("[int]", ints.clone()),
        ("[string]", strs.clone()),
        ("(int, int)", vec!["(1, 2)"]),
        ("()", vec!["()"]),
        ("int|bool", cat(&[&int, &boolean])),
        ("int|float", cat(&[&int, &float])),
        ("int|string", cat(&[&int, &string])),
        ("float|string", cat(&[&float, &string])),
        ("bool|string", cat(&[&boolean, &string])),
        ("[int]|[string]", cat(&[&ints, &strs])),
        ("[int]|int", cat(&[&ints, &int])),
        ("[int|string]", vec!["[1, \"a\"]", "[2]", "[]"]),
        ("[int]|string", cat(&[&ints, &string])),
        ("any", vec!["0", "\"s\"", "[1]", "()", "2.5", "true"]),
    ]
}

pub const BINARY: &[&str] = &["+", "-", "*", "/", "%", "**", "==", "!=", "<", "<=", ">", ">=", "&&", "||", "&", "|", "^", "<<", ">>"];
pub const COMPOUND: &[&str] = &["=", "+=", "-=", "*=", "/=", "%=", "**=", "&=", "|=", "^=", "<<=", ">>="];
/// prefix / postfix forms over one operand `a`
pub const UNARY: &[&str] = &["-a", "!a", "*a", "a~", "a~ $+", "a~ $*", "a~ $&&", "a~ $||", "a~ $&", "a~ $|", "a~ $]", "a[0]", "a[(-1)]", "a[0:1]", "a.0", "a.a", "a()", "std.len(a)", "[a; 2]", "[0; a]"];

pub struct Case {
    pub label: String,
    /// declares `f`; when the checker accepts it, the calls are run
    pub decl: String,
    /// complete programs (declaration + one call)
    pub calls: Vec<String>,
}

fn product(a: &[&'static str], b: &[&'static str]) -> Vec<(String, String)> {
    let mut out = Vec::new();
    for x in a {
        for y in b {
            out.push((x.to_string(), y.to_string()));
        }
    }
    out
}

pub fn cases() -> Vec<Case> {
    let uni = universe();
    let mut out = Vec::new();
    for op in BINARY {
        for (t1, v1) in &uni {
            for (t2, v2) in &uni {
                let decl = format!("f := (a: {t1}, b: {t2}) -> any {{ return a {op} b }};");
                let calls = product(v1, v2).into_iter().map(|(x, y)| format!("{decl} f({x}, {y})")).collect();
                out.push(Case { label: format!("bin:{op}"), decl, calls });
            }
        }
    }
    for op in COMPOUND {
        for (t1, v1) in &uni {
            for (t2, v2) in &uni {
                let decl = format!("f := (c: mut ({t1}), b: {t2}) -> any {{ c {op} b; return c }};");
                let calls = product(v1, v2).into_iter().map(|(x, y)| format!("{decl} f(mut {t1} {x}, {y})")).collect();
                out.push(Case { label: format!("assign:{op}"), decl, calls });
            }
        }
    }
    let extra: Vec<(&'static str, Vec<&'static str>)> = vec![
        ("mut int", vec!["mut 5"]),
        ("mut (int|string)", vec!["mut int|string 5", "mut int|string \"s\""]),
        ("mut int|int", vec!["mut 5", "7"]),
        ("() -> (bool, int)", vec!["[1, 2]~", "[]~ ? int"]),
        ("() -> (bool, int|string)", vec!["[1, \"a\"]~"]),
        ("() -> (bool, float)", vec!["[2.5]~", "[1]~ ? float"]),
        ("() -> (bool, bool)", vec!["[true, false]~", "[]~ ? bool"]),
        ("() -> (bool, int)|[int]", vec!["[1]~", "[1]"]),
        ("() -> int", vec!["() -> int { return 1 }"]),
        ("() -> int|string", vec!["() -> int { return 1 }", "() -> string { return \"s\" }"]),
        ("(int) -> int", vec!["(x: int) -> int { return x }"]),
        ("(int) -> bool", vec!["(x: int) -> bool { return x > 1 }"]),
        ("(int, int) -> int", vec!["(x: int, y: int) -> int { return x + y }"]),
        ("(int) -> int|(int) -> bool", vec!["(x: int) -> int { return x }", "(x: int) -> bool { return true }"]),
        ("(int|string) -> int", vec!["(x: int|string) -> int { return 1 }"]),
        ("struct{a: int}", vec!["struct{a := 1}", "struct{a := 1, b := 2}"]),
        ("struct{a: int}|struct{b: int}", vec!["struct{a := 1}", "struct{b := 1}"]),
        ("struct{a: int|string}", vec!["struct{a := \"s\"}"]),
        ("(int, string)", vec!["(1, \"s\")"]),
        ("(int, string)|(string, int, int)", vec!["(1, \"s\")", "(\"s\", 1, 2)"]),
        ("(int, int)|[int]", vec!["(1, 2)", "[1]"]),
        ("!", vec![]),
        ("[]", vec!["[]"]),
    ];
    let mut uni1 = uni.clone();
    uni1.extend(extra);
    for form in UNARY {
        for (t, vs) in &uni1 {
            let decl = format!("f := (a: {t}) -> any {{ return {form} }};");
            let calls = vs.iter().map(|x| format!("{decl} f({x})")).collect();
            out.push(Case { label: format!("unary:{form}"), decl, calls });
        }
    }
    // statement forms whose operand has a typing rule of its own
    const STATEMENTS: &[&str] = &[
        "if a { return 1 } return 2",
        "if a { return 1 } else if a { return 2 } return 3",
        "while a { return 1 } return 2",
        "for x in a { return x } return 0",
        "(p, q) := a; return p",
        "(p, q, r) := a; return r",
        "return match a { 1 => 1, \"s\" => 2, => 3, }",
        "return match a { x: int => 1, y: string => 2, => 3, }",
        "return [1, 2][a]",
        "return [1, 2, 3][a:]",
        "return [1, 2, 3][:a]",
        "return [1, 2, 3][::a]",
        "return \"abc\"[a]",
        "c := mut a; c = a; return *c",
        "return a(1)",
        "return a(1, 2)",
        "return struct{v := a}.v",
        "return (a, 1).0",
        "loop { if a { break } return 1 } return 2",
        "return [5]~ @ a $]",
        "return [5]~ ? a $]",
        "return ([5]~ \\ a).0",
        "return [5]~ $ 0 a",
        "return a $ 0 (x: int, y: int) -> int { return x + y }",
    ];
    for form in STATEMENTS {
        for (t, vs) in &uni1 {
            let decl = format!("f := (a: {t}) -> any {{ {form} }};");
            let calls = vs.iter().map(|x| format!("{decl} f({x})")).collect();
            out.push(Case { label: format!("stmt:{}", &form[..form.len().min(24)]), decl, calls });
        }
    }
    // `it $ init f`: every combination of initial-value type, accumulator type and result type
    for (it_t, its) in [("() -> (bool, int)", vec!["[1, 2]~", "[1]~ ? (x: int) -> bool { return false }", "[]~ ? int"])] {
        for (init_t, inits) in [("int", vec!["5"]), ("string", vec!["\"none\""]), ("float", vec!["2.5"]), ("int|string", vec!["5", "\"none\""])] {
            for acc_t in ["int", "string", "int|string", "int|float", "any", "float|string|int"] {
                for (res_t, res_v) in [("int", "x"), ("string", "\"r\""), ("int|string", "acc"), ("float", "1.5"), ("any", "acc")] {
                    for user in ["r", "r + 1", "r + \"t\"", "[r]", "std.len([r])"] {
                        let decl = format!(
                            "f := (it: {it_t}, init: {init_t}) -> any {{ r := it $ init (acc: {acc_t}, x: int) -> {res_t} {{ return {res_v} }}; return {user} }};"
                        );
                        let calls = product(&its, &inits).into_iter().map(|(x, y)| format!("{decl} f({x}, {y})")).collect();
                        out.push(Case { label: "reduce:$init".into(), decl, calls });
                    }
                }
            }
        }
    }
    // `it @ f`, `it ? p`, `it \ p` with parameter types wider / narrower than the element type
    for op in ["@", "?", "\\"] {
        for (it_t, its) in [("() -> (bool, int)", vec!["[1, 2]~"]), ("() -> (bool, int|string)", vec!["[1, \"a\"]~"]), ("() -> (bool, string)", vec!["[\"a\"]~"])] {
            for p_t in ["int", "string", "int|string", "any", "float"] {
                let (res_t, res_v) = if op == "@" { ("int|string", "x") } else { ("bool", "true") };
                let res_v = if p_t == "float" && op == "@" { "1" } else { res_v };
                let fin = if op == "\\" { "(it \\ g).0" } else { &format!("(it {op} g) $]") };
                let decl = format!("f := (it: {it_t}) -> any {{ g := (x: {p_t}) -> {res_t} {{ return {res_v} }}; return {fin} }};");
                let calls = its.iter().map(|x| format!("{decl} f({x})")).collect();
                out.push(Case { label: format!("iter-op:{op}"), decl, calls });
            }
        }
    }
    // `it ? T`: the filter type is printed into the helper's source text and read back - every type shape,
    // over one array holding values of all of them
    let elements = "[mut int|string 1, mut 2, mut int|string \"c\", mut \"d\", \"x\", 3, 2.5, true, (), [1], [1, \"a\"], [\"a\"], [mut int|float 1], \
                    (1, \"a\"), (\"a\", 1), (1, 2), () -> int { return 1 }, () -> int|string { return \"s\" }, (x: int) -> int|string { return x }, \
                    struct{a := 1}, struct{a := \"s\"}, struct{a := 1, b := 2}, mut [1, \"a\"], mut [int|string] [1], [[1, \"a\"]], mut mut 1]";
    for t in [
        "int", "string", "float", "bool", "()", "any", "int|string", "mut int", "mut string", "mut (int|string)", "mut int|string", "mut (int|string)|int",
        "[int]", "[string]", "[int|string]", "[any]", "[mut (int|float)]", "[mut int]", "[[int|string]]", "[[int]]",
        "() -> int", "() -> (int|string)", "(int) -> (int|string)", "(int) -> int", "() -> any",
        "(int, string)", "(int|string, int|string)", "(int, int)", "(any, any)",
        "struct{a: int}", "struct{a: int|string}", "struct{a: int, b: int}", "struct{}",
        "mut [int|string]", "mut [int]", "mut mut int", "mut any", "[int]|mut int", "(int, string)|mut (int|string)",
    ] {
        let decl = format!("f := (it: () -> (bool, any)) -> [{t}] {{ return (it ? {t}) $] }};");
        let calls = vec![format!("{decl} f({elements}~)")];
        out.push(Case { label: "type-filter".into(), decl, calls });
    }
    out
}

/// both operands are constants whose static type is a union (narrowed only by folding): the operator is evaluated
/// while parsing
pub fn const_union_programs() -> Vec<String> {
    let vals = ["1", "true", "2.5", "\"s\"", "[1]", "()"];
    let mut out = Vec::new();
    for op in BINARY {
        for v1 in vals {
            for w1 in vals {
                if v1 == w1 {
                    continue;
                }
                for (v2, w2) in [(w1, v1), (v1, w1)] {
                    out.push(format!("a := [{v1}, {w1}][0]; b := [{v2}, {w2}][0]; a {op} b"));
                    out.push(format!("a := if true {v1} else {w1}; b := if true {v2} else {w2}; a {op} b"));
                }
            }
        }
    }
    out
}

/// a name bound to the value of a conditional whose *taken* branch diverges (`t := if true { break } else { VALUE }`):
/// the folding pass narrows the name to the diverging branch (static type `!`), and every later use of it is
/// type-queried on `!`. Parse-totality inputs (C03); the programs are also run (C01 / C02).
pub fn diverging_branch_programs() -> Vec<String> {
    let mut values: Vec<&'static str> = Vec::new();
    for (_, vs) in universe() {
        for v in vs {
            if !values.contains(&v) {
                values.push(v);
            }
        }
    }
    values.extend([
        "(1, \"s\")", "(1, 2, 3)", "struct{a := 1}", "struct{a := (1, 2)}", "mut 5", "mut (1, 2)", "[1, 2]~", "() -> int { return 1 }", "(x: int) -> int { return x }",
        "[(1, 2)]", "((1, 2), 3)", "[mut 1]", "(x: int, y: int) -> int { return x }", "(x: int) -> bool { return true }", "[true]~", "[\"a\"]~", "mut [1]", "struct{a := mut 1}",
        "(() -> int { return 1 }, 2)", "[(x: int) -> int { return x }]",
    ]);
    let uses = [
        "a.0", "a.1", "a.a", "a[0]", "a[0:1]", "*a", "a()", "a(1)", "-a", "!a", "a~", "a~ $+", "a $]", "a $+", "a + 1", "1 + a", "a + a", "a == a", "a && true", "a & 1", "a << 1",
        "a ** 2", "(p, q) := a; p", "(p, q, r) := a; p", "std.len(a)", "[a; 2]", "[0; a]", "[a]", "(a, 1)", "struct{f := a}", "mut a", "a.0.0", "a[0].0", "(*a).0", "a().0", "a.a.0",
        "for x in a { x }", "if a { 1 }", "while a { break }", "match a { 1 => 1, => 2, }", "match a { x: int => x, => 2, }", "if x: (int, int) = a { x.0 }", "c := mut 1; c = a", "c := mut 1; c += a",
        "a @ (x: int) -> int { return x }", "a ? (x: int) -> bool { return true }", "a ? int", "a $ 0 (x: int, y: int) -> int { return x }", "[1]~ @ a", "[1]~ $ a (x: int, y: int) -> int { return x }",
        "g := () -> any { return a.0 }; g()", "g := () -> any { (p, q) := a; return p }; g()",
        "a \\ (x: int) -> bool { return true }", "(a \\ (x: int) -> bool { return true }).0", "[1]~ \\ a", "a ? int $]", "a @ (x: int) -> int { return x } $]",
        "a ? (x: int) -> bool { return true } $]", "a~ $]", "a $&&", "a $||", "a $&", "a $|", "a $*", "a[0][0]", "a.0()", "a()()", "a[0]()", "*a()", "*a.0", "**a", "a = 1",
        "a += 1", "a /= 0", "a[0:1][0]", "a.0.1", "a $ 0 (x: int, y: int) -> int { return x } + 1", "a ? int ? string $]", "(a, a).0.0", "[a][0].0", "struct{f := a}.f.0",
        "a == 1", "1 == a", "a != a", "a < 1", "a || true", "a | 1", "a ^ 1", "a >> 1", "a % 2", "a / 2", "a - 1", "a * 2", "2 ** a",
        "[1]~ $ 0 a", "[1]~ ? a", "[1]~ ? a $]", "[1]~ @ a $]", "([1]~ \\ a).1", "[1]~ $ 0 a + 1", "a ? int", "[a]~ $+", "(a, 1) == (a, 1)", "a.0 = 1", "a[0] += 1", "*a = 1", "*a.0 += 1",
        "return a", "return a.0", "x := a; x.0", "(p, q) := (a, a); p.0", "if true { a.0 }", "match 1 { 1 => a.0, => 2, }", "for x in [1]~ { a.0 }",
    ];
    // expression uses are also bound to a name and used again (binding asks for the static type of the expression)
    let mut all_uses: Vec<String> = uses.iter().map(|u| u.to_string()).collect();
    for u in uses {
        let statement = u.contains(":=") || ["for ", "if ", "while ", "match "].iter().any(|k| u.starts_with(k));
        if !statement {
            all_uses.push(format!("r := {u}; r"));
            all_uses.push(format!("r := [{u}]; r[0]"));
        }
    }
    let mut out = Vec::new();
    for v in &values {
        for u in &all_uses {
            // in a loop (break / continue) and in a function (return); through if / else-if / match with a constant subject
            out.push(format!("loop {{ a := if true {{ break }} else {{ {v} }}; {u}; break }}"));
            out.push(format!("f := () -> any {{ a := if false {{ {v} }} else {{ return 0 }}; {u}; return 1 }}; f()"));
            out.push(format!("f := () -> any {{ a := match 1 {{ 1 => {{ return 0 }}, => {v}, }}; {u}; return 1 }}; f()"));
            out.push(format!("for i in [1]~ {{ a := if true {{ continue }} else {{ {v} }}; {u}; }}"));
        }
    }
    out
}

/// `it ? T` over a source whose *declared* element type is E (a struct type, a union, a tuple type ...), for every
/// pairing of E with a filter type T that is wider, narrower, overlapping or unrelated.
pub struct TypedFilterCase {
    pub label: String,
    pub decl: String,
    pub calls: Vec<String>,
    pub filter: String,
    pub elements: Vec<String>,
    /// the selected elements can be compared by content (no function values, whose identity differs per evaluation)
    pub comparable: bool,
    /// programs whose value is the array of selected elements
    pub collect_programs: Vec<String>,
}

pub fn typed_filter_cases() -> Vec<TypedFilterCase> {
    let sources: Vec<(&str, Vec<&str>, bool)> = vec![
        ("struct{x: int, y: int}", vec!["struct{x := 1, y := 2}", "struct{x := 3, y := 4}"], true),
        ("struct{id: int, v: int|()}", vec!["struct{id := 1, v := 5}", "struct{id := 2, v := ()}"], true),
        ("struct{x: int, y: int}|int|string", vec!["struct{x := 1, y := 2}", "7", "struct{x := 3, y := 4}", "\"s\""], true),
        ("struct{a: int|string}", vec!["struct{a := 1}", "struct{a := \"s\"}"], true),
        ("struct{a: int}|struct{b: int}", vec!["struct{a := 1}", "struct{b := 2}", "struct{a := 1, b := 2}"], true),
        ("struct{a: struct{b: int, c: int}}", vec!["struct{a := struct{b := 1, c := 2}}"], true),
        ("int|string", vec!["1", "\"a\"", "2"], true),
        ("int|float", vec!["1", "2.5"], true),
        ("int", vec!["1", "2"], true),
        ("[int]|[string]", vec!["[1]", "[\"a\"]", "[]"], true),
        ("[int|string]", vec!["[1, \"a\"]", "[2]", "[]", "[\"b\"]"], true),
        ("[struct{x: int, y: int}]", vec!["[struct{x := 1, y := 2}]", "[]"], true),
        ("(int, int)|(int, string)", vec!["(1, 2)", "(1, \"a\")"], true),
        ("(int|string, int)", vec!["(1, 2)", "(\"a\", 2)"], true),
        ("(struct{x: int, y: int}, int)", vec!["(struct{x := 1, y := 2}, 3)"], true),
        ("mut int|mut string", vec!["mut 1", "mut \"s\""], false),
        ("mut (int|string)", vec!["mut int|string 1"], false),
        ("() -> int", vec!["() -> int { return 1 }"], false),
        ("() -> (int|string)", vec!["() -> int|string { return 1 }", "() -> int { return 2 }"], false),
        ("() -> struct{x: int, y: int}", vec!["() -> struct{x: int, y: int} { return struct{x := 1, y := 2} }"], false),
        ("any", vec!["1", "\"a\"", "2.5", "struct{x := 1, y := 2}", "[1]", "(1, 2)", "()", "true", "struct{x := 1}"], true),
    ];
    let filters = [
        "int", "string", "float", "int|float", "int|string", "any", "()", "[int]", "[string]", "[any]", "[int|string]", "[struct{x: int}]", "(int, int)", "(int, any)",
        "(any, any)", "(int|string, int)", "(struct{x: int}, int)", "struct{x: int}", "struct{x: int, y: int}", "struct{y: int}", "struct{}", "struct{x: int|string}",
        "struct{id: int, v: int}", "struct{id: int}", "struct{id: int, v: ()}", "struct{a: int}", "struct{a: int|string}", "struct{b: int}", "struct{a: int, b: int}",
        "struct{a: struct{b: int}}", "struct{x: int}|int", "mut int", "mut string", "mut (int|string)", "() -> int", "() -> (int|string)", "() -> any", "() -> struct{x: int}",
    ];
    let mut out = Vec::new();
    for (e, els, comparable) in &sources {
        let lit = format!("[{}]", els.join(", "));
        for t in filters {
            let collect_param = format!("f := (a: [{e}]) -> any {{ return (a~ ? {t}) $] }}; f({lit})");
            let collect_lit = format!("({lit}~ ? {t}) $]");
            let collect_typed = format!("f := (a: [{e}]) -> [{t}] {{ return (a~ ? {t}) $] }}; f({lit})");
            let decl = format!("f := (a: [{e}]) -> any {{ it := a~ ? {t}; r := it(); q := it $]; return (r, q, r.1) }};");
            let calls = vec![
                format!("{decl} f({lit})"),
                collect_param.clone(),
                collect_lit.clone(),
                collect_typed.clone(),
                format!("f := (a: [{e}]) -> any {{ c := mut [{t}] []; for x in a~ ? {t} {{ c += [x]; }}; return *c }}; f({lit})"),
                format!("f := (a: [{e}]) -> any {{ it := a~ ? {t}; d := mut it().1; return d }}; f({lit})"),
            ];
            out.push(TypedFilterCase {
                label: "type-filter:typed-source".into(),
                decl,
                calls,
                filter: t.to_string(),
                elements: els.iter().map(|x| x.to_string()).collect(),
                comparable: *comparable,
                collect_programs: vec![collect_param, collect_lit, collect_typed],
            });
        }
    }
    out
}

/// `match` with type arms over scrutinee types that hold a union *inside* an array / tuple / struct / cell: which arm sets
/// the checker accepts as covering is its decision; whatever it accepts is called with values of every shape the
/// scrutinee type admits (homogeneous, mixed, empty), and some arm must take each of them.
pub struct MatchCoverageCase {
    pub scrutinee: String,
    pub arms: Vec<String>,
    pub values: Vec<String>,
    pub decl: String,
    pub calls: Vec<String>,
}

pub fn match_coverage_cases() -> Vec<MatchCoverageCase> {
    let table: Vec<(&str, Vec<&str>, Vec<Vec<&str>>)> = vec![
        ("[int|string]", vec!["[]", "[1]", "[\"a\"]", "[1, \"a\"]", "[\"a\", 1, 2]"],
            vec![vec!["[int]", "[string]"], vec!["[string]", "[int]"], vec!["[int]", "[string]", "[int|string]"], vec!["[any]"], vec!["[int]", "[any]"], vec!["[int|string]"], vec!["[int]"], vec!["[int]", "[string]", "[]"]]),
        ("[int|float]", vec!["[]", "[1]", "[2.5]", "[1, 2.5]"], vec![vec!["[int]", "[float]"], vec!["[float]", "[int]", "[int|float]"], vec!["[int|float]"]]),
        ("(int|string, bool)", vec!["(1, true)", "(\"a\", false)"], vec![vec!["(int, bool)", "(string, bool)"], vec!["(int, bool)"], vec!["(int|string, bool)"], vec!["(any, bool)"], vec!["(int, any)", "(string, any)"]]),
        ("(int|string, int|string)", vec!["(1, 1)", "(1, \"a\")", "(\"a\", 1)", "(\"a\", \"b\")"],
            vec![vec!["(int, int)", "(string, string)"], vec!["(int, int)", "(int, string)", "(string, int)", "(string, string)"], vec!["(int, any)", "(string, any)"], vec!["(int, int|string)", "(string, int)"]]),
        ("[[int|string]]", vec!["[]", "[[]]", "[[1], [\"a\"]]", "[[1, \"a\"]]", "[[1], [2]]"], vec![vec!["[[int]]", "[[string]]"], vec!["[[int]]", "[[string]]", "[[int|string]]"], vec!["[[int]|[string]]"], vec!["[[any]]"]]),
        ("struct{a: int|string}", vec!["struct{a := 1}", "struct{a := \"s\"}"], vec![vec!["struct{a: int}", "struct{a: string}"], vec!["struct{a: int}"], vec!["struct{a: int|string}"], vec!["struct{}"]]),
        ("struct{a: [int|string]}", vec!["struct{a := [1]}", "struct{a := [1, \"s\"]}", "struct{a := []}"], vec![vec!["struct{a: [int]}", "struct{a: [string]}"], vec!["struct{a: [int|string]}"], vec!["struct{a: [int]}", "struct{a: [string]}", "struct{a: [any]}"]]),
        ("([int|string], int)", vec!["([1], 1)", "([1, \"a\"], 2)", "([], 3)"], vec![vec!["([int], int)", "([string], int)"], vec!["([int|string], int)"], vec!["([int], int)", "([string], int)", "([any], int)"]]),
        ("[(int|string, int)]", vec!["[]", "[(1, 1)]", "[(1, 1), (\"a\", 1)]"], vec![vec!["[(int, int)]", "[(string, int)]"], vec!["[(int|string, int)]"], vec!["[(any, int)]"]]),
        ("int|[int|string]", vec!["1", "[1]", "[1, \"a\"]", "[]"], vec![vec!["int", "[int]", "[string]"], vec!["int", "[int|string]"], vec!["int", "[any]"], vec!["int|[int]", "[string]"]]),
        ("[int]|[string]", vec!["[1]", "[\"a\"]", "[]"], vec![vec!["[int]", "[string]"], vec!["[int]"], vec!["[int|string]"], vec!["[string]", "[any]"]]),
        ("(int, int)|(int, string)", vec!["(1, 2)", "(1, \"a\")"], vec![vec!["(int, int)", "(int, string)"], vec!["(int, int|string)"], vec!["(int, int)"], vec!["(int, any)"]]),
        ("(int, int)|(int, int, int)", vec!["(1, 2)", "(1, 2, 3)"], vec![vec!["(int, int, int)", "(int, int)"], vec!["(int, int)", "(int, int, int)"], vec!["(int, int)"], vec!["(any, any)", "(any, any, any)"], vec!["(int, any)", "any"]]),
        ("(int, int)|(int, int, int)|int", vec!["(1, 2)", "(1, 2, 3)", "7"], vec![vec!["(int, int, int)", "any"], vec!["int", "(int, int)", "(int, int, int)"], vec!["(int, int)", "int|(int, int, int)"]]),
        ("any", vec!["(1, 2)", "(1, 2, 3)", "(1, (2, 3))", "((1, 2), 3)", "[1, 2]", "1"], vec![vec!["(int, int, int)", "(int, int)", "(int, (int, int))", "any"], vec!["(any, any)", "any"], vec!["((int, int), int)", "(int, any)", "any"], vec!["[int]", "(int, int)", "any"]]),
        ("[(int, int)|(int, int, int)]", vec!["[(1, 2)]", "[(1, 2, 3)]", "[(1, 2), (1, 2, 3)]", "[]"], vec![vec!["[(int, int)]", "[(int, int, int)]", "[any]"], vec!["[(int, int, int)]", "[(int, int)]", "[(int, int)|(int, int, int)]"]]),
        ("[int|string]|string", vec!["\"s\"", "[1, \"a\"]", "[2]"], vec![vec!["[int]", "[string]", "string"], vec!["[int|string]", "string"], vec!["string", "[any]"]]),
        ("mut (int|string)", vec!["mut int|string 1", "mut int|string \"s\""], vec![vec!["mut int", "mut string"], vec!["mut (int|string)"], vec!["mut any"]]),
        ("[mut (int|string)]", vec!["[mut int|string 1]", "[]"], vec![vec!["[mut int]", "[mut string]"], vec!["[mut (int|string)]"]]),
        ("() -> (int|string)", vec!["() -> int|string { return 1 }", "() -> int { return 2 }", "() -> string { return \"s\" }"], vec![vec!["() -> int", "() -> string"], vec!["() -> (int|string)"], vec!["() -> any"]]),
    ];
    let mut out = Vec::new();
    for (t, values, armsets) in table {
        for arms in armsets {
            let arm_text: String = arms.iter().enumerate().map(|(i, a)| format!("v{i}: {a} => {}, ", i + 1)).collect();
            let decl = format!("f := (x: {t}) -> int {{ return match x {{ {arm_text}}} }};");
            let calls = values.iter().map(|v| format!("{decl} f({v})")).collect();
            out.push(MatchCoverageCase { scrutinee: t.to_string(), arms: arms.iter().map(|a| a.to_string()).collect(), values: values.iter().map(|v| v.to_string()).collect(), decl, calls });
        }
    }
    out
}

/// a call through a value whose static type is a *union of function types*: the checker must intersect the parameter types
/// (struct / tuple / array / cell / function / union parameters of every pairing) and type the result; whatever it accepts is
/// called with both kinds of function
pub fn union_call_cases() -> Vec<Case> {
    // (parameter type, an argument of that type)
    let params: Vec<(&str, &str)> = vec![
        ("int", "1"), ("float", "2.5"), ("string", "\"s\""), ("int|string", "1"), ("int|float", "2.5"), ("any", "1"), ("()", "()"),
        ("[int]", "[1]"), ("[int|string]", "[1]"), ("[any]", "[1]"), ("[]", "[]"),
        ("(int, int)", "(1, 2)"), ("(int, string)", "(1, \"s\")"), ("(int, int, int)", "(1, 2, 3)"), ("(any, any)", "(1, 2)"),
        ("struct{a: int}", "struct{a := 1}"), ("struct{b: int}", "struct{b := 1}"), ("struct{a: int, b: int}", "struct{a := 1, b := 2}"), ("struct{a: string}", "struct{a := \"s\"}"),
        ("struct{a: int|string}", "struct{a := 1}"), ("struct{}", "struct{}"), ("struct{a: int, c: int}", "struct{a := 1, c := 3}"), ("struct{a: struct{b: int}}", "struct{a := struct{b := 1}}"),
        ("mut int", "mut 1"), ("mut (int|string)", "mut int|string 1"), ("() -> int", "() -> int { return 1 }"), ("(int) -> int", "(x: int) -> int { return x }"),
    ];
    let mut out = Vec::new();
    for (pa, va) in &params {
        for (pb, vb) in &params {
            // arguments: the one of A, the one of B, and a struct carrying the fields of both (meets of struct types)
            let extra = "struct{a := 1, b := 2, c := 3}";
            let decl = format!("g := (f: ({pa}) -> int | ({pb}) -> string, x: any) -> any {{ return 0 }};");
            let mut calls = Vec::new();
            for arg in [*va, *vb, extra] {
                calls.push(format!("g := (f: ({pa}) -> int | ({pb}) -> string) -> any {{ return f({arg}) }}; (g((p: {pa}) -> int {{ return 1 }}), g((p: {pb}) -> string {{ return \"s\" }}))"));
                calls.push(format!("g := (f: ({pa}) -> int | ({pb}) -> string) -> any {{ r := f({arg}); return [r] }}; g((p: {pa}) -> int {{ return 1 }})"));
            }
            calls.push(format!("g := (f: ({pa}, int) -> int | ({pb}) -> int) -> any {{ return f({va}) }}; g((p: {pb}) -> int {{ return 1 }})"));
            calls.push(format!("fs := [(p: {pa}) -> int {{ return 1 }}, (p: {pb}) -> int {{ return 2 }}]; fs[0]({va})"));
            out.push(Case { label: "union-call".into(), decl, calls });
        }
    }
    out
}

/// loops (and other constructs) used for their value, whose only ways out stand in unusual positions: inside the value of a
/// declaration or destructuring, in a branch of a nested if / match / if-set, in a nested block, after an inner loop.
/// (program, canonical value) - `loop` / `while` / `for` evaluate to (), whatever their exits look like
pub fn loop_value_programs() -> Vec<(String, String)> {
    let exits = [
        "s := if *k > 2 { break } else { 1 };",
        "(p, q) := if *k > 2 { break } else { (1, 2) };",
        "s := match *k { 3 => { break }, => 1, };",
        "s := if v: string = [1, \"a\"][*k % 2] { break } else { 1 };",
        "s := { if *k > 2 { break }; 1 };",
        "if *k > 2 { break };",
        "if *k <= 2 { } else { break };",
        "match *k { 3 => { break }, => { }, };",
        "{ { if *k > 2 { break }; }; };",
        "for j in [1]~ { if *k > 2 { break }; }; if *k > 3 { break };",
        "t := (if *k > 2 { break } else { 1 }, 2);",
        "s := [if *k > 2 { break } else { 1 }];",
        "c := mut 0; c = if *k > 2 { break } else { 1 };",
        "g := (x: int) -> int { return x }; g(if *k > 2 { break } else { 1 });",
    ];
    let mut out = Vec::new();
    for e in exits {
        // at top level: the loop's value bound to a name; the program's type must admit ()
        out.push((format!("k := mut 0; r := loop {{ k += 1; {e} }}; (r, *k)"), String::new()));
        out.push((format!("k := mut 0; r := while true {{ k += 1; {e} }}; (r, *k)"), String::new()));
        out.push((format!("k := mut 0; loop {{ k += 1; {e} }}"), "()".into()));
        // in a function: either the checker refuses it (no return on the path that leaves the loop) or the result is an int
        out.push((format!("f := () -> int {{ k := mut 0; loop {{ k += 1; {e} }} }}; f()"), "<int-or-rejected>".into()));
        out.push((format!("f := () -> int {{ k := mut 0; loop {{ k += 1; {e} }} return *k }}; f()"), "<int-or-rejected>".into()));
        out.push((format!("f := () -> int {{ k := mut 0; loop {{ k += 1; {e} return 100 + *k }} return *k }}; f()"), "<int-or-rejected>".into()));
        out.push((format!("f := () -> () {{ k := mut 0; loop {{ k += 1; {e} }} }}; f()"), "()".into()));
        out.push((format!("f := () -> [()] {{ k := mut 0; return [loop {{ k += 1; {e} }}] }}; f()"), "[()]".into()));
    }
    // loops whose body never completes normally (it ends in return / break / continue on every path) still complete
    // themselves when their condition fails or the break is taken
    let hb = "hb := (v: bool) -> bool { return v }; ";
    for (src, want) in [
        ("f := (c: bool) -> int { while c { return 1 } }; f(false)", "<int-or-rejected>"),
        ("f := (c: bool) -> int { while c { return 1 } return 2 }; (f(false), f(true))", "(2, 1)"),
        ("f := (a: [int]) -> int { for x in a~ { return x } }; f([])", "<int-or-rejected>"),
        ("f := (a: [int]) -> int { for x in a~ { return x } return 0 - 1 }; (f([]), f([7]))", "(-1, 7)"),
        ("f := (u: int|string) -> int { while x: int = u { return x } }; f(\"s\")", "<int-or-rejected>"),
        ("f := (c: bool) -> int { loop { if c { break } else { return 1 } } }; f(true)", "<int-or-rejected>"),
        ("f := (c: bool) -> int { loop { if c { break } else { return 1 } } return 2 }; (f(true), f(false))", "(2, 1)"),
        ("f := (c: bool) -> int { loop { match c { true => { break }, => { return 1 }, } } return 2 }; (f(true), f(false))", "(2, 1)"),
        ("x := if hb(true) { loop { break } } else { 5 }; x", "()"),
        ("x := if hb(false) { loop { break } } else { 5 }; x", "5"),
        ("x := if hb(true) { while hb(false) { continue } } else { 5 }; [x]", "[()]"),
        ("x := match hb(true) { true => { for i in [1]~ { break } }, => 5, }; (x, 1)", "((), 1)"),
        ("f := () -> int|() { return loop { break } }; f()", "()"),
        ("k := mut 0; x := while *k < 3 { k += 1; if *k == 2 { continue } else { continue } }; (x, *k)", "((), 3)"),
    ] {
        out.push((format!("{hb}{src}"), want.to_string()));
    }
    out
}

/// arrays (and tuples / structs holding them) produced along every provenance path from pieces of different element types,
/// then put through run-time type tests whose bodies use the elements at the tested type: whatever tag an
/// implementation stores with an array, a test that passes must be true of the contents
pub fn provenance_type_test_programs() -> Vec<String> {
    let pieces: [(&str, &str); 17] = [
        // element types related by subtyping (one piece's tag covers the other's)
        ("[1]", "[1, 2.5]"), ("[1, 2.5]", "[1]"), ("[1]", "[2, \"a\"]"), ("[\"a\", 1]", "[\"b\"]"), ("[[1]]", "[[1], [2.5]]"),
        ("[struct{x := 1, y := 2}]", "[struct{x := 1, y := 2}, struct{x := 3}]"), ("[(1, 2)]", "[(1, 2), (1, \"a\")]"),
        ("[1]", "[2.5]"), ("[2.5]", "[1]"), ("[1]", "[\"a\"]"), ("[1, 2]", "[]"), ("[]", "[2.5]"), ("[1]", "[1, 2.5][1:]"), ("[1, 2.5][:1]", "[3]"),
        ("[[1]]", "[[2.5]]"), ("[(1, 2)]", "[(1, \"a\")]"), ("[struct{x := 1, y := 2}]", "[struct{x := 2.5}]"),
    ];
    let builds = [
        "A + B", "B + A", "(A + B)[0:1]", "(A + B)[1:]", "(A + B)~ $]", "(A + B)~ ? (v: any) -> bool { return true } $]", "((A + B)~ \\ (v: any) -> bool { return true }).0",
        "((A + B)~ \\ (v: any) -> bool { return false }).1", "[A, B][0] + []", "[] + [A, B][1]", "*(mut (A + B))", "(A + B) + (A + B)[0:0]", "[(A + B)[0]; 2]", "(A + B)~ @ (v: any) -> any { return v } $]",
        "(A + B)[::-1]", "if hb(true) { A } else { B }", "[A, B][hi(0)]", "((x: any) -> any { return x })(A + B)",
    ];
    let tests = [
        "if x: [int] = a { x~ $+ } else { 0 }", "if x: [float] = a { x~ $+ } else { 0.0 }", "if x: [string] = a { x~ $+ } else { \"\" }", "if x: [int] = a { x[0] + 1 } else { 0 }",
        "match a { x: [int] => x~ $*, y: [float] => 1, z: any => 2, }", "([a]~ ? [int] $])~ @ (v: [int]) -> int { return v~ $+ } $]", "([a]~ ? [float] $])~ @ (v: [float]) -> float { return v~ $+ } $]",
        "if x: [int|float] = a { x~ @ (v: int|float) -> int { return 1 } $+ } else { 0 }", "if x: [[int]] = a { x[0]~ $+ } else { 0 }", "if x: [(int, int)] = a { x[0].1 + 1 } else { 0 }",
        "if x: [struct{x: int, y: int}] = a { x[0].y + 1 } else { 0 }", "if x: [struct{x: int}] = a { x[0].x + 1 } else { 0 }", "while x: [int] = a { r := x~ $+; break }",
        "c := mut [int] []; if x: [int] = a { c += x; }; *c~ $+", "t := (a, 1); if x: ([int], int) = t { x.0~ $+ } else { 0 }", "s := struct{f := a}; if x: struct{f: [int]} = s { x.f~ $+ } else { 0 }",
    ];
    let mut out = Vec::new();
    for (pa, pb) in pieces {
        for b in builds {
            let build = b.replace('A', pa).replace('B', pb);
            for t in tests {
                out.push(format!("hb := (v: bool) -> bool {{ return v }}; hi := (v: int) -> int {{ return v }}; a := {build}; {t}"));
                out.push(format!("hb := (v: bool) -> bool {{ return v }}; hi := (v: int) -> int {{ return v }}; f := (a: any) -> any {{ {t} }}; f({build})"));
            }
        }
    }
    out
}
