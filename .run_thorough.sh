#!/bin/bash
# usage: .run_thorough.sh SEED LOG PROP...
cd /verif; seed=$1; log=$2; shift 2
for p in "$@"; do
  s=$(date +%s); ./check $p --tier thorough --seed $seed > /tmp/t_${seed}_$p.out 2>&1; rc=$?
  echo "$p rc=$rc $(( $(date +%s)-s ))s $(grep -c '^VIOLATION' /tmp/t_${seed}_$p.out) viol" >> $log
done
echo DONE >> $log
