#!/usr/bin/env python3
"""Regenerates MANIFEST.json from checkcfg.py (single source of truth for what is claimed)."""
import json, os, subprocess, sys
ROOT = os.path.dirname(os.path.abspath(__file__))
sys.path.insert(0, ROOT)
from checkcfg import PROPS, NOT_APPLICABLE

ids = [json.loads(l)["id"] for l in open(os.path.join(ROOT, "properties.jsonl"))]
hooks_commits = subprocess.run(["git", "-C", "/repo", "log", "--format=%h %s", "--grep=verif"], stdout=subprocess.PIPE, text=True).stdout.strip().splitlines()
checks = []
for pid in ids:
    if pid not in PROPS:
        continue
    c = PROPS[pid]
    checks.append({
        "property_id": pid,
        "quick_cmd": f"./check {pid} --tier quick",
        "thorough_cmd": f"./check {pid} --tier thorough",
        "evidence_file": f"/verif/evidence/{pid}.json",
        "replay_cmd_template": f"./check {pid} --replay {{path}}",
        "engine": "vmon",
        "level_claimed": {"category": c.get("level", "exploration"), "text": c["level_text"], "design_ref": c.get("design_ref", f"DESIGN.md §4 {pid}")},
        "level_note": c["level_note"],
        "technique": c["technique"],
    })
na = [{"property_id": pid, "reason": NOT_APPLICABLE.get(pid, "check not built yet in this round; see DESIGN.md §4 for the planned monitor")} for pid in ids if pid not in PROPS]
manifest = {
    "version": 1,
    "setup_cmd": "cd /verif/harness && CARGO_NET_OFFLINE=true cargo build --release --offline && cd /verif/miri && (CARGO_NET_OFFLINE=true CARGO_TARGET_DIR=/verif/target/miri MIRIFLAGS=-Zmiri-disable-isolation cargo +nightly miri run -q -- noop || true) && (cd /verif/harness && CARGO_NET_OFFLINE=true CARGO_TARGET_DIR=/verif/target/tsan RUSTFLAGS=-Zsanitizer=thread cargo +nightly build -Zbuild-std --target x86_64-unknown-linux-gnu --release --offline || true)",
    "hooks": {
        "guard": "verif",
        "enable": "cargo feature `verif` of crate simplesl (the harness depends on simplesl with features=[\"verif\"]); e.g. cargo build --features verif",
        "baseline_off_cmd": "cd /repo && cargo test --workspace --no-fail-fast --offline",
        "source_commits": [l.split()[0] for l in hooks_commits if not l.split(" ", 1)[1].startswith("fix:")],
        "add_only": True,
    },
    "engines": [{"name": "vmon", "path": "/verif/harness", "serves_properties": [c["property_id"] for c in checks],
                 "kind_free_text": "Rust harness linking /repo (feature verif): workload generators, reference oracles and runtime monitors; driven by /verif/check (python3) which shards work over processes, applies KNOWN_FINDINGS.txt and writes evidence"}],
    "checks": checks,
    "not_applicable": na,
    "notes": "Technique family: runtime monitoring. Every verdict comes from oracles observing executions of the real crate. exit 0 = held on what was explored, 1 = VIOLATION, 2 = could not run, 3 = inconclusive (coverage below floor).",
}
json.dump(manifest, open(os.path.join(ROOT, "MANIFEST.json"), "w"), indent=1)
print("MANIFEST.json:", len(checks), "checks,", len(na), "not applicable")
